/* mc.h - explicit-state explorer (BFS over the real implementation) and exhaustive
 * enumeration helpers.  One process = one exploration of one configuration. */
#ifndef MC_H
#define MC_H
#include <stdint.h>
#include <stddef.h>

#define MC_OK    0      /* event applied, implementation agrees with oracle            */
#define MC_SKIP  1      /* event not enabled in this state (no transition)             */
#define MC_VIOL  2      /* oracle disagrees; mc_diag()/mc_sig() describe it            */

#define MC_CTX_MAX 64

typedef struct {
    const char *property;                 /* "C07" */
    const char *name;                     /* harness name                                              */
    int         n_cfg;                    /* number of configurations (each a separate exploration)   */
    const char *(*cfg_name)(int cfg);
    int         (*build)(int cfg);        /* build the world; returns number of events of the alphabet */
    const char *(*ev_name)(int e);        /* static or internal buffer                                 */
    int         (*step)(int e);           /* apply event e to implementation+model, compare            */
    int         max_frames;               /* safety: frames per step bound                             */
    int         default_depth;
    void        (*probe)(void);           /* optional: run in every newly discovered state (must restore the world); may mc_fail() */
} mc_harness;

/* recording a violation from inside step()/enumeration: signature (stable class name) + details */
void mc_fail(const char *sig, const char *fmt, ...) __attribute__((format(printf, 2, 3)));
extern long mc_expand_id;                /* id of the node being expanded; -1 while a path is replayed */
extern int mc_verbose;                    /* set during --replay */
void mc_log(const char *fmt, ...) __attribute__((format(printf, 1, 2)));   /* printed only when verbose */

int mc_main(int argc, char **argv, const mc_harness *h);

/* ---- exhaustive enumeration (dialogues, input sweeps) ---- */
typedef struct {
    const char *property;
    const char *name;
    int         n_cfg;
    const char *(*cfg_name)(int cfg);
    void        (*run_cfg)(int cfg, int tier);      /* loops over all cases; uses mc_case()/mc_case_end() */
    void        (*run_case)(const int *ctx, int n); /* replays the case identified by ctx[1..]; ctx[0]=cfg */
} mc_enum;

/* set the identification of the case about to run (for crash dumps and replays) */
void mc_case(int n, ...);                 /* n ints follow */
void mc_case_v(const int *v, int n);
/* finish a case: outcome hash for distinct-outcome accounting, nontrivial flag, optional sample text */
void mc_case_end(uint64_t outcome, int nontrivial, const char *sample);
extern long mc_steps;                     /* implementation steps executed (frames/ticks/calls), harness increments */
int  mc_enum_main(int argc, char **argv, const mc_enum *e);
int  mc_deadline_hit(void);               /* enumeration loops poll this and stop early (reported as not exhaustive) */
void mc_note_incomplete(const char *why);
int  mc_tier(void);                       /* 0 quick, 1 thorough */
int  mc_opt(const char *name, int dflt);  /* integer option --name value passed on the command line */

#endif
