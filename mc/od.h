/* od.h - tiny sorted-insert object dictionary builder for harnesses */
#ifndef MC_OD_H
#define MC_OD_H
#include "co_core.h"

typedef struct { CO_OBJ *root; int cap; int used; } OdB;

static inline void od_init(OdB *b, CO_OBJ *root, int cap)
{
    b->root = root; b->cap = cap; b->used = 0;
    for (int i = 0; i < cap; i++) { root[i].Key = 0; root[i].Type = 0; root[i].Data = 0; }
}

/* returns the entry (pointer valid until the next od_add) or NULL if full */
static inline CO_OBJ *od_add(OdB *b, uint32_t key, const CO_OBJ_TYPE *type, CO_DATA data)
{
    int i, pos = 0;
    if (b->used >= b->cap - 1) return 0;            /* keep the end marker */
    while (pos < b->used && CO_GET_DEV(b->root[pos].Key) < CO_GET_DEV(key)) pos++;
    if (pos < b->used && CO_GET_DEV(b->root[pos].Key) == CO_GET_DEV(key)) {
        b->root[pos].Key = key; b->root[pos].Type = type; b->root[pos].Data = data; return &b->root[pos];
    }
    for (i = b->used; i > pos; i--) b->root[i] = b->root[i - 1];
    b->root[pos].Key = key; b->root[pos].Type = type; b->root[pos].Data = data;
    b->used++;
    return &b->root[pos];
}

/* mandatory entries every harness dictionary starts from */
static inline void od_mandatory(OdB *b, uint8_t *errreg)
{
    od_add(b, CO_KEY(0x1000, 0, CO_OBJ_D___R_), CO_TUNSIGNED32, (CO_DATA)0x00000000);
    od_add(b, CO_KEY(0x1001, 0, CO_OBJ_____R_), CO_TUNSIGNED8,  (CO_DATA)errreg);
    od_add(b, CO_KEY(0x1018, 0, CO_OBJ_D___R_), CO_TUNSIGNED8,  (CO_DATA)4);
    od_add(b, CO_KEY(0x1018, 1, CO_OBJ_D___R_), CO_TUNSIGNED32, (CO_DATA)1);
    od_add(b, CO_KEY(0x1018, 2, CO_OBJ_D___R_), CO_TUNSIGNED32, (CO_DATA)2);
    od_add(b, CO_KEY(0x1018, 3, CO_OBJ_D___R_), CO_TUNSIGNED32, (CO_DATA)3);
    od_add(b, CO_KEY(0x1018, 4, CO_OBJ_D___R_), CO_TUNSIGNED32, (CO_DATA)4);
}

static inline void od_sdo_server0(OdB *b)
{
    od_add(b, CO_KEY(0x1200, 0, CO_OBJ_D___R_), CO_TUNSIGNED8,  (CO_DATA)2);
    od_add(b, CO_KEY(0x1200, 1, CO_OBJ_DN__R_), CO_TUNSIGNED32, (CO_DATA)CO_COBID_SDO_REQUEST());
    od_add(b, CO_KEY(0x1200, 2, CO_OBJ_DN__R_), CO_TUNSIGNED32, (CO_DATA)CO_COBID_SDO_RESPONSE());
}

#endif
