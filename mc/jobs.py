"""jobs.py - which explorations decide which property, per tier."""

def J(harness, cfg=0, **kw):
    d = {"harness": harness, "cfg": cfg}
    d.update(kw)
    return d

PROPS = {}

PROPS["C07"] = {
    "level": "model_checking",
    "technique": "explicit-state BFS of the real timer manager in lockstep with a reference timer (fixpoint for pools 1-2 and a reduced pool 3); exhaustive sweep of the tick conversion",
    "text": "Every create/delete/tick history over start,cycle in 0..3 and four callback kinds (plain, deletes another, creates a one-shot, deletes itself) is executed on the real COTmr* code; per step the set of callbacks run, return values and handle uniqueness are compared with a reference timer. The reachable state set is closed (fixpoint) for pools of 1 and 2 actions and for pool 3 with plain callbacks, depth-bounded for pool 3 (all kinds), 4 and 16. COTmrGetTicks is swept over all 65536 times x 2 units x 13 frequencies.",
    "note": "tick = COTmrService immediately followed by COTmrProcess (deferred processing is C08); callback order within one step is not compared; time values limited to 0..3 ticks",
    "jobs": {
        "quick":    [J("c07", 0, depth=40), J("c07", 1, depth=40), J("c07", 2, depth=40, opts={"kinds": 1, "times": 3}), J("c07", 2, depth=4, deadline=60),
                     J("c07", 3, depth=4, deadline=60), J("c07", 4, depth=4, deadline=60), J("c07conv")],
        "thorough": [J("c07", 0, depth=40), J("c07", 1, depth=40), J("c07", 2, depth=40, opts={"kinds": 1, "times": 3}, deadline=600),
                     J("c07", 2, depth=40, opts={"kinds": 2, "times": 3}, deadline=900, max_states=40000000),
                     J("c07", 2, depth=6, deadline=900, max_states=40000000), J("c07", 3, depth=5, deadline=900, max_states=40000000),
                     J("c07", 4, depth=5, deadline=900, max_states=40000000), J("c07conv")],
    },
    "bounds": {"quick": "pool 1,2: fixpoint; pool 3: depth 7; pool 4: depth 5; pool 16: depth 4",
               "thorough": "pool 1,2: fixpoint; pool 3: depth 12; pool 4: depth 8; pool 16: depth 6"},
}

COV = ["-O0", "-fsanitize-coverage=trace-pc-guard,trace-loads,trace-stores"]
def C08(cfg, **kw):
    return J("c08", cfg, stack_cflags=COV, allow_dead=True, **kw)
PROPS["C08"] = {
    "level": "model_checking",
    "technique": "preemption-point model checking: BFS over task-level timer histories x placement of the tick interrupt at every shared-memory access outside the lock (compiler-instrumented loads/stores), expiry-accounting oracle + pool conservation",
    "text": "co_tmr.c is compiled with load/store tracing; every access to CO_TMR, the timer memory, the hardware counter or Node.Error made outside COTmrLock/Unlock is a preemption point at which COTmrService may run. BFS over {create, delete, service, process} x injection point, with service and process as independent events (arbitrary processing delay). Closed state space (fixpoint) for pools 1 and 2 with an interrupt allowed in every operation; depth-bounded for pool 3.",
    "note": "one injected interrupt per task-level operation (any number per history in the unbounded configurations); single core, interrupt runs to completion; plain callbacks only",
    "jobs": {
        "quick":    [C08(0, depth=40), C08(1, depth=40), C08(6, depth=40), C08(7, depth=40), C08(2, depth=6, deadline=60), C08(5, depth=5, deadline=60)],
        "thorough": [C08(0, depth=40), C08(1, depth=40), C08(3, depth=40), C08(4, depth=40), C08(6, depth=40), C08(7, depth=40),
                     C08(2, depth=10, deadline=900, max_states=40000000), C08(5, depth=9, deadline=900, max_states=40000000), C08(8, depth=9, deadline=900, max_states=40000000)],
    },
}

SC3 = ["CO_VERIF_SDO_BUF_SEG=3"]
REAL1K = ["SDO_DS2=1000"]
TWO3 = ["CO_SSDO_N=2", "CO_VERIF_SDO_BUF_SEG=3"]
CLOSE = {"coarse": 1, "small": 1, "fewinit": 1}
def sdo_jobs(h, quick):
    if quick:
        return [J(h, 0, defs=SC3, depth=60, deadline=150, opts=CLOSE),                      # closed state space, scaled buffer
                J(h, 1, defs=SC3, depth=60, deadline=150, opts=CLOSE),                      # ... in OPERATIONAL
                J(h, 0, defs=SC3, depth=2, deadline=100),                                   # fine state identity, full alphabet
                J(h, 0, defs=SC3, depth=3, deadline=100, opts={"small": 1, "fewinit": 1}),  # fine state identity, reduced alphabet
                J(h, 0, defs=REAL1K, depth=3, deadline=100, opts={"small": 1, "fewinit": 1, "coarse": 1}),   # real 127-segment buffer
                J(h, 0, defs=TWO3, depth=4, deadline=100, opts=CLOSE)]                      # two servers interleaved
    return [J(h, 0, defs=SC3, depth=60, deadline=1500, opts={"coarse": 1}, max_states=20000000),
            J(h, 1, defs=SC3, depth=60, deadline=1500, opts=CLOSE),
            J(h, 0, defs=SC3, depth=3, deadline=1200, max_states=20000000),
            J(h, 0, defs=SC3, depth=5, deadline=1200, opts={"small": 1, "fewinit": 1}, max_states=20000000),
            J(h, 0, defs=REAL1K, depth=5, deadline=1200, opts={"small": 1, "fewinit": 1, "coarse": 1}, max_states=20000000),
            J(h, 0, defs=REAL1K, depth=3, deadline=1200, opts={"small": 1}, max_states=20000000),
            J(h, 0, defs=TWO3, depth=6, deadline=1200, opts=CLOSE, max_states=20000000)]

PROPS["C04"] = {
    "level": "model_checking",
    "technique": "explicit-state BFS over the full SDO command alphabet against the real server with an allowed-set reference server",
    "text": 'BFS over the real SDO server(s) with an alphabet of ~630 request frames (all 256 command bytes; initiate requests of every kind to every object class incl. missing index/sub-index, RO/WO, node-id relative, domains smaller/larger than the buffer, strings, range- and user-abort types, with size fields =,<,>,0; acknowledges for all ackseq x blksize classes), in lockstep with a reference server that yields the set of admissible responses per protocol state. Per step: number of response frames, multiplexer, abort code, toggle/size/last flags, data, and the complete dictionary image are compared. The scaled-buffer build (3 segments) is explored to a fixpoint under a coarse state identity; fine state identity to depth 2-3; the real 127-segment buffer and a two-server build to a depth bound.',
    "note": 'coarse state identity zeroes fields the next initiate re-initialises (assumed dead; cross-checked by the fine explorations to their depth); application data is rewritten to its initial value whenever all servers are idle; requests in block-download phases are judged as segments (CiA 301 cannot tell them apart); out-of-protocol non-initiate requests only need exactly one answer',
    "jobs": {"quick": sdo_jobs("c04", True), "thorough": sdo_jobs("c04", False)},
}

PROPS["C05"] = {
    "level": "model_checking",
    "technique": "reachability closure of the real SDO server under the full command alphabet + recovery probes (abort / reset communication, then clean transfers) in every reachable state, differential against a fresh node",
    "text": 'The C04 exploration (closed state space of the scaled-buffer server) with a recovery probe in every discovered state: on a copy of the state, [client abort] resp. [NMT reset communication] followed by each of 7 clean transfers (expedited/segmented/block up- and downloads of integers, domains below and above the buffer size, strings; with a lost block segment and a partial block acknowledge). Each must succeed with correct data and its complete frame trace must equal the trace of the same transfer on a freshly initialised node; the reference server runs in lockstep.',
    "note": 'same reductions as C04; probes run after application data has been rewritten to its initial values (the comparison is about protocol behaviour)',
    "jobs": {"quick": sdo_jobs("c05", True), "thorough": sdo_jobs("c05", False)},
}

REAL4K = ["SDO_DS2=4000"]
TWO = ["CO_SSDO_N=2", "SDO_DS2=1000"]
PROPS["C02"] = {
    "level": "model_checking",
    "technique": "deviation-bounded exhaustive enumeration of conforming download clients (all modes, size indications, last-segment fills, lost-segment placements, two-server interleavings) against the real server with the reference server in lockstep",
    "text": 'Every conforming download dialogue of the enumerated space is executed against the real server (real 889-byte buffer): domain sizes 1..30, 7k+-1 up to 71, 885..900, 1777..1780, 2000, 3999, 4000 (quick: 28 of them) x payload length {S, S-1, 1, S+1} x {expedited s=1/s=0, segmented, block} x size announced or not, position-dependent payload; block mode additionally with every placement of <=1 (quick) / <=2 (thorough) lost segment transmissions followed by the prescribed retransmission; integers direct/referenced/node-id-relative with lengths size-1..size+1; two servers: every interleaving of a scripted transfer on the second server with a segmented or block transfer on the first. Oracle: reference server in lockstep (every response field CiA 301 fixes) plus end-to-end comparison of the object bytes, untouched tail and refusal of over-long payloads.',
    "note": 'losing the final segment of a block is not recoverable by a conforming client and is excluded; for 4000-byte transfers the second loss is placed in the neighbourhood of the first and at block boundaries',
    "jobs": {
        "quick": [J("c02", 0, defs=REAL4K, deadline=120), J("c02", 1, defs=REAL4K), J("c02", 2, defs=TWO, deadline=120)],
        "thorough": [J("c02", 0, defs=REAL4K, deadline=1500), J("c02", 1, defs=REAL4K), J("c02", 2, defs=TWO, deadline=900)],
    },
}

PROPS["C03"] = {
    "level": "model_checking",
    "technique": "deviation-bounded exhaustive enumeration of conforming upload clients (segmented; block with every block size, every acknowledge position per block, block size changes) against the real server with the reference server in lockstep",
    "text": 'Every conforming upload dialogue of the enumerated space runs against the real server: domains and strings of the C02 size list with two contents each, integers and fixed strings; segmented/expedited as the server chooses; block mode with every block size 1..127 (sizes <= 200; {1,2,3,7,63,64,126,127} above) and, per block, every acknowledge position k in 0..sent combined with a block size change in {1,2,b-1,b+1,127} - one deviation per transfer (quick) or two (thorough, sizes <= 200); each transfer is run twice back-to-back. Oracle: reference server in lockstep (sequence numbers, last flag, n, announced size, data per segment) plus end-to-end comparison of the assembled bytes and length.',
    "note": 'deviations are placed in the first 64 blocks of a transfer; quick tier uses boundary acknowledge positions for objects > 200 bytes',
    "jobs": {
        "quick": [J("c03", c, defs=REAL4K, deadline=150) for c in range(3, 17)] + [J("c03", 2, defs=REAL4K)],
        "thorough": [J("c03", c, defs=REAL4K, deadline=1500) for c in range(3, 17)] + [J("c03", 2, defs=REAL4K)],
    },
}

PROPS["C09"] = {
    "level": "model_checking",
    "technique": "explicit-state BFS to a fixpoint over NMT commands, API mode changes and one probe frame per service, against a reference CiA 301 slave state machine with a per-state gating table",
    "text": "Node with one of every service (SDO server, asynchronous RPDO, event and synchronous TPDO, SYNC consumer, heartbeat producer and consumer, EMCY, LSS). Alphabet: NMT command specifiers {1,2,128,129,130,0,3,127,255} x target {own id, 0, other}; CONmtSetMode, CONodeStart, CONmtReset(node/com), CONodeStop; probe frames for SDO, RPDO, SYNC, heartbeat of a monitored and an unmonitored node, LSS switch/inquire, a foreign identifier and the node's own transmit identifiers; COEmcySet/Clr, COTPdoTrigPdo, tick. After every step: node mode, the sequence of mode-change callbacks, the reset-request callback, the number and content of boot-up frames, which service reacted (frames per identifier, mapped object, PDO callback), and how often the frame was handed to the application callback are compared with the reference. The reachable state set is closed (fixpoint) for node ids 1, 5 and 127, started and unstarted.",
    "note": "heartbeat timing is not compared here (C10), only content and at most one per tick; in STOPPED the delivery of unclaimed frames to the application is unconstrained as the statement says; after CONodeStop only safety is judged; NMT frames carry DLC 2",
    "jobs": {
        "quick": [J("c09", c, depth=80, deadline=120) for c in range(4)],
        "thorough": [J("c09", c, depth=80, deadline=600) for c in range(4)],
    },
}

PROPS["C10"] = {
    "level": "model_checking",
    "technique": "explicit-state BFS over ticks, 1017h writes (SDO and API), NMT commands and every other timer user as interference, against a reference heartbeat schedule",
    "text": "Node with heartbeat producer, one heartbeat consumer, SYNC (producer switchable), an event-driven TPDO with inhibit and event time, and an application timer. 30 events: tick; 1017h := {0,1,2,3} periods by SDO and by CODictWrWord; NMT start/stop/pre-op/reset communication/reset node; SDO writes to 1800h:1/:2/:3/:5, 1005h, 1006h, 1016h:1; COTPdoTrigPdo; a changed asynchronous mapped object; application COTmrCreate/COTmrDelete; heartbeat of the monitored node (its timeouts interleave). After every step the heartbeat frames (count, DLC, state byte) must equal the reference schedule: exactly one frame every period counted from the last accepted write or reset, none otherwise. 1 kHz and 100 Hz timers, node ids 1 and 10.",
    "note": "depth-bounded (no fixpoint: the product with the other timer users is large); other frames of a step are ignored here",
    "jobs": {
        "quick": [J("c10", 0, depth=7, deadline=100), J("c10", 1, depth=6, deadline=100), J("c10", 2, depth=6, deadline=100), J("c10", 3, depth=6, deadline=100)],
        "thorough": [J("c10", c, depth=10, deadline=1200, max_states=30000000) for c in range(4)],
    },
}

PROPS["C11"] = {
    "level": "model_checking",
    "technique": "explicit-state BFS over heartbeat frames, 1016h writes, counter/state queries and ticks against a reference monitor per consumer entry",
    "text": "Consumer tables of 1..4 entries (6 initial configurations). Events: heartbeat frames of two monitored nodes and one unmonitored node with states {0,4,5,127}; SDO write of {node X|Y, time 0|2|3} and {0,0} to every entry followed by a read-back; CONmtGetHbEvents and CONmtLastHbState for the three nodes; tick; 765 ticks of silence (counter saturation); NMT stop/start/reset communication. After every step the CONmtHbConsEvent / CONmtHbConsChange callbacks (multiset per node), the return values of the queries, the SDO verdict (0604 0043h and no change for a node that is already monitored, acceptance otherwise) and the read-back value are compared with the reference; entries not addressed by a write must keep their monitoring.",
    "note": "'already monitored' is read literally (any entry, including the written one, configured with that node and a non-zero time); depth-bounded",
    "jobs": {
        "quick": [J("c11", 0, depth=8, deadline=100), J("c11", 1, depth=6, deadline=100), J("c11", 2, depth=6, deadline=100), J("c11", 3, depth=5, deadline=100), J("c11", 4, depth=5, deadline=100), J("c11", 5, depth=5, deadline=100)],
        "thorough": [J("c11", 0, depth=12, deadline=1200), J("c11", 1, depth=8, deadline=1200, max_states=30000000), J("c11", 2, depth=8, deadline=1200, max_states=30000000),
                     J("c11", 3, depth=7, deadline=1200, max_states=30000000), J("c11", 4, depth=7, deadline=1200, max_states=30000000), J("c11", 5, depth=6, deadline=1200, max_states=30000000)],
    },
}

PROPS["C06"] = {
    "level": "exploration",
    "technique": "small-scope exhaustive enumeration (every sorted dictionary over a key universe, every 8/16-bit value, every buffer length) against a linear-scan reference, with exact-size heap arrays under AddressSanitizer",
    "text": "Four exhaustive sweeps on the real CODict*/COObj* code: (0) lookup - every subset of a sorted universe of 10 keys (14 thorough) x entry flag patterns x max in {Num+1, Num+5}, probed with every universe key and its sub+-1/index+-1 neighbours under key flags {00,01,FF}, plus strided dictionaries of 11..300 entries; result compared by pointer identity with a linear scan; the CO_OBJ array is a heap block of exactly Num+1 elements so that any access past the end marker is an ASan report; (1) type init - dictionaries of 1..6 (12) entries where every entry counts its init calls, CONodeInit must call each exactly once; (2) typed access - 12 entries (width 1/2/4 x direct/referenced x plain/node-id), all 256/65536 values, listed 32-bit patterns, node ids {1,2,63,127} (1..127), every access width against every entry width, stored raw value and untouched neighbours; (3) buffers - domains and strings of 13 (308) sizes x every length 0..4100: bytes moved == min(len,size), guards intact, second call restarts at offset 0.",
    "note": "finite listed spaces enumerated completely; 32-bit values are a listed boundary set; a refused access only has to return an error (the code is not fixed by the statement)",
    "rule": "cases are the elements of the four finite spaces described in the level text; non-trivial = the call under test moved data or found an entry; distinct = distinct outcome hashes",
    "jobs": {
        "quick":    [J("c06", 0), J("c06", 1), J("c06", 2), J("c06", 3)],
        "thorough": [J("c06", 0), J("c06", 1), J("c06", 2, deadline=900), J("c06", 3)],
    },
    "bounds": {"quick": "universe 10 keys (1024 dictionaries x 6 variants) + 20 strided lengths; node ids 1,2,63,127; 13 buffer sizes x lengths 0..4100",
               "thorough": "universe 14 keys (16384 x 6) + strided lengths 11..300; node ids 1..127; 308 buffer sizes x lengths 0..4100"},
}
