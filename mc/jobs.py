"""jobs.py - which explorations decide which property, per tier."""

def J(harness, cfg=0, **kw):
    d = {"harness": harness, "cfg": cfg}
    d.update(kw)
    return d

PROPS = {}

PROPS["C07"] = {
    "level": "model_checking",
    "technique": "explicit-state BFS of the real timer manager in lockstep with a reference timer (fixpoint for pools 1-2 and a reduced pool 3); exhaustive sweep of the tick conversion",
    "text": "Every create/delete/tick history over start,cycle in 0..3 and four callback kinds (plain, deletes another, creates a one-shot, deletes itself) is executed on the real COTmr* code; per step the set of callbacks run, return values and handle uniqueness are compared with a reference timer. The reachable state set is closed (fixpoint) for pools of 1 and 2 actions and for pool 3 with plain callbacks, depth-bounded for pool 3 (all kinds), 4 and 16. COTmrGetTicks is swept over all 65536 times x 2 units x 13 frequencies.",
    "note": "tick = COTmrService immediately followed by COTmrProcess (deferred processing is C08); callback order within one step is not compared; time values limited to 0..3 ticks",
    "jobs": {
        "quick":    [J("c07", 0, depth=40), J("c07", 1, depth=40), J("c07", 2, depth=40, opts={"kinds": 1, "times": 3}), J("c07", 2, depth=4, deadline=60),
                     J("c07", 3, depth=4, deadline=60), J("c07", 4, depth=4, deadline=60), J("c07conv")],
        "thorough": [J("c07", 0, depth=40), J("c07", 1, depth=40), J("c07", 2, depth=40, opts={"kinds": 1, "times": 3}, deadline=600),
                     J("c07", 2, depth=40, opts={"kinds": 2, "times": 3}, deadline=900, max_states=40000000),
                     J("c07", 2, depth=6, deadline=900, max_states=40000000), J("c07", 3, depth=6, deadline=900, max_states=40000000),
                     J("c07", 4, depth=7, deadline=900, max_states=40000000), J("c07conv")],
    },
    "bounds": {"quick": "pool 1,2: fixpoint; pool 3: fixpoint for plain callbacks (times <= 3), depth 4 with all callback kinds; pool 4: depth 4; pool 16: depth 4",
               "thorough": "pool 1,2: fixpoint; pool 3: fixpoint for plain and self-deleting callbacks, depth 6 with all kinds; pool 4: depth 6; pool 16: depth 7 (or the 900 s deadline, reported)"},
}

COV = ["-O0", "-fsanitize-coverage=trace-pc-guard,trace-loads,trace-stores"]
def C08(cfg, **kw):
    return J("c08", cfg, stack_cflags=COV, allow_dead=True, **kw)
PROPS["C08"] = {
    "level": "model_checking",
    "technique": "preemption-point model checking: BFS over task-level timer histories x placement of the tick interrupt at every shared-memory access outside the lock (compiler-instrumented loads/stores), expiry-accounting oracle + pool conservation",
    "text": "co_tmr.c is compiled with load/store tracing; every access to CO_TMR, the timer memory, the hardware counter or Node.Error made outside COTmrLock/Unlock is a preemption point at which COTmrService may run. BFS over {create, delete, service, process} x injection point, with service and process as independent events (arbitrary processing delay). Closed state space (fixpoint) for pools 1 and 2 with an interrupt allowed in every operation; depth-bounded for pool 3. The exploration of callbacks that delete a sibling which fell due on the same tick (C07, pool 3 closed) is part of this check: no waiting action is lost, the pool is conserved.",
    "note": "one injected interrupt per task-level operation (any number per history in the unbounded configurations); single core, interrupt runs to completion; plain callbacks only",
    "jobs": {
        "quick":    [C08(0, depth=40), C08(1, depth=40), C08(6, depth=40), C08(7, depth=40), C08(2, depth=6, deadline=60), C08(5, depth=5, deadline=60)],
        "thorough": [C08(0, depth=40), C08(1, depth=40), C08(3, depth=40), C08(4, depth=40), C08(6, depth=40), C08(7, depth=40),
                     C08(2, depth=11, deadline=900, max_states=40000000), C08(5, depth=10, deadline=900, max_states=40000000), C08(8, depth=10, deadline=900, max_states=40000000)],
    },
}

# C07 names tick and process as separate operations: histories in which expiries wait for their processing step (several events
# elapsed, deletes in between) are explored with the C08 harness, whose task-level alphabet has service and process as events of their own
SIB = {"kinds": 5, "times": 2}      # callbacks that delete the first / the last other live action: with three or four actions on one tick the victim is any sibling, adjacent or not
PROPS["C07"]["jobs"]["quick"] += [J("c07", 2, depth=40, deadline=100, opts=SIB), J("c07", 3, depth=6, deadline=100, opts=SIB)]
PROPS["C07"]["jobs"]["thorough"] += [J("c07", 2, depth=40, deadline=600, opts=SIB), J("c07", 3, depth=9, deadline=900, max_states=20000000, opts=SIB)]
PROPS["C08"]["jobs"]["quick"] += [J("c07", 2, depth=40, deadline=100, opts=SIB)]
PROPS["C08"]["jobs"]["thorough"] += [J("c07", 2, depth=40, deadline=600, opts=SIB), J("c07", 3, depth=8, deadline=900, max_states=20000000, opts=SIB)]
PROPS["C07"]["jobs"]["quick"] += [C08(0, depth=40), C08(1, depth=40), C08(2, depth=6, deadline=60)] + [J("c07ins", c, deadline=100) for c in range(11)]
PROPS["C07"]["jobs"]["thorough"] += [C08(0, depth=40), C08(1, depth=40), C08(3, depth=40), C08(4, depth=40), C08(2, depth=10, deadline=900, max_states=40000000)] + [J("c07ins", c, deadline=900) for c in range(11)]
PROPS["C07"]["text"] += " Deferred processing - ticks served without a processing step, so that several events wait in the elapsed list while actions are created and deleted - is covered by the C08 exploration (task-level events create / delete / service / process on pools 1..3, lockstep expiry accounting and pool conservation), which is part of this check as well. Insertion orders and magnitudes (c07ins): every operation sequence of length <= 6 (8) over {one-shot with delay 1..6, three cyclic actions, tick, delete of the k-th created action} on a pool of six - a new action is queued before, between any two, equal to any and behind up to five pending events, which three distinct delays cannot produce - and sequences of length <= 5 (6) over delays {1, 3, 4464, 65535, 65536, 65537, 70000, 131075} (16-bit seams of the remaining-delay arithmetic; time advanced by letting the hardware counter run); after every prefix the remaining schedule is run to completion on a copy and each tick's callbacks must be exactly the actions due on it. Callbacks that delete a sibling (c07 with kinds=5, times=2): besides 'delete the first other live action' a callback kind 'delete the last other live action', so that with three or four actions on one tick the victim is any sibling, adjacent to the running one or not, waiting or already run; pool 3 closed (fixpoint), pool 4 to depth 6 (9)."

SC3 = ["CO_VERIF_SDO_BUF_SEG=3"]
REAL1K = ["SDO_DS2=1000"]
TWO3 = ["CO_SSDO_N=2", "CO_VERIF_SDO_BUF_SEG=3"]
CLOSE = {"coarse": 1, "small": 1, "fewinit": 1}
RESIDUE = {"coarse": 2, "small": 1, "fewinit": 1}
def sdo_jobs(h, quick):
    if quick:
        return [J(h, 0, defs=SC3, depth=60, deadline=150, opts=CLOSE),                      # closed state space, scaled buffer
                J(h, 1, defs=SC3, depth=60, deadline=150, opts=CLOSE),                      # ... in OPERATIONAL
                J(h, 0, defs=SC3, depth=2, deadline=100),                                   # fine state identity, full alphabet
                J(h, 0, defs=SC3, depth=3, deadline=100, opts={"small": 1, "fewinit": 1, "csdo": 1}),  # fine state identity, reduced alphabet + writes to the SDO client COB-IDs 1280h
                J(h, 0, defs=REAL1K, depth=3, deadline=100, opts={"small": 1, "fewinit": 1, "coarse": 1}),   # real 127-segment buffer
                J(h, 0, defs=TWO3, depth=4, deadline=100, opts=dict(CLOSE, csdo=1)),         # two servers interleaved (+ 1280h writes)
                J(h, 0, defs=SC3, depth=5, deadline=100, opts=RESIDUE),                     # leftovers of finished transfers kept in the state identity
                J(h, 0, defs=SC3, depth=3, deadline=100, opts={"small": 1, "fewinit": 1, "nopoll": 1})]   # an application that never reads the node error
    return [J(h, 0, defs=SC3, depth=60, deadline=1500, opts={"coarse": 1}, max_states=20000000),
            J(h, 1, defs=SC3, depth=60, deadline=1500, opts=CLOSE),
            J(h, 0, defs=SC3, depth=3, deadline=1200, max_states=20000000),
            J(h, 0, defs=SC3, depth=5, deadline=1200, opts={"small": 1, "fewinit": 1, "csdo": 1}, max_states=20000000),
            J(h, 0, defs=REAL1K, depth=5, deadline=1200, opts={"small": 1, "fewinit": 1, "coarse": 1}, max_states=20000000),
            J(h, 0, defs=REAL1K, depth=3, deadline=1200, opts={"small": 1}, max_states=20000000),
            J(h, 0, defs=TWO3, depth=6, deadline=1200, opts=dict(CLOSE, csdo=1), max_states=20000000),
            J(h, 0, defs=SC3, depth=8, deadline=900, opts=RESIDUE, max_states=20000000),
            J(h, 0, defs=SC3, depth=4, deadline=900, opts={"small": 1, "fewinit": 1, "nopoll": 1}, max_states=20000000)]

PROPS["C04"] = {
    "level": "model_checking",
    "technique": "explicit-state BFS over the full SDO command alphabet against the real server with an allowed-set reference server",
    "text": 'BFS over the real SDO server(s) with an alphabet of ~630 request frames (all 256 command bytes; initiate requests of every kind to every object class incl. missing index/sub-index, RO/WO, node-id relative, domains smaller/larger than the buffer, strings, a string entry flagged writable although its type has no write function, range- and user-abort types, with size fields =,<,>,0; acknowledges for all ackseq x blksize classes), in lockstep with a reference server that yields the set of admissible responses per protocol state. Per step: number of response frames, multiplexer, abort code, toggle/size/last flags, data, and the complete dictionary image are compared. The scaled-buffer build (3 segments) is explored to a fixpoint under a coarse state identity; fine state identity to depth 2-3; a "residue" state identity that keeps the cursors, counters and flags finished transfers leave behind (only buffer bytes and multiplexer dropped) to depth 5 (quick) / 8 or the deadline (thorough); the real 127-segment buffer and a two-server build to a depth bound. The dictionary holds 1010h with two parameter groups (reset types communication and node) whose NVM images differ from RAM: no SDO access may load them. Refusals that come from the type of the object written - 0604 0043h of the heartbeat consumer 1016h, 0604 0041h/0042h of the PDO mapping records - are decided by the C11 and C14 explorations (two consumer tables, PDO pair #0 and the mapping-procedure enumeration c14map), which are part of this check. In the two-server build the COB-IDs of the second server (1201h) are writable and stored in a third parameter group. The dictionary also holds the COB-IDs of SDO client 0 (1280h:1/:2, same type function as 1200h); the fine-identity and the two-server explorations write them through the server (off, on, read).',
    "note": 'coarse state identity zeroes fields the next initiate re-initialises (assumed dead; cross-checked by the fine explorations to their depth); application data is rewritten to its initial value whenever all servers are idle; requests in block-download phases are judged as segments (CiA 301 cannot tell them apart); out-of-protocol non-initiate requests only need exactly one answer',
    "jobs": {"quick": sdo_jobs("c04", True), "thorough": sdo_jobs("c04", False)},
}

# values rejected by the type of the object written (incompatibility 0604 0043h of the heartbeat consumer, mapping 0604 0041h/0042h of the PDO mapping
# records): the verdicts, codes and 'changes nothing' of those writes are judged by the C11 and C14 models, whose explorations are part of this check
PROPS["C04"]["jobs"]["quick"] += [J("c11", 1, depth=6, deadline=100), J("c11", 3, depth=5, deadline=100), J("c14", 0, depth=6, deadline=100), J("c14map", 0), J("c14map", 1)]
PROPS["C04"]["jobs"]["thorough"] += [J("c11", 1, depth=8, deadline=600, max_states=30000000), J("c11", 3, depth=7, deadline=600, max_states=30000000), J("c14", 0, depth=7, deadline=600, max_states=20000000), J("c14map", 0), J("c14map", 1)]

PROPS["C05"] = {
    "level": "model_checking",
    "technique": "reachability closure of the real SDO server under the full command alphabet + recovery probes (abort / reset communication, then clean transfers) in every reachable state, differential against a fresh node",
    "text": 'The C04 exploration (closed state space of the scaled-buffer server) with a recovery probe in every discovered state: on a copy of the state, [client abort] resp. [NMT reset communication] followed by each of 7 clean transfers (expedited/segmented/block up- and downloads of integers, domains below and above the buffer size, strings; with a lost block segment and a partial block acknowledge). Each must succeed with correct data and its complete frame trace must equal the trace of the same transfer on a freshly initialised node; the reference server runs in lockstep. The dictionary holds 1010h with two parameter groups (reset types communication and node) whose NVM images differ from RAM, so that a transfer which reloads a group - a download that was confirmed and is silently undone - shows as a changed dictionary. In the two-server build the COB-IDs of the second server are writable and stored (third parameter group): a third probe prefix switches that server off in RAM, then NMT reset communication - which reloads the stored identifiers - and every clean transfer must again work on it as on a fresh node. The fine-identity and the two-server explorations also switch the COB-IDs of SDO client 0 (1280h:1/:2) off and on through the server before the probes.',
    "note": 'same reductions as C04; probes run after application data has been rewritten to its initial values (the comparison is about protocol behaviour)',
    "jobs": {"quick": sdo_jobs("c05", True), "thorough": sdo_jobs("c05", False)},
}

REAL4K = ["SDO_DS2=4000"]
BIG = ["SDO_DS2=131200"]      # objects whose length needs more than 16 bits
TWO = ["CO_SSDO_N=2", "SDO_DS2=1000"]
PROPS["C02"] = {
    "level": "model_checking",
    "technique": "deviation-bounded exhaustive enumeration of conforming download clients (all modes, size indications, last-segment fills, lost-segment placements, two-server interleavings) against the real server with the reference server in lockstep",
    "text": 'Every conforming download dialogue of the enumerated space is executed against the real server (real 889-byte buffer): domain sizes 1..30, 7k+-1 up to 71, 885..900, 1777..1780, 2000, 3999, 4000 (quick: 28 of them) x payload length {S, S-1, 1, S+1} x {expedited s=1/s=0, segmented, block} x size announced or not, position-dependent payload; block mode additionally with every placement of <=1 (quick) / <=2 (thorough) lost segment transmissions followed by the prescribed retransmission; integers direct/referenced/node-id-relative (incl. direct 8/16/32-bit objects whose content is 0) with lengths size-1..size+1; two servers: every interleaving of a scripted transfer on the second server with a segmented or block transfer on the first, and with the roles swapped (the long transfer on server 1 while server 0 is idle or busy); non-initial states: the dialogues (11 sizes quick / the size list up to 900 thorough, lengths S and S-1, all modes, block mode with every single lost transmission for S <= 100) are repeated after an earlier transfer to the same object - segmented or block download, segmented or block upload - that the client completed or abandoned with a client abort after k = 1..4 (quick) / 1..7 (thorough) requests; domains whose length does not fit 16 bits: {65535, 65536, 65543, 70000} (thorough: and 131072, 131079) bytes x payload {S-1, S, S+1} x segmented / block x announced or not, block mode with one lost transmission at 12 places (first blocks, around the segment that carries byte 65536, end of the transfer) and a second loss in the following block. Oracle: reference server in lockstep (every response field CiA 301 fixes) plus end-to-end comparison of the object bytes, untouched tail and refusal of over-long payloads. A download the server refuses is followed by the client`s next ordinary requests (an expedited download to another object and the fitting payload to the same domain in the same mode): both have to be confirmed and stored.',
    "note": 'losing the final segment of a block is not recoverable by a conforming client and is excluded; for 4000-byte transfers the second loss is placed in the neighbourhood of the first and at block boundaries',
    "jobs": {
        "quick": [J("c02", 0, defs=REAL4K, deadline=120), J("c02", 1, defs=REAL4K), J("c02", 2, defs=TWO, deadline=120), J("c02", 3, defs=REAL4K, deadline=120), J("c02", 4, defs=BIG, deadline=120)],
        "thorough": [J("c02", 0, defs=REAL4K, deadline=1500), J("c02", 1, defs=REAL4K), J("c02", 2, defs=TWO, deadline=900), J("c02", 3, defs=REAL4K, deadline=900), J("c02", 4, defs=BIG, deadline=900)],
    },
}

PROPS["C03"] = {
    "level": "model_checking",
    "technique": "deviation-bounded exhaustive enumeration of conforming upload clients (segmented; block with every block size, every acknowledge position per block, block size changes) against the real server with the reference server in lockstep",
    "text": 'Every conforming upload dialogue of the enumerated space runs against the real server: domains and strings of the C02 size list with two contents each, integers (referenced, direct, node-id relative, direct with content 0 in all three widths) and fixed strings; segmented/expedited as the server chooses; block mode with every block size 1..127 (sizes <= 200; {1,2,3,7,63,64,126,127} above) and, per block, every acknowledge position k in 0..sent combined with a block size change in {1,2,b-1,b+1,127} - one deviation per transfer (quick) or two (thorough, sizes <= 200); each transfer is run twice back-to-back; non-initial states: uploads (segmented, block sizes {1,2,3,7,127}, first block acknowledged fully / not at all / partly) repeated after an earlier transfer - segmented or block download to another object, segmented or block upload of the same object - that the client completed or abandoned with a client abort after k = 1..4 (quick) / 1..7 (thorough) requests; objects whose length does not fit 16 bits: domains and strings of {65534, 65535, 65536, 65537, 65543, 70000} (thorough: and 131071, 131072, 131079) bytes, segmented and block sizes {127, 64, 1} (thorough: and 2), one deviation (acknowledge position x next block size) in the first block, around the block that carries byte 65536 and in the last two blocks. Oracle: reference server in lockstep (sequence numbers, last flag, n, announced size, data per segment) plus end-to-end comparison of the assembled bytes and length. Block uploads are repeated with the server`s own CAN driver refusing (busy) one transmission - every (block, segment) placement for objects <= 200 bytes, boundary placements above, alone and together with a block size change: the frame never reaches the client, which acknowledges the in-order prefix; the reference server judges the stream the server handed to the driver.',
    "note": 'deviations are placed in the first 64 blocks of a transfer; quick tier uses boundary acknowledge positions for objects > 200 bytes',
    "jobs": {
        "quick": [J("c03", c, defs=REAL4K, deadline=150) for c in range(3, 17)] + [J("c03", 2, defs=REAL4K), J("c03", 17, defs=REAL4K, deadline=150), J("c03", 18, defs=BIG, deadline=150), J("c03", 19, defs=BIG, deadline=150)],
        "thorough": [J("c03", c, defs=REAL4K, deadline=1500) for c in range(3, 17)] + [J("c03", 2, defs=REAL4K), J("c03", 17, defs=REAL4K, deadline=900), J("c03", 18, defs=BIG, deadline=1500), J("c03", 19, defs=BIG, deadline=1500)],
    },
}

PROPS["C09"] = {
    "level": "model_checking",
    "technique": "explicit-state BFS to a fixpoint over NMT commands, API mode changes and one probe frame per service, against a reference CiA 301 slave state machine with a per-state gating table",
    "text": "Node with one of every service (SDO server, asynchronous RPDO, event and synchronous TPDO, SYNC consumer, heartbeat producer and consumer, EMCY, LSS). Alphabet: NMT command specifiers {1,2,128,129,130,0,3,127,255} x target {own id, 0, other, 80h | own id, 80h}; LSS switch + configure node-id 7 + store (the node id changes at the next reset: NMT addressing, SDO identifiers, boot-up and heartbeat must follow, the old SDO identifier becomes foreign); CONmtSetMode, CONodeStart, CONmtReset(node/com), CONodeStop; probe frames for SDO, RPDO, SYNC, heartbeat of a monitored and an unmonitored node, LSS switch/inquire, a foreign identifier, the node's own transmit identifiers and three identifiers that equal a served one (NMT, SDO, RPDO) in their low 11 bits only; COEmcySet/Clr, COTPdoTrigPdo, tick. After every step: node mode, the sequence of mode-change callbacks, the reset-request callback, the number and content of boot-up frames, which service reacted (frames per identifier, mapped object, PDO callback), and how often the frame was handed to the application callback are compared with the reference. The reachable state set is closed (fixpoint) for node ids 1, 5 and 127, started and unstarted. A fifth configuration replaces the heartbeat services by a TPDO that lives on timers (event time 3 ticks, inhibit time 2 ticks, application trigger): its frames may appear only while the reference FSM is OPERATIONAL, whichever timer or trigger path produces them. Identifier sweep: in every reachable state of all five configurations a frame on each of the 2047 base-format identifiers the node has no service for (all but NMT, SYNC, the RPDO, the SDO request, the monitored node's heartbeat and LSS; payload reading as a heartbeat / NMT command for this node, thorough: also eight FFh bytes) must reach the application callback exactly once (at most once in STOPPED), send nothing, cause no other callback and leave the node's memory byte for byte as it was. In the same states a block download dialogue on the SDO request identifier - initiate (answered), a segment inside the block (consumed silently), client abort - must in PRE-OPERATIONAL and OPERATIONAL belong to the SDO server alone (no application callback, no other service), otherwise each frame is one nobody claims. The LSS exploration in which a repeated activate-bit-timing request reaches the node although it closed its CAN controller (c18 reactivate=1: delay 2 then delay 0, NMT start, ticks) is part of the check: a tick outside an activation may not change the NMT state.",
    "note": "heartbeat timing is not compared here (C10), only content and at most one per tick; in STOPPED the delivery of unclaimed frames to the application is unconstrained as the statement says; after CONodeStop only safety is judged; NMT frames carry DLC 2",
    "jobs": {
        "quick": [J("c09", c, depth=80, deadline=120) for c in range(5)] + [J("c18", 0, depth=7, deadline=60, opts={"reactivate": 1}), J("c12", 22, depth=6, deadline=100, allow_dead=True)],
        "thorough": [J("c09", c, depth=80, deadline=600) for c in range(5)] + [J("c18", 0, depth=10, deadline=600, max_states=20000000, opts={"reactivate": 1}), J("c12", 22, depth=8, deadline=600, allow_dead=True)],
    },
}

PROPS["C10"] = {
    "level": "model_checking",
    "technique": "explicit-state BFS over ticks, 1017h writes (SDO and API), NMT commands and every other timer user as interference, against a reference heartbeat schedule",
    "text": "Node with heartbeat producer, one heartbeat consumer, SYNC (producer switchable), an event-driven TPDO with inhibit and event time, and an application timer. 30 events: tick; 1017h := {0,1,2,3} periods by SDO and by CODictWrWord; NMT start/stop/pre-op/reset communication/reset node; SDO writes to 1800h:1/:2/:3/:5, 1005h, 1006h, 1016h:1; COTPdoTrigPdo; a changed asynchronous mapped object; application COTmrCreate/COTmrDelete; heartbeat of the monitored node (its timeouts interleave). After every step the heartbeat frames (count, DLC, state byte) must equal the reference schedule: exactly one frame every period counted from the last accepted write or reset, none otherwise. 1 kHz and 100 Hz timers, node ids 1 and 10; a fifth configuration starts OPERATIONAL with the producer off and a TPDO event time of one tick, so that histories of six events reach a timer id wandering from the TPDO to the producer (event expiry outside OPERATIONAL, producer started, TPDO re-initialised). Long periods on fast timers (c10long): heartbeat times {3000, 6554, 10000, 32768, 65535} ms at {1, 2, 10, 20} kHz - up to 1.3 million ticks per period - alone and with another timer user armed, elapsing or deleted while the producer has more than 65535 ticks to go (TPDO event timer, short application timer, longer application timer deleted, SYNC producer); the first two heartbeats must come exactly one and two periods after the write. Crowded timer list (c10long cfg 1): every sequence of up to 6 (7) operations over {application one-shot of 2, 4, 9, 13, 30 ticks, cyclic application timer of 3 and of 10 ticks, tick, 1017h := 7 ms} with exactly one write - the producer's event is queued before, between and behind up to five pending events of other users - after which the heartbeats must come exactly 7, 14, 21 and 28 ticks after the write. Two configurations (1017h initially 0 and 2 ms) leave the node initialised but not started: the application writes 1017h through the dictionary API and creates timers before CONodeStart; frames before boot-up are not judged, from boot-up on the schedule is last write + k x period. Two further events: a segmented download without size indication that carries one byte for 1017h, and CODictWrBuffer of one byte - both must be refused and leave the schedule alone.",
    "note": "depth-bounded (no fixpoint: the product with the other timer users is large); other frames of a step are ignored here",
    "jobs": {
        "quick": [J("c10", 0, depth=7, deadline=100), J("c10", 1, depth=6, deadline=100), J("c10", 2, depth=6, deadline=100), J("c10", 3, depth=6, deadline=100), J("c10", 4, depth=6, deadline=100), J("c10", 5, depth=6, deadline=100), J("c10", 6, depth=7, deadline=100), J("c10", 7, depth=7, deadline=100), J("c10long"), J("c10long", 1)],
        "thorough": [J("c10", c, depth=10, deadline=1200, max_states=30000000) for c in range(8)] + [J("c10long"), J("c10long", 1, deadline=600)],
    },
}

SLOW = {"slow": 1}      # 100 Hz timer, all times of the alphabet in units of 10 ms (another branch of the time-to-tick conversion)
PROPS["C11"] = {
    "level": "model_checking",
    "technique": "explicit-state BFS over heartbeat frames, 1016h writes, counter/state queries and ticks against a reference monitor per consumer entry",
    "text": "Consumer tables of 1..4 entries (6 initial configurations). Events: heartbeat frames of two monitored nodes and one unmonitored node with states {0,4,5,127}; SDO write of {node X|Y, time 0|2|3} and {0,0} to every entry followed by a read-back; CONmtGetHbEvents and CONmtLastHbState for the three nodes; tick; 765 ticks of silence (counter saturation); NMT stop/start/reset communication. After every step the CONmtHbConsEvent / CONmtHbConsChange callbacks (multiset per node), the return values of the queries, the SDO verdict (0604 0043h and no change for a node that is already monitored, acceptance otherwise) and the read-back value are compared with the reference; entries not addressed by a write must keep their monitoring. Two of the tables run once more on a 100 Hz timer with every time given in units of 10 ms. A seventh table has four entries with four distinct times (2, 3, 4, 6 ticks) and an alphabet reduced to the four heartbeats and the tick, explored to depth 9 (13): four consumer timers pending at once, a re-armed one queued before, between and behind the others. Two tables are explored once more with the monitored node ids at the ends of the range (127, 126, 2, 3). One table is explored once more with the heartbeat state bytes {85h, FFh, 5, 127}: bytes CiA 301 does not define are one 'unknown' state that differs from every defined one. Two tables (two and four entries) are explored once more with a timer pool that holds exactly one timer per entry: a consumer that needs a spare timer while it re-arms in its own timeout callback stops monitoring there.",
    "note": "'already monitored' is read literally (any entry, including the written one, configured with that node and a non-zero time); depth-bounded",
    "jobs": {
        "quick": [J("c11", 0, depth=8, deadline=100), J("c11", 1, depth=6, deadline=100), J("c11", 2, depth=6, deadline=100), J("c11", 3, depth=5, deadline=100), J("c11", 4, depth=5, deadline=100), J("c11", 5, depth=5, deadline=100)] +
                 [J("c11", 1, depth=6, deadline=100, opts=SLOW), J("c11", 5, depth=5, deadline=100, opts=SLOW), J("c11", 6, depth=9, deadline=100, allow_dead=True),
                  J("c11", 1, depth=6, deadline=100, opts={"edge": 1}), J("c11", 5, depth=5, deadline=100, opts={"edge": 1}), J("c11", 1, depth=6, deadline=100, opts={"odd": 1}),
                  J("c11", 1, depth=6, deadline=100, opts={"pool": 1}), J("c11", 6, depth=9, deadline=100, allow_dead=True, opts={"pool": 1})],
        "thorough": [J("c11", 0, depth=14, deadline=1200), J("c11", 1, depth=9, deadline=1200, max_states=30000000), J("c11", 2, depth=9, deadline=1200, max_states=30000000),
                     J("c11", 3, depth=8, deadline=1200, max_states=30000000), J("c11", 4, depth=8, deadline=1200, max_states=30000000), J("c11", 5, depth=7, deadline=1200, max_states=30000000)] +
                    [J("c11", 1, depth=9, deadline=1200, max_states=30000000, opts=SLOW), J("c11", 5, depth=7, deadline=1200, max_states=30000000, opts=SLOW), J("c11", 6, depth=13, deadline=1200, max_states=30000000, allow_dead=True),
                     J("c11", 1, depth=8, deadline=900, max_states=30000000, opts={"edge": 1}), J("c11", 5, depth=6, deadline=900, max_states=30000000, opts={"edge": 1}), J("c11", 1, depth=8, deadline=900, max_states=30000000, opts={"odd": 1}),
                     J("c11", 1, depth=8, deadline=900, max_states=30000000, opts={"pool": 1}), J("c11", 6, depth=12, deadline=900, max_states=30000000, allow_dead=True, opts={"pool": 1})],
    },
}

PROPS["C06"] = {
    "level": "exploration",
    "technique": "small-scope exhaustive enumeration (every sorted dictionary over a key universe, every 8/16-bit value, every buffer length) against a linear-scan reference, with exact-size heap arrays under AddressSanitizer",
    "text": "Four exhaustive sweeps on the real CODict*/COObj* code: (0) lookup - every subset of a sorted universe of 10 keys (14 thorough) x entry flag patterns x max in {Num+1, Num+5}, probed with every universe key and its sub+-1/index+-1 neighbours under key flags {00,01,FF}, plus strided dictionaries of 11..300 entries; result compared by pointer identity with a linear scan; the CO_OBJ array is a heap block of exactly Num+1 elements so that any access past the end marker is an ASan report; (1) type init - dictionaries of 1..6 (12) entries where every entry counts its init calls, CONodeInit must call each exactly once; (2) typed access - 12 entries (width 1/2/4 x direct/referenced x plain/node-id), all 256/65536 values, listed 32-bit patterns, node ids {1,2,63,127} (1..127), every access width against every entry width, stored raw value and untouched neighbours; (3) buffers - domains and strings of 13 (308) sizes x every length 0..4100: bytes moved == min(len,size), guards intact, second call restarts at offset 0. Type initialisation at the keys the services look up themselves: one or two counting entries at any of 35 service keys (1003h, 1005h..1007h, 1010h..1012h, 1014h..1017h, 1019h, 1200h/1201h, 1280h, 1400h, 1600h, 1800h, 1A00h, 1F80h with their sub-indices), all 35 at once, with and without an emergency table - each initialised exactly once. Every buffer case with a boundary length runs again after an earlier streaming access of the same object (start + continued chunk of one byte, half or all of the object, the way the SDO server reads) that left its cursor behind.",
    "note": "finite listed spaces enumerated completely; 32-bit values are a listed boundary set; a refused access only has to return an error (the code is not fixed by the statement)",
    "rule": "cases are the elements of the four finite spaces described in the level text; non-trivial = the call under test moved data or found an entry; distinct = distinct outcome hashes",
    "jobs": {
        "quick":    [J("c06", 0), J("c06", 1), J("c06", 2), J("c06", 3)],
        "thorough": [J("c06", 0), J("c06", 1), J("c06", 2, deadline=900), J("c06", 3)],
    },
    "bounds": {"quick": "universe 10 keys (1024 dictionaries x 6 variants) + 20 strided lengths; node ids 1,2,63,127; 13 buffer sizes x lengths 0..4100",
               "thorough": "universe 14 keys (16384 x 6) + strided lengths 11..300; node ids 1..127; 308 buffer sizes x lengths 0..4100"},
}

# builds in which the RPDO and TPDO counts differ: the synchronous RPDO has a number above the TPDO count, resp. the second synchronous TPDO one above the RPDO count
def ASYM16(dl):
    return [J("c16", c, defs=["CO_TPDO_N=2"], depth=60, deadline=dl, opts={"rnum": 3, "tlast": 1}) for c in (1, 2)] + [J("c16", c, defs=["CO_RPDO_N=2"], depth=60, deadline=dl, opts={"rnum": 1, "tlast": 3}) for c in (1, 2)]
PROPS["C16"] = {
    "level": "model_checking",
    "technique": "explicit-state BFS to a fixpoint over 1005h/1006h writes, SYNC and near-miss frames, NMT commands, ticks and error reads, against a reference model {identifier, producing, period, phase}",
    "text": "Six initial configurations of (1005h, 1006h, timer frequency), one of them the usual EDS default 'producer bit set, period 0'. 21 events: SDO write 1005h in {80h, 81h, 40000080h, 40000081h}; SDO write 1006h in {0, 1, 2, 3 ticks, half a tick}; frames on 80h, 81h, 7Fh; NMT start/stop/pre-op/reset communication; tick; CONodeGetErr (the application reading - or not reading - the sticky node error); RPDO frames for a synchronous RPDO and a local write of its object; reaction probes are a type-1 TPDO (#0), a type-2 TPDO (#3) and the synchronous RPDO - each recognised SYNC must advance each of them exactly once. After every step: the produced SYNC frames (identifier, DLC 0, exactly every period counted from the start/re-timing write or reset, only in PRE-OP/OP), the SDO verdicts (0609 0030h with the old value kept for a CAN-ID change while producing and for a period below the timer resolution; read-back otherwise), recognition of received SYNC (type-1 TPDO sent exactly once in OPERATIONAL, buffered synchronous RPDO applied exactly once, near-miss identifiers handed to the application). The reachable state set is closed (fixpoint) for all five configurations. Two configurations are explored again in builds whose RPDO and TPDO counts differ (CO_TPDO_N=2 with the synchronous RPDO as number 3, CO_RPDO_N=2 with the second synchronous TPDO as number 3). A seventh configuration gives the synchronous TPDOs an inhibit time (one-shot timers that come and go next to the producer's cyclic timer, timer ids re-used), explored to depth 9 (12); there only the SYNC production and at most one frame per TPDO and step are judged.",
    "note": "periods are whole ticks up to 3 ticks; enabling the producer while 1006h holds no usable period and writing 0 to 1006h while producing may be refused or accepted (the statement leaves it open); a frame buffered before an NMT change may be applied at the next SYNC in OPERATIONAL or dropped; periods above 6.5 s are covered by a dedicated sweep (9 periods from 6 s to 100 s at 100 Hz and 1 kHz: emissions exactly at period and 2 x period), not by the BFS",
    "jobs": {
        "quick": [J("c16", c, depth=60, deadline=120) for c in range(6)] + [J("c16", 6, depth=9, deadline=120)] + [J("c16long")] + ASYM16(120),
        "thorough": [J("c16", c, depth=60, deadline=600) for c in range(6)] + [J("c16", 6, depth=12, deadline=900, max_states=12000000)] + [J("c16long")] + ASYM16(600),
    },
}

PROPS["C12"] = {
    "level": "model_checking",
    "technique": "explicit-state BFS over triggers, value changes, SYNCs, ticks, NMT changes and parameter writes against a reference TPDO model (71 parameter configurations) + exhaustive sweep over all mapping compositions",
    "text": "(a) 71 configurations (69, 70: TPDO0 starts as a synchronous TPDO of type 1 / 2 and is re-typed to 254/255 and back by the legal procedure in any NMT state - event SDO 1800h:2=1; 60..68 repeat nine of the others with the two TPDOs being numbers 2 and 3 instead of 0 and 1 - 1802h/1A02h, 1803h/1A03h, lower numbers absent; 36..53 with two event-driven TPDOs, the CiA 301 re-mapping procedure of TPDO0 to 1 or 3 objects while OPERATIONAL and a changed asynchronous object of TPDO1 as additional events; 54..59 with both TPDOs living on inhibit/event timers of their own - (inhibit,event) pairs (3,2|2,0) (3,2|0,3) (0,3|0,4) (2,4|3,3) (0,3|2,0) (3,0|2,2) ticks, i.e. event time shorter than inhibit time, expiries that do not transmit, timer ids handed from one TPDO to the other; TPDO1 maps the 32-bit asynchronous object there and its value changes in the upper byte only): TPDO0 event-driven (type 254/255) x inhibit {0,2,3 ticks} x event time {0,3,4 ticks}, mapped to an asynchronous 8-bit and a 16-bit object; TPDO1 synchronous of type {1,2,3,240}; started in PRE-OP or OPERATIONAL. 21 events: COTPdoTrigPdo, COTPdoTrigObj, dictionary write of the asynchronous object with a changed / an unchanged value, write of the other mapped object, SYNC, tick, NMT start/pre-op/stop/reset communication, SDO writes to 1800h:1 (invalidate/re-validate), :2, :3, :5. Per step the TPDO frames (identifier, DLC, data; in order per identifier, the order among different TPDOs within one step being unspecified) and the COPdoTransmit calls must equal the reference model: only in OPERATIONAL with a valid COB-ID, immediate transmission on a trigger unless the inhibit time runs, exactly one transmission at the end of the inhibit time for any number of triggers, event-timer transmissions exactly one event time after the last transmission, ties inhibit-first, type n on every n-th SYNC. (b) all 223 ordered compositions of 1..8 mapped objects of 1/2/3/4 bytes (<= 8 bytes) x two value patterns: frame == little-endian concatenation, DLC == mapped bytes. Six of the configurations run once more on a 100 Hz timer with inhibit and event times in units of 10 ms. Changed asynchronous objects (c12map cfg 1): the mapped object is an asynchronous 8-, 16- or 32-bit entry with referenced or direct storage; for all 289 ordered pairs (old, new) of a 17-value list that varies each byte separately, written through the dictionary API and by SDO, the event-driven TPDO must be sent exactly when new differs from old and carry new. The first 8-bit object of the mapping sweep lives at F100h (more than 8000h indices above the communication objects).",
    "note": "a write to 18xxh:5 while the inhibit time runs ends the inhibit time and sends a waiting transmission (the behaviour the repository's unit test pins down); explicit triggers of the synchronous TPDO and inhibit on synchronous TPDOs are outside the statement and not in the alphabet; depth-bounded",
    "jobs": {
        "quick": [J("c12", c, depth=7, deadline=100, allow_dead=True) for c in range(71)] + [J("c12map"), J("c12map", 1)] +
                 [J("c12", c, depth=6, deadline=100, allow_dead=True, opts=SLOW) for c in (4, 22, 40, 55, 62, 69)],
        "thorough": [J("c12", c, depth=10, deadline=1200, max_states=20000000, allow_dead=True) for c in range(71)] + [J("c12map"), J("c12map", 1)] +
                    [J("c12", c, depth=9, deadline=1200, max_states=20000000, allow_dead=True, opts=SLOW) for c in (4, 22, 40, 55, 62, 69)],
    },
}

PROPS["C13"] = {
    "level": "model_checking",
    "technique": "explicit-state BFS over RPDO frames, SYNC, local writes and NMT changes for every RPDO table (3 channels x {absent, asynchronous, synchronous, invalid}) with the complete object image compared after every step + exhaustive sweep over all mappings incl. dummies",
    "text": "(a) all 4^3 RPDO tables, started in PRE-OP and in OPERATIONAL (128 configurations; ten of the OPERATIONAL tables (thorough: all 64) once more with the three channels being RPDO numbers 1..3 instead of 0..2); mappings with a dummy entry, two 8-bit objects, a 32-bit object. 21 events: a frame on each configured identifier with payload pattern A/B and DLC 8 / mapped length; a frame on each neighbouring identifier; SYNC; a local write to the mapped objects; NMT start/pre-op/stop; tick. After every step all application objects must equal the reference image: asynchronous RPDOs take effect immediately and only in OPERATIONAL, synchronous ones exactly once at the next SYNC after a reception, a SYNC without reception changes nothing, other identifiers and states change nothing, nothing is transmitted. Most tables close (fixpoint). (b) all 5332 ordered mappings of objects of width 1/2/3/4 and dummy entries 0002h..0007h (width 1/2/4) totalling <= 8 bytes x two payloads: every object holds exactly its little-endian field, dummies consume their width, no other object changes. The first 8-bit object of the sweep lives at F100h, more than 8000h indices above the communication objects the lookup passes on its way. One further history event in every table: a refused write 1005h = 40000081h (production on another identifier while 1006h is 0) - the SYNC the synchronous RPDOs wait for stays 80h.",
    "note": "a frame buffered by a synchronous RPDO before an NMT change may be applied at the next SYNC in OPERATIONAL or dropped; DLC shorter than the mapped length is not in the alphabet (C01 covers it for safety)",
    "jobs": {
        "quick": [J("c13", c, depth=30, deadline=100, allow_dead=True) for c in range(128)] + [J("c13map")] +
                 [J("c13", c, depth=30, deadline=100, allow_dead=True, opts={"base": 1}) for c in (70, 73, 74, 86, 89, 90, 101, 102, 105, 106)],
        "thorough": [J("c13", c, depth=60, deadline=600, allow_dead=True) for c in range(128)] + [J("c13map")] +
                    [J("c13", c, depth=60, deadline=600, allow_dead=True, opts={"base": 1}) for c in range(64, 128)],
    },
}

PROPS["C14"] = {
    "level": "model_checking",
    "technique": "explicit-state BFS over expedited SDO write histories to the PDO communication and mapping parameters against a reference model of the CiA 301 preconditions, with an activation probe at every activation",
    "text": "Four RPDOs and four TPDOs; the pair number n under reconfiguration is 0, 1 or 3 (configurations: n x {PRE-OPERATIONAL, started OPERATIONAL}, plus pair 1 with both PDOs synchronous from the start), the three other pairs are valid bystanders on their own identifiers and objects. 94 events: per PDO the COB-ID written with {valid, invalid, other id valid, other id invalid, extended, RTR-allowed/extended}; transmission type {1,254,255}; mapping count {0,1,2,8,9}; mapping entries 1, 2 and 8 written with {mappable 8/16/32-bit object, non-mappable, read-only, write-only, non-existing object, 64-bit length, length != object width}; NMT start / pre-op. Per step: accept/refuse verdict, the abort codes the property set fixes (0609 0030h, 0604 0041h, 0604 0042h), and the complete stored configuration (a refused write changes nothing). At every activation (entering OPERATIONAL, re-validation while OPERATIONAL) the PDO is probed: the TPDO frame has DLC = sum of the mapped bytes <= 8 and carries the mapped values, an RPDO frame writes exactly the mapped objects; public ObjNum/Size[] stay within 8; then, on a copy of the state, 8 ticks pass - a TPDO activated with a synchronous type must stay silent without SYNC, one activated as event-driven (its event time is 2 ms) must send, and a SYNC must produce exactly one frame of a type-1 TPDO (also after every COB-ID write of the RPDO with the same number: they share the SYNC table). After an invalidation while OPERATIONAL the PDO must neither transmit on a trigger nor take a frame on its old identifier, and after every COB-ID write and every entry into OPERATIONAL each bystander TPDO must still send exactly its configured frame and each bystander RPDO write exactly its object (index arithmetic 14xxh/16xxh/18xxh/1Axxh + n versus the runtime slot n). Mapping procedure (c14map): for every ordered composition of 8-, 16-, 24- and 32-bit entries totalling <= 8 bytes (892 per direction) the client runs the CiA 301 procedure with expedited writes - invalidate, count 0, entries, count n, validate - in PRE-OPERATIONAL followed by NMT start and while OPERATIONAL; every write must be accepted and read back as written, then the TPDO frame must be the little-endian concatenation of the mapped values resp. an RPDO frame must put exactly its fields into the mapped objects (two value patterns with non-zero top bytes); every composition is also extended by one entry beyond 8 bytes: the count write must be refused with 0604 0042h, the count stays 0. Configurations 8/9: pair #1 synchronous with an inhibit time of 2 ms on the TPDO, histories additionally contain SYNC frames and accepted writes of 18xxh:5; at every activation an event-driven TPDO must stay silent on SYNC.",
    "note": "verdicts the statement leaves open are accepted either way: invalidating and changing the id in one write, rewriting the identical valid COB-ID, a count that covers an unset (zero) entry, mapping lengths that differ from the object width; the abort code is free for 'PDO is valid' / 'count is not zero' refusals; depth-bounded",
    "jobs": {
        "quick": [J("c14", c, depth=6, deadline=100) for c in range(12)] + [J("c14map", 0), J("c14map", 1)],
        "thorough": [J("c14", c, depth=8, deadline=1200, max_states=20000000) for c in range(12)] + [J("c14map", 0), J("c14map", 1)],
    },
}

E8 = ["CO_EMCY_N=8"]; S15 = {"nerr": 3, "big": 0}
PROPS["C15"] = {
    "level": "model_checking",
    "technique": "explicit-state BFS over error set/clear/reset calls, 1003h/1014h writes, read-outs and NMT changes against a reference EMCY model (fixpoint for history depths 0..3)",
    "text": "12 configurations: emergency tables with register classes {0,1,1,2,7} and {1,1,1,1,1} x history depth {0 (absent),1,2,3,8}, one with 1014h initially disabled, one left in INIT; CO_EMCY_N 8 and 32. Events: COEmcySet(e, with/without manufacturer field) and COEmcyClr(e) for 5 errors and one index >= CO_EMCY_N (the five errors sit in table rows 0..4 and, in three further layouts of the 32-row build, in rows {5,10,18,9,3}, {7,8,15,16,24}, {6,13,14,22,29} - neighbours across the borders of the status bytes, particular bit positions); COEmcyReset(silent 0/1); SDO write 1003h:0 with 0 and 1; SDO reads of 1003h:0..depth+1 and 1001h; COEmcyGet/COEmcyCnt; NMT stop/start/pre-op; SDO write 1014h disable/enable; a burst macro-step (three activations) for the depth-8 ring. After every step: EMCY frames (identifier from 1014h, code, register, manufacturer bytes; one per real transition, none while 1014h is invalid or the NMT state forbids), 1001h, COEmcyCnt, COEmcyGet of all slots, 1003h count and entries newest-first, SDO verdicts. Closed state space (fixpoint) for history depths 0..3, depth-bounded for depth 8. Long histories: with the additional event '255 activations' (85 bursts, every sub-step judged) the closed state spaces of depths 1 and 2 (thorough) and bounded explorations of depths 3 and 8 contain histories of more than 256 and 512 activations without a clear of 1003h. The bytes of expedited downloads that carry no data (all three for the one-byte write to 1003h:0) are non-zero in every SDO write of the harness. NMT reset communication and reset node are events as well: every error is cleared without a frame, the history still lists the most recent activations.",
    "note": "an index >= CO_EMCY_N is ignored or treated as the last row (both accepted, then full consistency required); the register byte of non-silent-reset frames may be any value reachable while clearing; reads above the current count and the abort code of a refused 1003h:0 write are not judged",
    "jobs": {
        "quick":    [J("c15", c, defs=E8, depth=40, deadline=100) for c in (0, 1, 2, 5, 6, 7, 10, 11)] +
                    [J("c15", c, defs=E8, depth=6, deadline=100) for c in (3, 4, 8, 9)] +
                    [J("c15", 2, depth=40, deadline=100), J("c15", 8, depth=6, deadline=100), J("c15", 4, depth=5, deadline=100)] +
                    [J("c15", 2, depth=40, deadline=100, opts={"layout": l}) for l in (1, 2, 3)] +
                    [J("c15", 1, defs=E8, depth=40, deadline=100, opts={"long": 1}), J("c15", 4, defs=E8, depth=3, deadline=100, opts={"long": 1})],
        "thorough": [J("c15", c, defs=E8, depth=40, deadline=850) for c in (0, 1, 2, 5, 6, 7, 10, 11)] +
                    [J("c15", c, defs=E8, depth=40, deadline=850, max_states=8000000) for c in (3, 8)] +
                    [J("c15", c, defs=E8, depth=7, deadline=850, max_states=20000000) for c in (4, 9)] +
                    [J("c15", c, defs=E8, depth=10, deadline=850, max_states=20000000, opts=S15) for c in (4, 9)] +
                    [J("c15", 3, depth=40, deadline=850, max_states=8000000), J("c15", 7, depth=40, deadline=850), J("c15", 4, depth=7, deadline=850, max_states=20000000)] +
                    [J("c15", c, depth=40, deadline=850, max_states=8000000, opts={"layout": l}) for l in (1, 2, 3) for c in (2, 7)] +
                    [J("c15", c, defs=E8, depth=40, deadline=850, max_states=8000000, opts={"long": 1}) for c in (1, 2)] + [J("c15", 3, defs=E8, depth=5, deadline=850, max_states=8000000, opts={"long": 1}), J("c15", 4, defs=E8, depth=4, deadline=850, max_states=8000000, opts={"long": 1})],
    },
}

PROPS["C17"] = {
    "level": "fault_enumeration",
    "technique": "exhaustive enumeration of (parameter-group layout, request history, restart point, NVM fault positions) on the real 1010h/1011h store/load path with a harness-owned NVM device, against a reference model (RAM image, NVM image, last successfully stored image per group)",
    "text": "9 layouts (1..4 groups, sizes {1,2,5,64}, both reset types, enabled/disabled/autonomous flags, adjacent NVM offsets with guard bytes). Per layout every request history of length 3 (quick) / 4 (thorough) over {'save' and a wrong value to every 1010h sub-index, 'load' and a wrong value to every 1011h sub-index, an application change of each group, NMT reset node / communication}, every restart point (discard node and RAM, keep NVM, initialise again) and every position k at which the k-th NVM driver call is short by one byte or returns 0 (one fault; thorough additionally two faults on histories of length 3); plus a sweep of 41 wrong signature values per object and sub-index and the first initialisation on an erased device. After every request the SDO verdict, the complete 512-byte NVM image, the RAM image, the COParaDefault calls and - after restarts and resets - the reloaded groups are compared with the reference; a short write must never be confirmed, a short read must leave a node error. Two layouts give 1010h and 1011h different highest sub-indices (1011h with sub-index 1 only next to three groups in 1010h, and the reverse); requests to a sub-index the object does not implement must be aborted and change nothing. Three layouts run twice more with the signature travelling in a segmented download (initiate + one segment) and in a block download (initiate, segment, end): the object is written with the last frame, the next request has to find an idle server.",
    "note": "sub-index 1 means 'all groups' (placeholder CO_PARA) when there are >= 2 groups, as the repository's own unit test builds it; a request addressing a disabled group may be confirmed or aborted; the content of a group whose own driver call was short is adopted from the implementation; NMT reset node reloads the node groups AND the communication groups (co_nmt.h: 'reset application (and communication)'; CiA 301 passes from reset application through reset communication; C20 equates it with a fresh start, which loads every group); on NMT reset communication the node groups may be reloaded or left alone",
    "rule": "a case is a tuple (layout, request history, restart point, fault positions and kinds) executed from a restored snapshot; non-trivial = at least one NVM driver call or SDO answer happened; distinct = distinct hashes of verdicts, driver-call log and final images",
    "jobs": {
        "quick":    [J("c17", c) for c in range(13)] + [J("c17", c, opts={"xfer": x}) for c in (1, 4, 7) for x in (1, 2)],
        "thorough": [J("c17", c, deadline=900) for c in range(13)] + [J("c17", c, deadline=900, opts={"xfer": x}) for c in range(13) for x in (1, 2)],
    },
    "bounds": {"quick": "histories of length 3, every restart point, 1 fault at every NVM call (short by 1 / 0 bytes)",
               "thorough": "histories of length 4 with 1 fault + histories of length 3 with 2 faults"},
}

def c18_jobs(quick):
    jobs = []
    for c in range(6):
        jobs.append(J("c18", c, depth=60, opts={"part": 1}))
        if quick:
            jobs.append(J("c18", c, depth=60, opts={"part": 2, "small": 1}))
            jobs.append(J("c18", c, depth=8, deadline=60))
            if c < 2: jobs.append(J("c18", c, depth=6, deadline=60, opts={"nopoll": 1}))          # refused answers and a node error that nobody reads
            if c < 2: jobs.append(J("c18", c, depth=7, deadline=60, opts={"reactivate": 1}))      # a repeated activation request reaches the node although it closed the controller
        else:
            jobs.append(J("c18", c, depth=60, opts={"part": 2}, deadline=600, max_states=8000000))
            jobs.append(J("c18", c, depth=40, deadline=800, max_states=20000000))
            if c < 2: jobs.append(J("c18", c, depth=9, deadline=600, max_states=20000000, opts={"nopoll": 1}))
            if c < 2: jobs.append(J("c18", c, depth=10, deadline=600, max_states=20000000, opts={"reactivate": 1}))
    return jobs
PROPS["C18"] = {
    "level": "model_checking",
    "technique": "explicit-state BFS over all LSS command specifiers with matching/off-by-one arguments, NMT resets and ticks against a reference CiA 305 state machine (fixpoint for the addressing and the configuration sub-alphabet)",
    "text": "6 configurations (identity (1,2,3,4), (0,0,0,0), (FFFFFFFFh x4); node id 1 and 255). 70 events: switch-state-global {waiting, configuration}; selective 64..67 and identify 70..75 with {match, -1, +1}; configure-node-id {0,1,127,128,254,255}; configure-bit-timing table {0,1} x index {0,4,5,8,9,10}; activate with delay {0,2}; store with the callback succeeding/failing; inquire 90..94; cs 76; a reserved cs; a truncated inquiry; NMT reset communication/node, start, stop, pre-op; tick; SDO probes on the old and new node id. The reference model keeps LSS mode, selective and identify progress (as sets where CiA 305 leaves the progress open), pending / stored / active node id and bit rate. Per step: number of answers (<=1, on 7E4h, command specifier and documented error code), 44h exactly after an in-order fully matching selective sequence, 4Fh exactly when the identity lies in the ranges, silence in waiting state, store-callback arguments, node id and bit rate after the next reset, and that no LSS frame reaches another service or the application callback. The addressing sub-alphabet (50 events) and the configuration sub-alphabet (30/40 events) close to a fixpoint; the full product is explored to a depth bound. Two configurations run once more with an application that never reads the node error and an inquiry whose answer the CAN driver refuses (nopoll=1), and once more with a repeated activation request that reaches the node although the controller is closed (reactivate=1).",
    "note": "open in CiA 305 and accepted either way: LSS state and pending values across a reset (determined by a side probe), selective frames in configuration state, the answer to cs 76, inquiry of an unconfigured node id, everything about bit timing activation except 'no answer and no effect in waiting state'; no NMT/SDO traffic during an activation",
    "jobs": {"quick": c18_jobs(True), "thorough": c18_jobs(False)},
}

CL2 = ["CO_CSDO_N=2", "C19_CLIENT=1"]
PROPS["C19"] = {
    "level": "model_checking",
    "technique": "deviation-bounded exhaustive enumeration of SDO server behaviours against the real SDO client (sequences of back-to-back transfers, one or two deviations placed at every response step), reference client/server with callback, buffer-guard and timer-pool accounting",
    "text": "The harness plays the SDO server for client 0: a conforming reference server (expedited for <= 4 bytes, segmented otherwise, junk in unused bytes) plus 16 deviation kinds that can be placed at every response step k of a transfer: abort with matching multiplexer (an ordinary code, and each of the six codes the client generates itself: 0504 0000h, 0503 0000h, 0504 0001h, 0604 0043h, 0607 0012h, 0607 0013h) / other-index / other-sub-index multiplexer, silence, late answer while idle, late answer into the next transfer, wrong toggle, four foreign response types per phase, announced size +-1, expedited answer to a segmented request and vice versa, more data than announced (missing c bit + extra segments, over-long last segment), early c bit, request while busy (both API calls), five kinds of response while idle. A case is a sequence of up to 2 (quick) / 3 (thorough) transfers - direction x every size 1..300, 889, 1000, 1999, 2000 x timing profile (timeout, server delay) in {(2,0),(2,1),(5,0),(5,4)} ticks; uploads additionally from servers that put only 6 (every size) or 4 or 1 (sizes <= 40) data bytes into their non-final segments - separated by idle gaps {0, timeout-1, timeout, timeout+1}, with <= 1 (quick) / <= 2 (thorough) deviations per sequence; plus a 70 s timeout (silent server and a server answering after 65.6 s), a long-timeout transfer behind a short one, and a disabled client (1280h:1/:2 bit 31). The smallest and largest size shards, the probe-pair part and the special part are repeated in a build with two clients (CO_CSDO_N=2) in which the transfers run on client 1 (1281h, server node 6) while client 0 is an idle bystander. User buffers are exact-size heap blocks GUARD|size|GUARD checked after every frame. Oracle per step: request frames on 605h equal the reference client's (initiate, announced size, toggle, n, c, data in order); exactly one completion callback per accepted request with code 0 / the server's abort code / 0504 0000h plus exactly one abort frame after [timeout, timeout+1] ticks without a response; upload buffer equals the server's bytes (re-checked at the end of the sequence); busy => CO_ERR_SDO_BUSY without effect; disabled => refused without frame, callback or timer; responses while idle have no effect; timer action and event occupancy return to the pre-request value; nothing happens in an idle tail after the last transfer. Three configurations run once more on a 100 Hz timer (timeouts in units of 10 ms) and once more with a timer pool of exactly one timer (all the client needs). Two configurations run once more with another timer user next to the client: with every accepted request of a 5-tick timeout the application arms a timer that is due earlier and deletes it two ticks later (appt=1), or a one-tick timer that elapses on its own (appt=2), so that the timeout is not the head of the timer list and inherits time from the event before it; or (appt=3) before the request a timer that is due on exactly the tick of the timeout and lives across transfers, so that the timeout is the last action of a shared timer event and a back-to-back transfer with the same timeout joins that event again.",
    "note": "where CiA 301 does not fix the client's reaction an allowed set is used: a malformed response may be ignored (then the timeout path is checked) or end the transfer once with a non-zero code and at most one abort frame - never code 0; an object smaller than the buffer or a segmented answer to a <= 4-byte upload may complete with the server's bytes as a prefix or be refused; an abort with a foreign multiplexer may be ignored or taken. The timeout is per response. NMT resets during a transfer are C20's. Second/third transfers after a deviation use 8 probe transfers, not every size",
    "jobs": {
        "quick": [J("c19", c, deadline=150) for c in range(26)] + [J("c19", c, defs=CL2, deadline=150) for c in (0, 1, 14, 15, 24, 25)] + [J("c19", c, deadline=150, opts=SLOW) for c in (0, 1, 24)] + [J("c19", c, deadline=150, opts={"pool": 1}) for c in (0, 1, 24)] + [J("c19", c, deadline=150, opts={"appt": a}) for c in (0, 24) for a in (1, 2, 3)],
        "thorough": [J("c19", c, deadline=550) for c in range(26)] + [J("c19", c, defs=CL2, deadline=550) for c in (0, 1, 14, 15, 24, 25)] + [J("c19", c, deadline=550, opts=SLOW) for c in (0, 1, 24)] + [J("c19", c, deadline=550, opts={"pool": 1}) for c in (0, 1, 24)] + [J("c19", c, deadline=550, opts={"appt": a}) for c in (0, 1, 24) for a in (1, 2, 3)],
    },
}

PROPS["C20"] = {
    "level": "model_checking",
    "technique": "metamorphic differential exploration: BFS over a mixed history alphabet; in every reached state the node after an NMT reset is compared, under every probe sequence, with a freshly initialised node holding the same dictionary values (the implementation is its own reference)",
    "text": "Node with heartbeat producer and two consumers, SYNC (consumer or producer), EMCY, an asynchronous RPDO, an event-driven and a synchronous TPDO, SDO server, SDO client, LSS, an application timer; two further configurations keep 1017h in a communication parameter group with an NVM image (1010h:1, event 'save'), so that RAM and NVM differ at the reset and the fresh node loads the NVM image. 36 (37) history events: ticks; SDO writes to 1017h, 1016h, 1005h, 1006h, 1014h, 1800h:1/:3/:5; heartbeat frames; SDO transfers left open in every phase (segmented and block, up and down); a busy SDO client and its response; COEmcySet/Clr of error 2 and COEmcySet of error 9 (another status byte); LSS configure node-id + store; NMT start/stop/pre-op; application timer create/delete; RPDO frame; TPDO trigger. In every discovered state s (on copies): A = s followed by NMT reset communication (configurations 0,2) or reset node (1,3); B = the pristine pre-initialisation memory image into which the dictionary values of A (not the run-time fields next to them), the NVM image and the LSS store are copied, then CONodeInit + CONodeStart. For every probe sequence of length <= 2 (3) over 14 probes (SDO reads, SYNC, heartbeat of a monitored node, RPDO, NMT start, LSS inquiry, SDO client transfer, 4 ticks, segmented upload, COEmcySet, TPDO trigger, SDO write+read) the complete traces (frames per tick, callbacks, NMT mode, node id) of A and B must be equal; the timer slots in use after the reset must equal those of the fresh node plus the live application timers. Two configurations are explored again in a build with two SDO servers in which all SDO traffic of the histories (segmented and block transfers left open at the reset) and of the probes runs over the second server. LSS sequences split across the reset: the history can hold the first frame or the first three of a selective switch and the first three of the six-frame identify-remote-slave sequence, the probes send the remaining frames - a fresh node has not seen the beginning and must not complete the sequence. The fresh node reads 1001h = 0. Two configurations run once more with the reset issued by the application from inside its heartbeat-consumer event callback (cbreset=1) instead of an NMT frame.",
    "note": "1003h (error history) is not part of the dictionary: whether a reset clears it is not fixed by the statement; application timer callbacks are removed from the traces; depth-bounded",
    "jobs": {
        "quick": [J("c20", c, depth=4, deadline=150) for c in range(6)] + [J("c20", c, defs=["CO_SSDO_N=2"], depth=3, deadline=100, opts={"srv": 1}) for c in (0, 1)] + [J("c20", c, depth=3, deadline=100, opts={"cbreset": 1}) for c in (0, 1)],
        "thorough": [J("c20", c, depth=5, deadline=1500, max_states=5000000) for c in range(6)] + [J("c20", c, depth=3, deadline=1500, opts={"plen": 3}) for c in range(6)] + [J("c20", c, defs=["CO_SSDO_N=2"], depth=4, deadline=1200, max_states=5000000, opts={"srv": 1}) for c in (0, 1, 2)] + [J("c20", c, depth=4, deadline=1200, max_states=5000000, opts={"cbreset": 1}) for c in (0, 1, 2, 3)],
    },
}

SAFE = {"safety_only": 1}
def S(d):
    x = dict(SAFE); x.update(d); return x
def c01_jobs(quick):
    dl = 60 if quick else 900
    jobs = [J("c01sub", c, deadline=dl) for c in range(16)] + [J("c01sub", c, deadline=max(dl, 100)) for c in range(16, 20)]
    # SDO cluster (scaled buffer to a fixpoint, real buffer, two servers, truncated frames)
    jobs += [J("c04", 0, defs=SC3, depth=60, deadline=dl, opts=S({"coarse": 1, "small": 1, "fewinit": 1, "dlc": 1})),
             J("c04", 0, defs=SC3, depth=3 if quick else 4, deadline=dl, opts=S({"small": 1, "fewinit": 1, "dlc": 1})),
             J("c04", 0, defs=REAL1K, depth=3 if quick else 5, deadline=dl, opts=S({"small": 1, "fewinit": 1, "coarse": 1, "dlc": 1})),
             J("c04", 0, defs=TWO3, depth=4 if quick else 6, deadline=dl, opts=S({"coarse": 1, "small": 1, "fewinit": 1, "dlc": 1})),
             J("c04", 1, defs=["CO_SSDO_N=2", "SDO_DS2=1000"], depth=3 if quick else 4, deadline=dl, opts=S({"small": 1, "fewinit": 1, "coarse": 1})),
             J("c04", 0, defs=SC3, depth=5 if quick else 8, deadline=dl, opts=S(RESIDUE), max_states=20000000),
             # conforming dialogues on the real buffer, from the initial state and after completed/abandoned earlier transfers
             J("c02", 0, defs=REAL4K, deadline=dl, opts=SAFE), J("c02", 3, defs=REAL4K, deadline=dl, opts=SAFE), J("c03", 17, defs=REAL4K, deadline=dl, opts=SAFE)]
    # timer cluster with interrupt injection
    jobs += [C08(1, depth=40, opts=SAFE), C08(7, depth=40, opts=SAFE), C08(2, depth=5 if quick else 8, deadline=dl, opts=SAFE)]
    # heartbeat, PDO/SYNC, reconfiguration, EMCY, LSS, parameters, reset cluster
    jobs += [J("c11", 5, depth=5 if quick else 7, deadline=dl, opts=SAFE), J("c10", 0, depth=6 if quick else 9, deadline=dl, opts=SAFE)]
    jobs += [J("c13", c, depth=30, deadline=dl, allow_dead=True, opts=SAFE) for c in (8, 9, 72, 73, 10, 74, 42, 106)] + [J("c13map", opts=SAFE)]
    jobs += [J("c12", c, depth=6 if quick else 8, deadline=dl, allow_dead=True, opts=SAFE) for c in (22, 40)] + [J("c12map", opts=SAFE)]
    jobs += [J("c14", 1, depth=5 if quick else 7, deadline=dl, opts=SAFE), J("c16", 2, depth=60, deadline=dl, opts=SAFE)]
    jobs += [J("c15", 4, defs=E8, depth=5 if quick else 7, deadline=dl, opts=SAFE), J("c15", 2, depth=40, deadline=dl, opts=SAFE)]
    jobs += [J("c18", 0, depth=6 if quick else 9, deadline=dl, opts=SAFE), J("c18", 1, depth=60, deadline=dl, opts=S({"part": 2, "small": 1}))]
    jobs += [J("c17", 7, deadline=dl, opts=SAFE), J("c20", 0, depth=3 if quick else 4, deadline=dl, opts=SAFE), J("c20", 3, depth=3 if quick else 4, deadline=dl, opts=SAFE)]
    # SDO client against every deviating server (user buffers are exact-size heap blocks), NMT/gating alphabet with a timer-driven TPDO
    jobs += [J("c19", c, deadline=dl, opts=SAFE) for c in (0, 1, 14, 15, 24, 25)] + [J("c09", 4, depth=80, deadline=dl, opts=SAFE)]
    # a driver that passes the raw DLC code through: every full frame arrives with DLC 15 (the stack must never index by the received DLC)
    L15 = S({"longdlc": 15})
    jobs += [J("c13", c, depth=30, deadline=dl, allow_dead=True, opts=L15) for c in (9, 73, 10, 42, 106)] + [J("c09", 0, depth=80, deadline=dl, opts=L15), J("c16", 2, depth=60, deadline=dl, opts=L15)]
    jobs += [J("c11", 5, depth=4 if quick else 6, deadline=dl, opts=L15), J("c12", 22, depth=5 if quick else 7, deadline=dl, allow_dead=True, opts=L15), J("c19", 24, deadline=dl, opts=L15),
             J("c04", 0, defs=SC3, depth=60, deadline=dl, opts=S({"coarse": 1, "small": 1, "fewinit": 1, "longdlc": 15})), J("c18", 1, depth=60, deadline=dl, opts=S({"part": 2, "small": 1, "longdlc": 15}))]
    return jobs
PROPS["C01"] = {
    "level": "model_checking",
    "technique": "explicit-state exploration of the sanitizer-instrumented implementation per service cluster (closed state space for the scaled SDO server, depth bounds elsewhere) plus an exhaustive sweep over all subsets of the optional dictionary groups; only the safety monitor judges",
    "text": "Every exploration of every other property runs on an ASan+UBSan build with the safety monitor (sanitizer report, fatal-error callback, per-step CPU watchdog for unbounded loops, <= CO_SDO_BUF_SEG+2 frames per step, balanced timer lock) - C01 re-runs one representative of each cluster in safety-only mode with wider alphabets: (1) dictionary subsets: all 27648 combinations of {1003h, 1005h with/without 1006h or producing, 1014h, 1016h ok / count larger than the entries, 1017h, 1200h fixed / writable, 1280h, RPDO0 absent / communication record only / asynchronous / synchronous, RPDO1 synchronous, TPDO0 likewise, TPDO1} at three timer frequencies; for each, CONodeInit + start and every sequence of <= 2 (thorough: 3) of 56 events: NMT commands incl. DLC 0, ticks, SDO requests to every optional object incl. DLC 0 and 3, RPDO/SYNC/heartbeat/LSS/foreign frames with short DLC, TPDO triggers incl. out-of-range numbers, EMCY calls incl. an index beyond the table, SDO client request/response, failing CAN send, CAN read error, open segmented/block transfers; (2) SDO server: the closed state space of the 3-segment build and depth-bounded runs of the real 127-segment buffer and of CO_SSDO_N=2, each with truncated request frames added, a run whose state identity keeps the cursors and counters finished transfers leave behind, and the conforming download/upload dialogues of C02/C03 on the real buffer from the initial state and after completed or abandoned earlier transfers; (3) timer manager with the tick interrupt injected at every preemption point; (4) heartbeat consumer tables, heartbeat producer interference alphabet, all RPDO tables with a synchronous RPDO above an absent/asynchronous channel, all RPDO/TPDO mapping compositions incl. dummies, PDO reconfiguration histories, EMCY, LSS (full alphabet), parameter store/restore with NVM faults, the mixed reset alphabet of C20, the SDO client against every deviating server behaviour of C19 (smallest and largest size shards, both directions) and the NMT alphabet of C09 with a timer-driven TPDO; (5) the RPDO/SYNC, NMT, heartbeat consumer, TPDO, SDO server, SDO client and LSS explorations once more with a driver that passes the raw DLC code of the wire through (every full frame arrives with DLC 15). (6) wide mapping records (c01sub cfg 16..19): the mapping record of TPDO 0 or RPDO 0 (asynchronous or synchronous) has 8, 9, 16 or 64 sub-entries of 1 or 8 bit each and a count of 8, 9, 16 or 64 that does not pass through the mapping-count type - a constant (EDS default), a plain UNSIGNED8 or the type's own variable - 768 worlds, every sequence of <= 3 events of the mixed alphabet in each.",
    "note": "payload values outside the representatives are not enumerated (control fields and sizes are); histories longer than the bounds where no fixpoint is reached; API misuse (NULL arguments, mode values outside the enum) is outside the statement; the watchdog treats 4 s of CPU time without progress as an unbounded loop",
    "jobs": {"quick": c01_jobs(True), "thorough": c01_jobs(False)},
}

# an application that never reads the node error (the error register of the node is sticky): one representative exploration per service
NOPOLL = {"nopoll": 1}
PROPS["C09"]["jobs"]["quick"] += [J("c09", 0, depth=80, deadline=120, opts=NOPOLL)]
PROPS["C09"]["jobs"]["thorough"] += [J("c09", 0, depth=80, deadline=600, opts=NOPOLL)]
PROPS["C10"]["jobs"]["quick"] += [J("c10", 0, depth=6, deadline=100, opts=NOPOLL)]
PROPS["C10"]["jobs"]["thorough"] += [J("c10", 0, depth=8, deadline=600, max_states=30000000, opts=NOPOLL)]
PROPS["C11"]["jobs"]["quick"] += [J("c11", 1, depth=5, deadline=100, opts=NOPOLL)]
PROPS["C11"]["jobs"]["thorough"] += [J("c11", 1, depth=7, deadline=600, max_states=30000000, opts=NOPOLL)]
PROPS["C12"]["jobs"]["quick"] += [J("c12", 22, depth=6, deadline=100, allow_dead=True, opts=NOPOLL)]
PROPS["C12"]["jobs"]["thorough"] += [J("c12", 22, depth=8, deadline=600, allow_dead=True, opts=NOPOLL)]
PROPS["C13"]["jobs"]["quick"] += [J("c13", 73, depth=30, deadline=100, allow_dead=True, opts=NOPOLL)]
PROPS["C13"]["jobs"]["thorough"] += [J("c13", c, depth=60, deadline=600, allow_dead=True, opts=NOPOLL) for c in (73, 106)]
PROPS["C14"]["jobs"]["quick"] += [J("c14", 1, depth=5, deadline=100, opts=NOPOLL)]
PROPS["C14"]["jobs"]["thorough"] += [J("c14", 1, depth=7, deadline=600, max_states=20000000, opts=NOPOLL)]
PROPS["C15"]["jobs"]["quick"] += [J("c15", 2, defs=E8, depth=40, deadline=100, opts=NOPOLL)]
PROPS["C15"]["jobs"]["thorough"] += [J("c15", 2, defs=E8, depth=40, deadline=600, opts=NOPOLL)]
for _p in ("C09", "C10", "C11", "C12", "C13", "C14", "C15"):
    PROPS[_p]["text"] += " One representative exploration runs once more with an application that never reads (and so never clears) the node error."
PROPS["C09"]["text"] += " A TPDO exploration of C12 (inhibit and event timers, SYNC counters, NMT commands among the events) is part of the check: an NMT command that changes no state - start while OPERATIONAL - may not change what the services emit afterwards."
PROPS["C14"]["text"] += " Configurations 10/11: the event-driven pair with SYNC, 18xxh:5 writes and the passing of time (3 ticks) among the events - timers elapse in states in which nothing is sent, and every later write still has to be accepted or refused by the CiA 301 preconditions alone."
PROPS["C04"]["text"] += " In the two-server exploration the application also switches server 1 off and on through 1201h:1: its requests then stay unanswered, and whatever server 0 has open is untouched."
PROPS["C03"]["text"] += " The histories before an upload also contain segmented transfers that are left open without an abort (the new initiate request replaces them), and block initiate requests that carry the cc bit."
PROPS["C17"]["text"] += " In the segmented and block variants the histories contain the segmented upload of a string as a further event."
PROPS["C06"]["text"] += " A replay of an enumeration case runs the case before it first, and a crash that only the complete sweep reproduces (state left in a writable static of the code under test) is confirmed by running the sweep a second time."
# the tick split into its interrupt part and its processing step, every other event in between (heartbeat and TPDO event timer due on the same ticks)
PROPS["C10"]["jobs"]["quick"] += [J("c10", 8, depth=6, deadline=100, allow_dead=True)]
PROPS["C10"]["jobs"]["thorough"] += [J("c10", 8, depth=9, deadline=900, max_states=30000000, allow_dead=True)]
PROPS["C10"]["text"] += " A ninth configuration splits the tick into its interrupt part (COTmrService) and its processing step (COTmrProcess) as separate events, so that every write, NMT command, trigger and timer operation also falls between the two while the heartbeat and a TPDO event timer have elapsed on the same tick."
# another service's timer bookkeeping next to the client's timeout: an event-driven TPDO whose timer elapses in PRE-OPERATIONAL, NMT start right after the request
PROPS["C19"]["jobs"]["quick"] += [J("c19", c, deadline=150, opts={"tpdo": 1}) for c in (0, 24)]
PROPS["C19"]["jobs"]["thorough"] += [J("c19", c, deadline=550, opts={"tpdo": 1}) for c in (0, 1, 24)]
PROPS["C19"]["text"] += " Two configurations run once more on a node that also has an event-driven TPDO (tpdo=1): before every request the node goes OPERATIONAL -> PRE-OPERATIONAL and three ticks pass (the TPDO event timer elapses where nothing is sent), right after the request an NMT start re-initialises the PDOs - no other service may touch the timer the client is waiting on."

for _p in ("C04", "C05"):
    PROPS[_p]["text"] += " One fine-identity exploration runs once more with an application that never reads the node error."
# SYNC gating per NMT state with 1005h being rewritten (C16's exploration) also decides C09's "SYNC in PRE-OPERATIONAL and OPERATIONAL only, each frame handled by at most one service"
PROPS["C09"]["jobs"]["quick"] += [J("c16", 1, depth=60, deadline=120)]
PROPS["C09"]["jobs"]["thorough"] += [J("c16", 1, depth=60, deadline=600)]
PROPS["C09"]["text"] += " A SYNC exploration of C16 (frames on the configured and on neighbouring identifiers in every NMT state, 1005h/1006h rewritten by SDO) is part of the check as well: which identifier is the SYNC follows the object, not a stale copy."
PROPS["C03"]["text"] += " Between an earlier upload and the upload under test the application may replace the object by a shorter or a longer one (half the size, one byte, three bytes more; new bytes)."
PROPS["C17"]["jobs"]["quick"] += [J("c17", c, opts={"apireset": 1}) for c in (1, 4, 7)]
PROPS["C17"]["jobs"]["thorough"] += [J("c17", c, deadline=900, opts={"apireset": 1}) for c in range(13)]
PROPS["C17"]["text"] += " Three layouts run once more with a restart in which the application, between CONodeInit and CONodeStart, writes tentative values into every group and calls CONmtReset(CO_RESET_NODE): the groups have to come back from NVM as after an NMT reset of a started node."
PROPS["C14"]["text"] += " At every activation the application's object trigger (COTPdoTrigObj) is probed as well: an object sends the TPDO exactly if the stored mapping contains it - links of an earlier mapping must be gone."
PROPS["C06"]["text"] += " The typed-access sweep runs twice: the second time every entry also carries the flags asynchronous and PDO-mappable, the node is started and an unrelated node error is pending that the application never fetches."
# the application stops the node from inside the mode-change callback that announces OPERATIONAL: whatever mode the node reports afterwards, every service gate has to agree with it
for _p in ("C09", "C04"):
    PROPS[_p]["jobs"]["quick"] += [J("c09", 0, depth=80, deadline=120, opts={"cbmode": 1})]
    PROPS[_p]["jobs"]["thorough"] += [J("c09", c, depth=80, deadline=600, opts={"cbmode": 1}) for c in (0, 4)]
    PROPS[_p]["text"] += " An NMT exploration (c09 cbmode=1) in which the application calls CONmtSetMode(CO_STOP) from inside the mode-change callback that announces OPERATIONAL is part of the check: whichever request wins, the mode the node reports and the gate in front of every service (SDO answered in PRE-OPERATIONAL and OPERATIONAL only) have to agree."
PROPS["C02"]["text"] += " In the two-server interleavings the second participant can also be the application switching server 1 off (1201h:1) at every position of the transfer on server 0."
PROPS["C15"]["jobs"]["quick"] += [J("c15", 2, defs=E8, depth=40, deadline=100, opts={"cbemcy": 1})]
PROPS["C15"]["jobs"]["thorough"] += [J("c15", c, defs=E8, depth=40, deadline=600, opts={"cbemcy": 1}) for c in (2, 7)]
PROPS["C15"]["text"] += " One configuration runs once more with an application that sets or clears error 0 from inside its mode-change callback (cbemcy=1), while CONmtGetMode() still names the state the node is leaving: whether a frame goes out is decided by that reported state."
# the PDO reconfiguration exploration with both PDOs of a pair synchronous also decides C13's "a synchronous RPDO takes effect at the next SYNC" after the TPDO of the same number was re-configured
PROPS["C13"]["jobs"]["quick"] += [J("c14", 7, depth=5, deadline=100)]
PROPS["C13"]["jobs"]["thorough"] += [J("c14", c, depth=7, deadline=600, max_states=20000000) for c in (6, 7)]
PROPS["C13"]["text"] += " The PDO reconfiguration exploration of C14 in which RPDO and TPDO of one number are both synchronous is part of the check: after every accepted COB-ID write of the TPDO the RPDO of the same number is probed (frame, SYNC, mapped objects)."
PROPS["C14"]["text"] += " After every accepted COB-ID write of the TPDO the RPDO of the same number is probed, too."
PROPS["C20"]["text"] += " The histories also contain a tick of which only the interrupt part was served (COTmrService without COTmrProcess): the reset then meets timers that have elapsed but not run."
PROPS["C12"]["jobs"]["quick"] += [J("c12", c, depth=7, deadline=100, allow_dead=True, opts={"cbtrig": 1}) for c in (3, 4)]
PROPS["C12"]["jobs"]["thorough"] += [J("c12", c, depth=9, deadline=600, allow_dead=True, opts={"cbtrig": 1}) for c in (3, 4, 5, 13)]
PROPS["C12"]["text"] += " Two configurations with an inhibit time run once more with an application that triggers TPDO0 again from inside the COPdoTransmit callback of a TPDO0 frame (cbtrig=1): the new trigger waits for the end of the inhibit time which that very transmission started, and is not lost."
PROPS["C18"]["jobs"]["quick"] += [J("c18", c, depth=6, deadline=60, opts={"nostart": 1}) for c in (0, 1)]
PROPS["C18"]["jobs"]["thorough"] += [J("c18", c, depth=8, deadline=600, max_states=20000000, opts={"nostart": 1}) for c in (0, 1, 2)]
PROPS["C18"]["text"] += " Two configurations run once more on a node that is initialised but not started (nostart=1): LSS is served there, the application resets the communication through the API (CONmtReset) before and after CONodeStart, and the stored configuration has to be the active one after each reset - shown by Node.NodeId before the start and by the boot-up message at CONodeStart."
PROPS["C16"]["jobs"]["quick"] += [J("c16", 7, depth=8, deadline=120)]
PROPS["C16"]["jobs"]["thorough"] += [J("c16", 7, depth=12, deadline=600, max_states=12000000)]
PROPS["C16"]["text"] += " An eighth configuration leaves the node initialised but not started with the producer configured: time passes, nothing may be produced before CONodeStart, afterwards the schedule is the reference one."
