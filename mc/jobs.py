"""jobs.py - which explorations decide which property, per tier."""

def J(harness, cfg=0, **kw):
    d = {"harness": harness, "cfg": cfg}
    d.update(kw)
    return d

PROPS = {}

PROPS["C07"] = {
    "level": "model_checking",
    "technique": "explicit-state BFS of the real timer manager in lockstep with a reference timer (fixpoint for pools 1-2 and a reduced pool 3); exhaustive sweep of the tick conversion",
    "text": "Every create/delete/tick history over start,cycle in 0..3 and four callback kinds (plain, deletes another, creates a one-shot, deletes itself) is executed on the real COTmr* code; per step the set of callbacks run, return values and handle uniqueness are compared with a reference timer. The reachable state set is closed (fixpoint) for pools of 1 and 2 actions and for pool 3 with plain callbacks, depth-bounded for pool 3 (all kinds), 4 and 16. COTmrGetTicks is swept over all 65536 times x 2 units x 13 frequencies.",
    "note": "tick = COTmrService immediately followed by COTmrProcess (deferred processing is C08); callback order within one step is not compared; time values limited to 0..3 ticks",
    "jobs": {
        "quick":    [J("c07", 0, depth=40), J("c07", 1, depth=40), J("c07", 2, depth=40, opts={"kinds": 1, "times": 3}), J("c07", 2, depth=4, deadline=60),
                     J("c07", 3, depth=4, deadline=60), J("c07", 4, depth=4, deadline=60), J("c07conv")],
        "thorough": [J("c07", 0, depth=40), J("c07", 1, depth=40), J("c07", 2, depth=40, opts={"kinds": 1, "times": 3}, deadline=600),
                     J("c07", 2, depth=40, opts={"kinds": 2, "times": 3}, deadline=900, max_states=40000000),
                     J("c07", 2, depth=6, deadline=900, max_states=40000000), J("c07", 3, depth=5, deadline=900, max_states=40000000),
                     J("c07", 4, depth=5, deadline=900, max_states=40000000), J("c07conv")],
    },
    "bounds": {"quick": "pool 1,2: fixpoint; pool 3: depth 7; pool 4: depth 5; pool 16: depth 4",
               "thorough": "pool 1,2: fixpoint; pool 3: depth 12; pool 4: depth 8; pool 16: depth 6"},
}

COV = ["-O0", "-fsanitize-coverage=trace-pc-guard,trace-loads,trace-stores"]
def C08(cfg, **kw):
    return J("c08", cfg, stack_cflags=COV, allow_dead=True, **kw)
PROPS["C08"] = {
    "level": "model_checking",
    "technique": "preemption-point model checking: BFS over task-level timer histories x placement of the tick interrupt at every shared-memory access outside the lock (compiler-instrumented loads/stores), expiry-accounting oracle + pool conservation",
    "text": "co_tmr.c is compiled with load/store tracing; every access to CO_TMR, the timer memory, the hardware counter or Node.Error made outside COTmrLock/Unlock is a preemption point at which COTmrService may run. BFS over {create, delete, service, process} x injection point, with service and process as independent events (arbitrary processing delay). Closed state space (fixpoint) for pools 1 and 2 with an interrupt allowed in every operation; depth-bounded for pool 3.",
    "note": "one injected interrupt per task-level operation (any number per history in the unbounded configurations); single core, interrupt runs to completion; plain callbacks only",
    "jobs": {
        "quick":    [C08(0, depth=40), C08(1, depth=40), C08(6, depth=40), C08(7, depth=40), C08(2, depth=6, deadline=60), C08(5, depth=5, deadline=60)],
        "thorough": [C08(0, depth=40), C08(1, depth=40), C08(3, depth=40), C08(4, depth=40), C08(6, depth=40), C08(7, depth=40),
                     C08(2, depth=10, deadline=900, max_states=40000000), C08(5, depth=9, deadline=900, max_states=40000000), C08(8, depth=9, deadline=900, max_states=40000000)],
    },
}

SC3 = ["CO_VERIF_SDO_BUF_SEG=3"]
PROPS["C04"] = {
    "level": "model_checking",
    "technique": "explicit-state BFS over the full SDO command alphabet against the real server with an allowed-set reference server",
    "text": "tbd", "note": "tbd",
    "jobs": {
        "quick": [J("c04", 0, defs=SC3, depth=40, deadline=100, opts={"coarse": 1})],
        "thorough": [J("c04", 0, defs=SC3, depth=40, deadline=900)],
    },
}

PROPS["C05"] = {
    "level": "model_checking",
    "technique": "reachability closure of the real SDO server under the full command alphabet + recovery probes (abort / reset communication, then clean transfers) in every reachable state, differential against a fresh node",
    "text": "tbd", "note": "tbd",
    "jobs": {
        "quick": [J("c05", 0, defs=SC3, depth=40, deadline=100, opts={"coarse": 1})],
        "thorough": [J("c05", 0, defs=SC3, depth=40, deadline=900, opts={"coarse": 1})],
    },
}

REAL4K = ["SDO_DS2=4000"]
TWO = ["CO_SSDO_N=2", "SDO_DS2=1000"]
PROPS["C02"] = {
    "level": "model_checking",
    "technique": "deviation-bounded exhaustive enumeration of conforming download clients (all modes, size indications, last-segment fills, lost-segment placements, two-server interleavings) against the real server with the reference server in lockstep",
    "text": "tbd", "note": "tbd",
    "jobs": {
        "quick": [J("c02", 0, defs=REAL4K, deadline=120), J("c02", 1, defs=REAL4K), J("c02", 2, defs=TWO, deadline=120)],
        "thorough": [J("c02", 0, defs=REAL4K, deadline=1500), J("c02", 1, defs=REAL4K), J("c02", 2, defs=TWO, deadline=900)],
    },
}

PROPS["C03"] = {
    "level": "model_checking",
    "technique": "deviation-bounded exhaustive enumeration of conforming upload clients (segmented; block with every block size, every acknowledge position per block, block size changes) against the real server with the reference server in lockstep",
    "text": "tbd", "note": "tbd",
    "jobs": {
        "quick": [J("c03", c, defs=REAL4K, deadline=150) for c in range(3, 17)] + [J("c03", 2, defs=REAL4K)],
        "thorough": [J("c03", c, defs=REAL4K, deadline=1500) for c in range(3, 17)] + [J("c03", 2, defs=REAL4K)],
    },
}
