/* mc.c - explicit-state BFS explorer over the real implementation + enumeration driver */
#define _GNU_SOURCE
#include <stdio.h>
#include <stdlib.h>
#include <string.h>
#include <stdarg.h>
#include <signal.h>
#include <unistd.h>
#include <time.h>
#include <sys/time.h>
#include "mc.h"
#include "world.h"

#if defined(__has_feature)
#  if __has_feature(address_sanitizer) || __has_feature(undefined_behavior_sanitizer) || __has_feature(memory_sanitizer)
#    define MC_HAVE_SAN 1
#  endif
#endif
#ifdef MC_HAVE_SAN
void __sanitizer_set_death_callback(void (*cb)(void));
#endif

/* ------------------------------------------------------------------ options */
static int    o_cfg = 0, o_depth = -1, o_tier = 0;
static long   o_max_states = 4000000;
static double o_deadline = 1e9;
static const char *o_replay = 0, *o_outdir = "replays", *o_tag = "";
static struct { char name[32]; int val; } o_opts[16];
static int    n_opts;
int  mc_verbose;
long mc_steps;
long mc_expand_id = -1;

int mc_tier(void) { return o_tier; }
int mc_opt(const char *name, int dflt)
{
    for (int i = 0; i < n_opts; i++) if (!strcmp(o_opts[i].name, name)) return o_opts[i].val;
    return dflt;
}

static void parse_args(int argc, char **argv)
{
    for (int i = 1; i < argc; i++) {
        if (!strcmp(argv[i], "--cfg") && i + 1 < argc) o_cfg = atoi(argv[++i]);
        else if (!strcmp(argv[i], "--depth") && i + 1 < argc) o_depth = atoi(argv[++i]);
        else if (!strcmp(argv[i], "--max-states") && i + 1 < argc) o_max_states = atol(argv[++i]);
        else if (!strcmp(argv[i], "--deadline") && i + 1 < argc) o_deadline = atof(argv[++i]);
        else if (!strcmp(argv[i], "--replay") && i + 1 < argc) o_replay = argv[++i];
        else if (!strcmp(argv[i], "--out") && i + 1 < argc) o_outdir = argv[++i];
        else if (!strcmp(argv[i], "--tag") && i + 1 < argc) o_tag = argv[++i];
        else if (!strcmp(argv[i], "--tier") && i + 1 < argc) o_tier = !strcmp(argv[++i], "thorough");
        else if (!strcmp(argv[i], "--opt") && i + 1 < argc && n_opts < 16) {
            char *eq = strchr(argv[++i], '=');
            if (eq) { size_t l = (size_t)(eq - argv[i]); if (l > 31) l = 31; memcpy(o_opts[n_opts].name, argv[i], l); o_opts[n_opts].name[l] = 0; o_opts[n_opts].val = atoi(eq + 1); n_opts++; }
        } else { fprintf(stderr, "mc: unknown argument %s\n", argv[i]); exit(2); }
    }
}

static double now_s(void) { struct timespec t; clock_gettime(CLOCK_MONOTONIC, &t); return (double)t.tv_sec + 1e-9 * (double)t.tv_nsec; }
static double t_start;
static int deadline_flag;
int mc_deadline_hit(void)
{
    static long poll;
    if (deadline_flag) return 1;
    if ((++poll & 0x3F) == 0 && now_s() - t_start > o_deadline) deadline_flag = 1;
    return deadline_flag;
}

/* ------------------------------------------------------------------ context, violations */
static int  ctx[MC_CTX_MAX + 8]; static int ctx_n;
static int prev_ctx[MC_CTX_MAX + 8], prev_n;      /* the case before the current one: an enumeration replay runs it first, so that state a case leaves behind
                                                     * outside the snapshot (a writable static in the code under test) is reproduced */

static const char *g_prop, *g_name;
static const char *(*g_evname)(int);
static int  g_is_bfs;
static char fail_sig[128], fail_diag[2048]; static int failed;
static volatile long progress;      /* incremented per transition/case; watched by the hang detector */
static volatile int  in_step;

#define MAX_SIGS 64
static struct { char sig[128]; long count; char file[256]; char diag[600]; } sigs[MAX_SIGS];
static int n_sigs; static long n_viol;

void mc_fail(const char *sig, const char *fmt, ...)
{
    if (failed) return;               /* keep the first failure of the step */
    va_list ap; va_start(ap, fmt);
    snprintf(fail_sig, sizeof fail_sig, "%s", sig);
    vsnprintf(fail_diag, sizeof fail_diag, fmt, ap);
    va_end(ap);
    failed = 1;
}

void mc_log(const char *fmt, ...)
{
    if (!mc_verbose) return;
    va_list ap; va_start(ap, fmt); vprintf(fmt, ap); va_end(ap);
}

static void json_str(FILE *f, const char *s)
{
    fputc('"', f);
    for (; *s; s++) {
        unsigned char c = (unsigned char)*s;
        if (c == '"' || c == '\\') { fputc('\\', f); fputc(c, f); }
        else if (c == '\n') fputs("\\n", f);
        else if (c < 0x20) fprintf(f, "\\u%04x", c);
        else fputc(c, f);
    }
    fputc('"', f);
}

static unsigned tag_hash(void)
{
    unsigned h = 2166136261u;
    for (const char *p = o_tag; *p; p++) h = (h ^ (unsigned char)*p) * 16777619u;
    for (int i = 0; i < n_opts; i++) { for (const char *p = o_opts[i].name; *p; p++) h = (h ^ (unsigned char)*p) * 16777619u; h = (h ^ (unsigned)o_opts[i].val) * 16777619u; }
    h = (h ^ (unsigned)o_depth) * 16777619u;
    return h;
}

static void write_replay(const char *path, const char *sig, const char *diag)
{
    FILE *f = fopen(path, "w");
    if (!f) return;
    fprintf(f, "{\n \"property\": \"%s\",\n \"harness\": \"%s\",\n \"cfg\": %d,\n \"tier\": %d,\n \"sig\": ", g_prop, g_name, ctx_n ? ctx[0] : o_cfg, o_tier);
    json_str(f, sig);
    fprintf(f, ",\n \"build\": "); json_str(f, o_tag);
    fprintf(f, ",\n \"ctx\": [");
    for (int i = 0; i < ctx_n; i++) fprintf(f, "%s%d", i ? "," : "", ctx[i]);
    if (!g_is_bfs && prev_n > 1) { fprintf(f, "],\n \"prev\": ["); for (int i = 0; i < prev_n; i++) fprintf(f, "%s%d", i ? "," : "", prev_ctx[i]); }
    fprintf(f, "],\n \"opts\": {");
    for (int i = 0; i < n_opts; i++) fprintf(f, "%s\"%s\": %d", i ? "," : "", o_opts[i].name, o_opts[i].val);
    fprintf(f, "},\n");
    if (g_is_bfs && g_evname) {
        fprintf(f, " \"events\": [");
        for (int i = 1; i < ctx_n; i++) { if (i > 1) fputc(',', f); json_str(f, g_evname(ctx[i])); }
        fprintf(f, "],\n");
    }
    fprintf(f, " \"diag\": "); json_str(f, diag); fprintf(f, "\n}\n");
    fclose(f);
}

static void record_violation(const char *sig, const char *diag)
{
    int k;
    n_viol++;
    for (k = 0; k < n_sigs; k++) if (!strcmp(sigs[k].sig, sig)) break;
    if (k == n_sigs) {
        if (n_sigs == MAX_SIGS) { sigs[MAX_SIGS - 1].count++; return; }
        n_sigs++;
        snprintf(sigs[k].sig, sizeof sigs[k].sig, "%s", sig);
        sigs[k].count = 0;
        snprintf(sigs[k].diag, sizeof sigs[k].diag, "%s", diag);
        char clean[128]; int j = 0;
        for (const char *p = sig; *p && j < 100; p++) clean[j++] = ((*p >= 'a' && *p <= 'z') || (*p >= 'A' && *p <= 'Z') || (*p >= '0' && *p <= '9')) ? *p : '_';
        clean[j] = 0;
        snprintf(sigs[k].file, sizeof sigs[k].file, "%s/%s-%s-%08x-cfg%d-%s.json", o_outdir, g_prop, g_name, tag_hash(), o_cfg, clean);
        write_replay(sigs[k].file, sig, diag);
    }
    sigs[k].count++;
}

/* crash / hang: dump the case in progress */
static void dump_in_progress(const char *sig)
{
    char path[300];
    snprintf(path, sizeof path, "%s/%s-%s-%08x-cfg%d-%s.json", o_outdir, g_prop, g_name, tag_hash(), o_cfg, sig);
    write_replay(path, sig, "process died while executing this case; see the captured stderr for the sanitizer report");
    printf("\nMCCRASH sig=%s file=%s\n", sig, path);
    fflush(stdout);
}
static void death_cb(void) { if (in_step) dump_in_progress("crash"); }

static long last_progress = -1;
static void on_vtalrm(int s)
{
    (void)s;
    if (in_step && progress == last_progress) { dump_in_progress("hang"); _exit(78); }
    last_progress = progress;
}

static void install_monitors(void)
{
#ifdef MC_HAVE_SAN
    __sanitizer_set_death_callback(death_cb);
#endif
    struct sigaction sa; memset(&sa, 0, sizeof sa); sa.sa_handler = on_vtalrm; sigaction(SIGVTALRM, &sa, 0);
    struct itimerval it; it.it_interval.tv_sec = 4; it.it_interval.tv_usec = 0; it.it_value = it.it_interval;
    setitimer(ITIMER_VIRTUAL, &it, 0);
}

/* ------------------------------------------------------------------ outcome set */
#define OUT_CAP (1u << 20)
static uint64_t *outset; static long n_outcomes;
static void outcome_add(uint64_t h)
{
    if (!outset) outset = calloc(OUT_CAP, sizeof *outset);
    if (h == 0) h = 1;
    uint32_t i = (uint32_t)(h * 0x9E3779B97F4A7C15ull >> 44) & (OUT_CAP - 1);
    for (int probe = 0; probe < 64; probe++, i = (i + 1) & (OUT_CAP - 1)) {
        if (outset[i] == h) return;
        if (outset[i] == 0) { if (n_outcomes < (long)(OUT_CAP / 2)) { outset[i] = h; n_outcomes++; } return; }
    }
}

/* ------------------------------------------------------------------ replay file reading */
static int read_ctx(const char *path, int *out, int max)
{
    FILE *f = fopen(path, "r"); if (!f) { fprintf(stderr, "mc: cannot open %s\n", path); exit(2); }
    static char buf[1 << 16]; size_t n = fread(buf, 1, sizeof buf - 1, f); buf[n] = 0; fclose(f);
    char *p = strstr(buf, "\"ctx\""); if (!p) { fprintf(stderr, "mc: no ctx in %s\n", path); exit(2); }
    p = strchr(p, '['); int k = 0;
    if (p) { p++; while (*p && *p != ']' && k < max) { out[k++] = (int)strtol(p, &p, 10); while (*p == ',' || *p == ' ') p++; } }
    /* options */
    p = strstr(buf, "\"opts\"");
    if (p) { p = strchr(p, '{'); char *e = p ? strchr(p, '}') : 0;
        while (p && e && p < e) { char *q = strchr(p, '"'); if (!q || q > e) break; char *r = strchr(q + 1, '"'); if (!r || r > e) break;
            size_t l = (size_t)(r - q - 1); if (l > 31) l = 31; if (n_opts < 16) { memcpy(o_opts[n_opts].name, q + 1, l); o_opts[n_opts].name[l] = 0;
            char *c = strchr(r, ':'); o_opts[n_opts].val = c ? atoi(c + 1) : 0; n_opts++; } p = strchr(r + 1, ','); if (!p) break; } }
    p = strstr(buf, "\"tier\""); if (p) { p = strchr(p, ':'); if (p) o_tier = atoi(p + 1); }
    return k;
}

/* ------------------------------------------------------------------ BFS */
typedef struct { uint64_t h[2]; uint32_t parent; uint16_t ev; uint16_t depth; } Node;
static Node *nodes; static long n_nodes, cap_nodes;
static uint32_t *hidx; static uint64_t hmask;

static long find_or_add(const uint64_t h[2], uint32_t parent, int ev, int depth, int *isnew)
{
    uint64_t i = (h[0] ^ (h[1] << 1)) & hmask;
    for (;; i = (i + 1) & hmask) {
        uint32_t v = hidx[i];
        if (v == 0) break;
        if (nodes[v - 1].h[0] == h[0] && nodes[v - 1].h[1] == h[1]) { *isnew = 0; return (long)v - 1; }
    }
    if (n_nodes >= cap_nodes) { *isnew = -1; return -1; }
    Node *nd = &nodes[n_nodes];
    nd->h[0] = h[0]; nd->h[1] = h[1]; nd->parent = parent; nd->ev = (uint16_t)ev; nd->depth = (uint16_t)depth;
    hidx[i] = (uint32_t)(n_nodes + 1);
    *isnew = 1;
    return n_nodes++;
}

static int path_of(long idx, int *out)      /* events from root to idx */
{
    int d = nodes[idx].depth, k = d;
    while (k > 0) { out[--k] = nodes[idx].ev; idx = nodes[idx].parent; }
    return d;
}

static int run_step(const mc_harness *h, int e)
{
    int r;
    failed = 0; fail_sig[0] = 0; fail_diag[0] = 0;
    w_obs_clear();
    in_step = 1;
    r = h->step(e);
    in_step = 0;
    progress++;
    if (r == MC_SKIP && !failed) return MC_SKIP;
    if (!failed) {
        const char *s = w_safety(h->max_frames ? h->max_frames : 140);
        if (s) { char o[400]; w_fmt_obs(o, sizeof o); mc_fail(s, "safety monitor: %s; %s", s, o); }
    }
    if (failed && mc_opt("safety_only", 0) && strncmp(fail_sig, "safety:", 7) != 0) failed = 0;   /* C01 runs: only the safety monitor judges */
    return failed ? MC_VIOL : MC_OK;
}

static int bfs_replay(const mc_harness *h)
{
    int path[MC_CTX_MAX + 8];
    int n = read_ctx(o_replay, path, MC_CTX_MAX);
    if (n < 1) { fprintf(stderr, "mc: empty ctx\n"); return 2; }
    o_cfg = path[0];
    mc_verbose = 1;
    w_regions_clear();
    int nev = h->build(o_cfg);
    printf("replay %s/%s cfg=%d (%s), %d events in alphabet\n", h->property, h->name, o_cfg, h->cfg_name ? h->cfg_name(o_cfg) : "", nev);
    ctx[0] = o_cfg; ctx_n = 1;
    const char *res = "none";
    for (int i = 1; i < n; i++) {
        if (path[i] < 0 || path[i] >= nev) { fprintf(stderr, "mc: event %d out of range\n", path[i]); return 2; }
        ctx[ctx_n++] = path[i];
        printf("--- step %d: %s\n", i, h->ev_name(path[i]));
        int r = run_step(h, path[i]);
        char o[1200]; w_fmt_obs(o, sizeof o);
        printf("    result=%s  %s\n", r == MC_OK ? "ok" : r == MC_SKIP ? "skip(disabled)" : "VIOLATION", o);
        if (r == MC_VIOL) { printf("    sig=%s\n    %s\n", fail_sig, fail_diag); res = fail_sig; break; }
        if (r == MC_SKIP && i < n - 1) { printf("    (disabled event inside a path: replay diverged)\n"); res = "diverged"; break; }
    }
    if (h->probe && !strcmp(res, "none")) {
        failed = 0; fail_sig[0] = 0; fail_diag[0] = 0;
        printf("--- probing the final state\n");
        h->probe();
        if (failed) { printf("    sig=%s\n    %s\n", fail_sig, fail_diag); res = fail_sig; }
    }
    printf("REPLAY-RESULT sig=%s\n", res);
    return 0;
}

int mc_main(int argc, char **argv, const mc_harness *h)
{
    parse_args(argc, argv);
    t_start = now_s();
    g_prop = h->property; g_name = h->name; g_evname = h->ev_name; g_is_bfs = 1;
    setvbuf(stdout, 0, _IOLBF, 0);
    install_monitors();
    if (o_replay) return bfs_replay(h);
    if (o_cfg < 0 || o_cfg >= h->n_cfg) { fprintf(stderr, "mc: cfg out of range\n"); return 2; }
    int max_depth = o_depth >= 0 ? o_depth : h->default_depth;
    if (max_depth > MC_CTX_MAX - 2) max_depth = MC_CTX_MAX - 2;

    w_regions_clear();
    int nev = h->build(o_cfg);
    size_t ssz = w_snap_size();
    uint8_t *s0 = malloc(ssz), *scur = malloc(ssz);
    w_save(s0);

    cap_nodes = o_max_states;
    nodes = malloc(sizeof(Node) * (size_t)cap_nodes);
    uint64_t hs = 1; while (hs < (uint64_t)cap_nodes * 2) hs <<= 1;
    hidx = calloc(hs, sizeof *hidx); hmask = hs - 1;
    long *ev_enabled = calloc((size_t)nev, sizeof(long)), *ev_changed = calloc((size_t)nev, sizeof(long)), *ev_new = calloc((size_t)nev, sizeof(long));

    uint64_t hh[2]; int isnew;
    w_hash(hh); find_or_add(hh, 0, 0, 0, &isnew);

    long transitions = 0, nontrivial = 0, replayed = 0, probes = 0;
    int  depth_done = 0, fixpoint = 0, truncated = 0, maxdepth_seen = 0;
    const char *stop_reason = "";
    long idx;
    for (idx = 0; idx < n_nodes; idx++) {
        Node nd = nodes[idx];
        if (nd.depth > depth_done) depth_done = nd.depth;   /* all nodes of smaller depth are expanded */
        if (nd.depth >= max_depth) { stop_reason = "depth bound"; break; }
        if ((idx & 0xF) == 0 && now_s() - t_start > o_deadline) { truncated = 1; stop_reason = "deadline"; break; }
        /* reconstruct the state by replaying its path from the initial snapshot */
        int path[MC_CTX_MAX + 8]; int d = path_of(idx, path);
        w_restore(s0);
        ctx[0] = o_cfg; ctx_n = 1;
        mc_expand_id = -1;
        for (int i = 0; i < d; i++) { ctx[ctx_n++] = path[i]; (void)run_step(h, path[i]); replayed++; }
        w_hash(hh);
        if (hh[0] != nd.h[0] || hh[1] != nd.h[1]) {
            fprintf(stderr, "mc: NONDETERMINISM: replaying the path of node %ld gives a different state hash\n", idx);
            dump_in_progress("nondeterminism");
            return 2;
        }
        w_save(scur);
        mc_expand_id = idx;
        ctx_n = d + 2;
        for (int e = 0; e < nev; e++) {
            if (e) w_restore(scur);
            ctx[d + 1] = e;
            int r = run_step(h, e);
            if (r == MC_SKIP) continue;
            transitions++; ev_enabled[e]++;
            if (OBS.ntx || OBS.ncb) nontrivial++;
            outcome_add(w_obs_hash() ^ ((uint64_t)(r == MC_VIOL) << 63));
            if (r == MC_VIOL) { record_violation(fail_sig, fail_diag); continue; }
            w_hash(hh);
            if (hh[0] != nd.h[0] || hh[1] != nd.h[1]) ev_changed[e]++;
            long t = find_or_add(hh, (uint32_t)idx, e, d + 1, &isnew);
            (void)t;
            if (isnew == 1) {
                ev_new[e]++; if (d + 1 > maxdepth_seen) maxdepth_seen = d + 1;
                if (h->probe) {
                    failed = 0; fail_sig[0] = 0; fail_diag[0] = 0; in_step = 1;
                    h->probe();
                    in_step = 0; progress++; probes++;
                    if (failed && mc_opt("safety_only", 0) && strncmp(fail_sig, "safety:", 7) != 0) failed = 0;
                    if (failed) record_violation(fail_sig, fail_diag);
                }
            }
            if (isnew < 0) { truncated = 1; stop_reason = "state limit"; break; }
        }
        if (truncated) break;
    }
    if (idx >= n_nodes && !truncated) { fixpoint = 1; depth_done = maxdepth_seen; stop_reason = "fixpoint"; }

    /* result */
    printf("MCRESULT {\"property\":\"%s\",\"harness\":\"%s\",\"cfg\":%d,\"cfg_name\":", h->property, h->name, o_cfg);
    json_str(stdout, h->cfg_name ? h->cfg_name(o_cfg) : "");
    printf(",\"kind\":\"bfs\",\"events\":%d,\"states\":%ld,\"transitions\":%ld,\"replayed_steps\":%ld,\"probed_states\":%ld,\"depth_bound\":%d,\"depth_done\":%d,"
           "\"fixpoint\":%s,\"truncated\":%s,\"stop\":\"%s\",\"outcomes\":%ld,\"nontrivial\":%ld,\"violations\":%ld,\"snap_bytes\":%zu,\"wall_s\":%.2f,",
           nev, n_nodes, transitions, replayed, probes, max_depth, depth_done, fixpoint ? "true" : "false", truncated ? "true" : "false",
           stop_reason, n_outcomes, nontrivial, n_viol, ssz, now_s() - t_start);
    printf("\"dead_events\":[");
    int first = 1;
    for (int e = 0; e < nev; e++) if (ev_changed[e] == 0 && ev_enabled[e] == 0) { if (!first) putchar(','); first = 0; json_str(stdout, h->ev_name(e)); }
    printf("],\"sigs\":[");
    for (int k = 0; k < n_sigs; k++) { if (k) putchar(','); printf("{\"sig\":"); json_str(stdout, sigs[k].sig); printf(",\"count\":%ld,\"file\":", sigs[k].count); json_str(stdout, sigs[k].file); printf(",\"diag\":"); json_str(stdout, sigs[k].diag); printf("}"); }
    printf("],\"samples\":[");
    for (int s = 0; s < 3 && n_nodes > 1; s++) {
        long pick = s == 0 ? n_nodes - 1 : s == 1 ? n_nodes / 2 : n_nodes / 3; if (pick < 1) pick = 1;
        int path[MC_CTX_MAX + 8]; int d = path_of(pick, path);
        if (s) putchar(',');
        putchar('[');
        for (int i = 0; i < d; i++) { if (i) putchar(','); json_str(stdout, h->ev_name(path[i])); }
        putchar(']');
    }
    printf("]}\n");
    return 0;
}

/* ------------------------------------------------------------------ enumeration driver */
static long en_cases, en_nontrivial; static char en_samples[4][400]; static int en_nsamples; static const char *en_incomplete;

void mc_case_v(const int *v, int n)
{
    if (ctx_n > 1 && !g_is_bfs) { memcpy(prev_ctx, ctx, sizeof(int) * (size_t)ctx_n); prev_n = ctx_n; }
    /* finish the bookkeeping of a previous failed case is done in mc_case_end */
    ctx[0] = o_cfg; ctx_n = 1;
    for (int i = 0; i < n && ctx_n < MC_CTX_MAX; i++) ctx[ctx_n++] = v[i];
    failed = 0; fail_sig[0] = 0; fail_diag[0] = 0;
    in_step = 1;
}

void mc_case(int n, ...)
{
    int v[MC_CTX_MAX]; va_list ap; va_start(ap, n);
    for (int i = 0; i < n && i < MC_CTX_MAX; i++) v[i] = va_arg(ap, int);
    va_end(ap);
    mc_case_v(v, n);
}

void mc_case_end(uint64_t outcome, int nontrivial, const char *sample)
{
    in_step = 0; progress++;
    en_cases++;
    if (nontrivial) en_nontrivial++;
    if (failed && mc_opt("safety_only", 0) && strncmp(fail_sig, "safety:", 7) != 0) failed = 0;
    outcome_add(outcome ^ ((uint64_t)failed << 63));
    if (failed) record_violation(fail_sig, fail_diag);
    if (sample && en_nsamples < 4 && (en_cases == 1 || (en_cases % 9973) == 0 || failed)) snprintf(en_samples[en_nsamples++], 400, "%s", sample);
    if (mc_verbose) printf("REPLAY-RESULT sig=%s\n%s\n", failed ? fail_sig : "none", failed ? fail_diag : "");
}

void mc_note_incomplete(const char *why) { en_incomplete = why; }

int mc_enum_main(int argc, char **argv, const mc_enum *e)
{
    parse_args(argc, argv);
    t_start = now_s();
    g_prop = e->property; g_name = e->name; g_is_bfs = 0;
    setvbuf(stdout, 0, _IOLBF, 0);
    install_monitors();
    if (o_replay) {
        int v[MC_CTX_MAX + 8]; int n = read_ctx(o_replay, v, MC_CTX_MAX);
        if (n < 1) return 2;
        o_cfg = v[0]; mc_verbose = 1;
        printf("replay %s/%s cfg=%d case:", e->property, e->name, o_cfg);
        for (int i = 1; i < n; i++) printf(" %d", v[i]);
        printf("\n");
        {   /* the case that ran before the recorded one, if the file names it */
            static char buf[1 << 16]; FILE *f = fopen(o_replay, "r"); size_t m = f ? fread(buf, 1, sizeof buf - 1, f) : 0; if (f) fclose(f); buf[m] = 0;
            char *p = strstr(buf, "\"prev\""); int pv[MC_CTX_MAX + 8], k = 0;
            if (p && (p = strchr(p, '[')) != 0) { p++; while (*p && *p != ']' && k < MC_CTX_MAX) { pv[k++] = (int)strtol(p, &p, 10); while (*p == ',' || *p == ' ') p++; } }
            if (k > 1 && pv[0] == o_cfg) { printf("(previous case first)\n"); e->run_case(pv, k); }
        }
        e->run_case(v, n);
        return 0;
    }
    if (o_cfg < 0 || o_cfg >= e->n_cfg) { fprintf(stderr, "mc: cfg out of range\n"); return 2; }
    e->run_cfg(o_cfg, o_tier);
    printf("MCRESULT {\"property\":\"%s\",\"harness\":\"%s\",\"cfg\":%d,\"cfg_name\":", e->property, e->name, o_cfg);
    json_str(stdout, e->cfg_name ? e->cfg_name(o_cfg) : "");
    printf(",\"kind\":\"enum\",\"cases\":%ld,\"steps\":%ld,\"nontrivial\":%ld,\"outcomes\":%ld,\"violations\":%ld,\"complete\":%s,\"incomplete_reason\":",
           en_cases, mc_steps, en_nontrivial, n_outcomes, n_viol, (en_incomplete || deadline_flag) ? "false" : "true");
    json_str(stdout, en_incomplete ? en_incomplete : (deadline_flag ? "deadline" : ""));
    printf(",\"wall_s\":%.2f,\"sigs\":[", now_s() - t_start);
    for (int k = 0; k < n_sigs; k++) { if (k) putchar(','); printf("{\"sig\":"); json_str(stdout, sigs[k].sig); printf(",\"count\":%ld,\"file\":", sigs[k].count); json_str(stdout, sigs[k].file); printf(",\"diag\":"); json_str(stdout, sigs[k].diag); printf("}"); }
    printf("],\"samples\":[");
    for (int s = 0; s < en_nsamples; s++) { if (s) putchar(','); json_str(stdout, en_samples[s]); }
    printf("]}\n");
    return 0;
}
