/* world.c - harness-owned drivers, strong callback definitions, snapshot regions */
#include <stdio.h>
#include <stdlib.h>
#include "world.h"
#include "mc.h"

struct WObs OBS;
struct WDrv DRV;
uint32_t    W_NOW;
void (*w_lock_hook)(int lock);
void (*w_send_hook)(const WFrame *f);
void (*w_cb_hook)(uint8_t kind, uint32_t a, uint32_t b, uint32_t c);
void (*w_prehash)(int phase);

/* ------------------------------------------------------------------ regions */
#define W_MAX_REG 64
static struct { uint8_t *p; size_t n; int hashed; } REG[W_MAX_REG];
static int NREG;
static struct { uint8_t *p; size_t n; } NOH[16];
static int NNOH;

void w_regions_clear(void) { NREG = 0; NNOH = 0; }

void w_region(void *p, size_t n, int hashed)
{
    for (int i = 0; i < NREG; i++) if (REG[i].p == (uint8_t *)p && REG[i].n == n) { REG[i].hashed = hashed; return; }      /* a world that is built a second time registers the same globals again */
    if (NREG >= W_MAX_REG) { fprintf(stderr, "world: too many regions\n"); exit(2); }
    REG[NREG].p = p; REG[NREG].n = n; REG[NREG].hashed = hashed; NREG++;
}

void w_nohash_range(void *p, size_t n)
{
    for (int i = 0; i < NNOH; i++) if (NOH[i].p == (uint8_t *)p && NOH[i].n == n) return;
    if (NNOH >= 16) { fprintf(stderr, "world: too many nohash ranges\n"); exit(2); }
    NOH[NNOH].p = p; NOH[NNOH].n = n; NNOH++;
}

size_t w_snap_size(void) { size_t s = 0; for (int i = 0; i < NREG; i++) s += REG[i].n; return s; }

void w_save(uint8_t *buf)
{
    for (int i = 0; i < NREG; i++) { memcpy(buf, REG[i].p, REG[i].n); buf += REG[i].n; }
}

void w_restore(const uint8_t *buf)
{
    for (int i = 0; i < NREG; i++) { memcpy(REG[i].p, buf, REG[i].n); buf += REG[i].n; }
}

static inline uint64_t mix(uint64_t h, uint64_t w, uint64_t k)
{
    h ^= w; h *= k; h ^= h >> 29; return h;
}

void w_hash(uint64_t out[2])
{
    uint64_t a = 0x9E3779B97F4A7C15ull, b = 0xC2B2AE3D27D4EB4Full;
    uint8_t  save[16][64]; /* saved content of no-hash ranges (each <= 64 bytes) */
    if (w_prehash) w_prehash(0);
    for (int i = 0; i < NNOH; i++) {
        if (NOH[i].n > 64) { fprintf(stderr, "world: nohash range too large\n"); exit(2); }
        memcpy(save[i], NOH[i].p, NOH[i].n); memset(NOH[i].p, 0, NOH[i].n);
    }
    for (int i = 0; i < NREG; i++) {
        if (!REG[i].hashed) continue;
        const uint8_t *p = REG[i].p; size_t n = REG[i].n;
        a = mix(a, n, 0xFF51AFD7ED558CCDull); b = mix(b, n, 0xC4CEB9FE1A85EC53ull);
        while (n >= 8) { uint64_t w; memcpy(&w, p, 8); a = mix(a, w, 0xFF51AFD7ED558CCDull); b = mix(b, w, 0xC4CEB9FE1A85EC53ull); p += 8; n -= 8; }
        if (n) { uint64_t w = 0; memcpy(&w, p, n); a = mix(a, w, 0xFF51AFD7ED558CCDull); b = mix(b, w, 0xC4CEB9FE1A85EC53ull); }
    }
    for (int i = 0; i < NNOH; i++) memcpy(NOH[i].p, save[i], NOH[i].n);
    if (w_prehash) w_prehash(1);
    a ^= a >> 32; b ^= b >> 31;
    out[0] = a; out[1] = b;
}

uint64_t w_obs_hash(void)
{
    uint64_t a = 0x1234567887654321ull;
    a = mix(a, (uint64_t)OBS.ntx, 0xFF51AFD7ED558CCDull);
    for (int i = 0; i < OBS.ntx && i < W_MAX_TX; i++) {
        uint64_t w = 0; memcpy(&w, OBS.tx[i].d, 8);
        a = mix(a, ((uint64_t)OBS.tx[i].id << 8) | OBS.tx[i].dlc, 0xFF51AFD7ED558CCDull);
        a = mix(a, w, 0xFF51AFD7ED558CCDull);
    }
    a = mix(a, (uint64_t)OBS.ncb, 0xFF51AFD7ED558CCDull);
    for (int i = 0; i < OBS.ncb && i < W_MAX_CB; i++) {
        a = mix(a, ((uint64_t)OBS.cb[i].kind << 32) | OBS.cb[i].a, 0xFF51AFD7ED558CCDull);
        a = mix(a, ((uint64_t)OBS.cb[i].b << 32) | OBS.cb[i].c, 0xFF51AFD7ED558CCDull);
    }
    a = mix(a, (uint64_t)OBS.fatal * 3 + (uint64_t)OBS.ntxfail * 7, 0xFF51AFD7ED558CCDull);
    return a;
}

void w_obs_clear(void)
{
    OBS.ntx = 0; OBS.tx_lost = 0; OBS.ntxfail = 0; OBS.nrefused = 0; OBS.ncb = 0; OBS.cb_lost = 0; OBS.fatal = 0; OBS.nvm_calls = 0;
}

void w_reset(uint32_t freq)
{
    memset(&OBS, 0, sizeof OBS);
    memset(&DRV, 0, sizeof DRV);
    memset(DRV.nvm, 0xFF, sizeof DRV.nvm);
    DRV.nvm_fault_at = -1;
    DRV.freq = freq;
    W_NOW = 0;
    w_lock_hook = 0;
    w_send_hook = 0;
    w_cb_hook = 0;
    w_prehash = 0;
    W_REG(DRV);
    W_REG_NOHASH(W_NOW);
}

void w_cb(uint8_t kind, uint32_t a, uint32_t b, uint32_t c)
{
    if (OBS.ncb < W_MAX_CB) { WCb *x = &OBS.cb[OBS.ncb++]; x->kind = kind; x->a = a; x->b = b; x->c = c; }
    else OBS.cb_lost++;
    if (w_cb_hook) w_cb_hook(kind, a, b, c);
}

/* ------------------------------------------------------------------ CAN driver */
static void    DCanInit(void)            { DRV.can_active = 0; DRV.rx_pending = 0; }
static void    DCanEnable(uint32_t baud) { DRV.can_active = 1; DRV.baud = baud; }
static void    DCanReset(void)           { DRV.rx_pending = 0; DRV.can_active = 1; }
static void    DCanClose(void)           { DRV.can_active = 0; }

static int16_t DCanRead(CO_IF_FRM *frm)
{
    memset(frm, 0, sizeof *frm);
    if (DRV.rx_error) { DRV.rx_error = 0; return -1; }
    if (!DRV.rx_pending) return 0;
    DRV.rx_pending = 0;
    frm->Identifier = DRV.rx.id;
    frm->DLC = DRV.rx.dlc;
    memcpy(frm->Data, DRV.rx.d, 8);
    return (int16_t)sizeof(CO_IF_FRM);
}

static int16_t DCanSend(CO_IF_FRM *frm)
{
    WFrame f;
    if (DRV.send_fail > 0) { DRV.send_fail--; OBS.ntxfail++; return -1; }
    if (!DRV.can_active)   { OBS.ntxfail++; return -1; }
    memset(&f, 0, sizeof f);
    f.id = frm->Identifier; f.dlc = frm->DLC;
    for (int i = 0; i < 8 && i < frm->DLC; i++) f.d[i] = frm->Data[i];
    if (DRV.send_refuse_nth > 0 && --DRV.send_refuse_nth == 0) {
        if (OBS.nrefused < 4) { OBS.refused_pos[OBS.nrefused] = OBS.ntx; OBS.refused[OBS.nrefused] = f; }
        OBS.nrefused++; OBS.ntxfail++; return 0;
    }
    if (OBS.ntx < W_MAX_TX) OBS.tx[OBS.ntx] = f; else OBS.tx_lost++;
    OBS.ntx++;
    if (w_send_hook) w_send_hook(&f);
    return (int16_t)sizeof(CO_IF_FRM);
}
static const CO_IF_CAN_DRV DCan = { DCanInit, DCanEnable, DCanRead, DCanSend, DCanReset, DCanClose };

/* ------------------------------------------------------------------ timer driver (swcycle contract) */
static void     DTmrInit(uint32_t freq) { (void)freq; DRV.tcnt = 0; }
static void     DTmrStart(void)         { }
static uint8_t  DTmrUpdate(void)        { if (DRV.tcnt > 0) { DRV.tcnt--; if (DRV.tcnt == 0) return 1; } return 0; }
static uint32_t DTmrDelay(void)         { return DRV.tcnt; }
static void     DTmrReload(uint32_t r)  { DRV.tcnt = r; }
static void     DTmrStop(void)          { DRV.tcnt = 0; }
static const CO_IF_TIMER_DRV DTmr = { DTmrInit, DTmrReload, DTmrDelay, DTmrStop, DTmrStart, DTmrUpdate };

/* ------------------------------------------------------------------ NVM driver with fault injection */
static void DNvmInit(void) { }
static uint32_t nvm_count(uint32_t start, uint32_t size)
{
    uint32_t n = 0;
    if (start < W_NVM_SIZE) { n = W_NVM_SIZE - start; if (n > size) n = size; }
    if (DRV.nvm_fault_at >= 0 && DRV.nvm_callno == DRV.nvm_fault_at) {
        if ((uint32_t)DRV.nvm_fault_short >= n) n = 0; else n -= (uint32_t)DRV.nvm_fault_short;
    }
    DRV.nvm_callno++;
    OBS.nvm_calls++;
    return n;
}
static uint32_t DNvmRead(uint32_t start, uint8_t *buf, uint32_t size)
{
    uint32_t n = nvm_count(start, size);
    for (uint32_t i = 0; i < n; i++) buf[i] = DRV.nvm[start + i];
    return n;
}
static uint32_t DNvmWrite(uint32_t start, uint8_t *buf, uint32_t size)
{
    uint32_t n = nvm_count(start, size);
    for (uint32_t i = 0; i < n; i++) DRV.nvm[start + i] = buf[i];
    return n;
}
static const CO_IF_NVM_DRV DNvm = { DNvmInit, DNvmRead, DNvmWrite };

CO_IF_DRV W_IfDrv = { &DCan, &DTmr, &DNvm };

/* ------------------------------------------------------------------ driving */
void w_rx(CO_NODE *node, uint32_t id, uint8_t dlc, const uint8_t *d)
{
    memset(&DRV.rx, 0, sizeof DRV.rx);
    /* --opt longdlc=N (9..15, C01 only): a driver that hands the raw DLC code of the wire through - every full frame arrives with
     * DLC N; the data field of a CAN frame still has eight bytes */
    { static int longdlc = -1; if (longdlc < 0) longdlc = mc_opt("longdlc", 0); if (longdlc > 8 && dlc == 8) dlc = (uint8_t)longdlc; }
    DRV.rx.id = id; DRV.rx.dlc = dlc;
    for (int i = 0; i < 8; i++) DRV.rx.d[i] = (i < dlc && d) ? d[i] : 0;
    DRV.rx_pending = 1;
    CONodeProcess(node);
    DRV.rx_pending = 0;        /* a closed interface must not leave the frame queued for the next step */
    memset(&DRV.rx, 0, sizeof DRV.rx);
}

void w_rx8(CO_NODE *node, uint32_t id, uint8_t b0, uint8_t b1, uint8_t b2, uint8_t b3,
           uint8_t b4, uint8_t b5, uint8_t b6, uint8_t b7)
{
    uint8_t d[8] = { b0, b1, b2, b3, b4, b5, b6, b7 };
    w_rx(node, id, 8, d);
}

void w_tick(CO_NODE *node, int process)
{
    W_NOW++;
    (void)COTmrService(&node->Tmr);
    if (process) COTmrProcess(&node->Tmr);
}

/* ------------------------------------------------------------------ strong callbacks (override callbacks.c) */
void CONodeFatalError(void) { OBS.fatal++; }
void COTmrLock(void)   { DRV.lock_depth++; if (w_lock_hook) w_lock_hook(1); }
void COTmrUnlock(void) { DRV.lock_depth--; if (w_lock_hook) w_lock_hook(0); }
void CONmtModeChange(CO_NMT *nmt, CO_MODE mode) { (void)nmt; w_cb(CB_MODE_CHANGE, (uint32_t)mode, 0, 0); }
void CONmtResetRequest(CO_NMT *nmt, CO_NMT_RESET reset) { (void)nmt; w_cb(CB_RESET_REQ, (uint32_t)reset, 0, 0); }
void CONmtHbConsEvent(CO_NMT *nmt, uint8_t nodeId) { w_cb(CB_HB_EVENT, nodeId, 0, 0); (void)nmt; }
void CONmtHbConsChange(CO_NMT *nmt, uint8_t nodeId, CO_MODE mode) { (void)nmt; w_cb(CB_HB_CHANGE, nodeId, (uint32_t)mode, 0); }
CO_ERR COLssLoad(uint32_t *baudrate, uint8_t *nodeId)
{
    w_cb(CB_LSS_LOAD, 0, 0, 0);
    if (DRV.lss_load_fail) return CO_ERR_LSS_LOAD;
    /* documented contract of the callbacks: a value of 0 means "unchanged" */
    if (DRV.lss_has) { if (DRV.lss_baud) *baudrate = DRV.lss_baud; if (DRV.lss_node) *nodeId = DRV.lss_node; }
    return CO_ERR_NONE;
}
CO_ERR COLssStore(uint32_t baudrate, uint8_t nodeId)
{
    w_cb(CB_LSS_STORE, baudrate, nodeId, 0);
    if (DRV.lss_store_fail) return CO_ERR_LSS_STORE;
    DRV.lss_has = 1; if (baudrate) DRV.lss_baud = baudrate; if (nodeId) DRV.lss_node = nodeId;
    return CO_ERR_NONE;
}
void COIfCanReceive(CO_IF_FRM *frm) { w_cb(CB_IF_RECEIVE, frm->Identifier, frm->DLC, 0); }
void COPdoTransmit(CO_IF_FRM *frm) { w_cb(CB_PDO_TRANSMIT, frm->Identifier, frm->DLC, 0); }
int16_t COPdoReceive(CO_IF_FRM *frm) { w_cb(CB_PDO_RECEIVE, frm->Identifier, frm->DLC, 0); return (int16_t)DRV.pdo_receive_skip; }
void COPdoSyncUpdate(CO_RPDO *pdo) { w_cb(CB_PDO_SYNCUPD, pdo->Identifier, 0, 0); }
int16_t COParaDefault(struct CO_PARA_T *pg)
{
    w_cb(CB_PARA_DEFAULT, pg->Offset, pg->Size, 0);
    if (DRV.para_default_fail) return -1;
    if (pg->Default != 0 && pg->Start != 0) memcpy(pg->Start, pg->Default, pg->Size);
    return 0;
}
void CORpdoWriteData(CO_IF_FRM *frm, uint8_t pos, uint8_t size, CO_OBJ *obj) { (void)frm; w_cb(CB_RPDO_WRDATA, pos, size, obj ? obj->Key : 0); }
void COTpdoReadData(CO_IF_FRM *frm, uint8_t pos, uint8_t size, CO_OBJ *obj) { (void)frm; w_cb(CB_TPDO_RDDATA, pos, size, obj ? obj->Key : 0); }

/* ------------------------------------------------------------------ safety monitor */
const char *w_safety(int max_frames)
{
    if (OBS.fatal)               return "safety:fatal-error callback invoked";
    if (OBS.ntx > max_frames)    return "safety:too many frames sent in one step";
    if (DRV.lock_depth != 0)     return "safety:timer lock depth not balanced after step";
    return 0;
}

int w_fmt_frame(char *buf, size_t n, const WFrame *f)
{
    int k = snprintf(buf, n, "%03X#", f->id);
    for (int i = 0; i < f->dlc && i < 8 && (size_t)k < n; i++) k += snprintf(buf + k, n - (size_t)k, "%02X", f->d[i]);
    return k;
}

int w_fmt_obs(char *buf, size_t n)
{
    int k = snprintf(buf, n, "tx[%d]:", OBS.ntx);
    for (int i = 0; i < OBS.ntx && i < 6 && (size_t)k + 32 < n; i++) { buf[k++] = ' '; k += w_fmt_frame(buf + k, n - (size_t)k, &OBS.tx[i]); }
    if ((size_t)k + 16 < n) k += snprintf(buf + k, n - (size_t)k, " cb[%d]:", OBS.ncb);
    for (int i = 0; i < OBS.ncb && i < 8 && (size_t)k + 40 < n; i++)
        k += snprintf(buf + k, n - (size_t)k, " (%d,%X,%X)", OBS.cb[i].kind, OBS.cb[i].a, OBS.cb[i].b);
    return k;
}
