/* world.h - the closed world around the stack: harness-owned drivers, callback log,
 * snapshot regions.  Every source of nondeterminism of the stack is one of these seams. */
#ifndef MC_WORLD_H
#define MC_WORLD_H

#include <stdint.h>
#include <stddef.h>
#include <string.h>
#include "co_core.h"

#define W_MAX_TX   300
#define W_MAX_CB   64
#define W_NVM_SIZE 512

typedef struct { uint32_t id; uint8_t dlc; uint8_t d[8]; } WFrame;

enum { CB_MODE_CHANGE = 1, CB_RESET_REQ, CB_HB_EVENT, CB_HB_CHANGE, CB_IF_RECEIVE, CB_PDO_TRANSMIT,
       CB_PDO_RECEIVE, CB_PDO_SYNCUPD, CB_PARA_DEFAULT, CB_LSS_STORE, CB_LSS_LOAD, CB_RPDO_WRDATA,
       CB_TPDO_RDDATA, CB_TMR_ACTION, CB_CSDO_DONE, CB_USER };
typedef struct { uint8_t kind; uint32_t a, b, c; } WCb;

/* observation log of the current step (cleared by the explorer before each step; never hashed) */
struct WObs {
    int    ntx;  WFrame tx[W_MAX_TX];  int tx_lost;      /* frames the stack handed to Send (accepted) */
    int    ntxfail;                                      /* Send calls that the driver failed          */
    int    nrefused;  int refused_pos[4];  WFrame refused[4];   /* frames of Send calls refused through send_refuse_nth, with OBS.ntx at that moment */
    int    ncb;  WCb cb[W_MAX_CB];     int cb_lost;
    int    fatal;                                        /* CONodeFatalError calls                     */
    int    nvm_calls;
};
extern struct WObs OBS;

/* persistent driver state (snapshotted and hashed) */
struct WDrv {
    /* CAN */
    int       rx_pending;  WFrame rx;
    int       rx_error;                  /* next Read returns -1 */
    int       can_active;  uint32_t baud;
    int       send_fail;                 /* the next <send_fail> Send calls return -1 */
    int       send_refuse_nth;           /* k>0: the k-th Send call from now returns 0 (busy), once; the refused frame is kept in OBS.refused */
    /* timer: same contract as tests/integration/driver/drv_timer_swcycle.c */
    uint32_t  tcnt;  uint32_t freq;
    int       lock_depth;
    /* NVM */
    uint8_t   nvm[W_NVM_SIZE];
    int       nvm_fault_at;              /* k>=0: the call with running number k is short */
    int       nvm_fault_short;           /* ... by this many bytes (or all if larger)     */
    int       nvm_callno;
    /* LSS persistent store owned by the harness */
    int       lss_has;  uint32_t lss_baud;  uint8_t lss_node;
    int       lss_store_fail, lss_load_fail;
    /* PDO receive callback answer: 0 = process */
    int       pdo_receive_skip;
    int       para_default_fail;
};
extern struct WDrv DRV;

/* virtual time in ticks since w_reset (snapshotted, NOT hashed) */
extern uint32_t W_NOW;

extern CO_IF_DRV W_IfDrv;

/* --- snapshot regions --- */
void   w_region(void *p, size_t n, int hashed);
#define W_REG(x)       w_region(&(x), sizeof(x), 1)
#define W_REG_NOHASH(x) w_region(&(x), sizeof(x), 0)
void   w_regions_clear(void);            /* forget all regions (before building another world) */
size_t w_snap_size(void);
void   w_save(uint8_t *buf);
void   w_restore(const uint8_t *buf);
void   w_hash(uint64_t out[2]);
/* exclude a byte range inside a hashed region from hashing (e.g. pointers to the stack) */
void   w_nohash_range(void *p, size_t n);

void   w_reset(uint32_t freq);           /* zero OBS, DRV, time; registers DRV/time as regions */
void   w_obs_clear(void);
uint64_t w_obs_hash(void);

/* --- driving the node --- */
void   w_rx(CO_NODE *node, uint32_t id, uint8_t dlc, const uint8_t *d);  /* one frame, one CONodeProcess */
void   w_rx8(CO_NODE *node, uint32_t id, uint8_t b0, uint8_t b1, uint8_t b2, uint8_t b3,
             uint8_t b4, uint8_t b5, uint8_t b6, uint8_t b7);
void   w_tick(CO_NODE *node, int process);                               /* one COTmrService (+Process) */
void   w_cb(uint8_t kind, uint32_t a, uint32_t b, uint32_t c);

/* optional hooks the harness may set */
extern void (*w_lock_hook)(int lock);      /* called from COTmrLock(1)/COTmrUnlock(0) */
extern void (*w_send_hook)(const WFrame *f);
extern void (*w_cb_hook)(uint8_t kind, uint32_t a, uint32_t b, uint32_t c);   /* called from inside every logged application callback: the place where an application calls back into the stack */
extern void (*w_prehash)(int phase);       /* phase 0: canonicalise dead fields before hashing; phase 1: restore them */

/* safety monitor evaluated after every step: returns NULL if fine, else a static description */
const char *w_safety(int max_frames);

/* helpers */
static inline uint32_t w_get32(const uint8_t *d) { return (uint32_t)d[0] | ((uint32_t)d[1] << 8) | ((uint32_t)d[2] << 16) | ((uint32_t)d[3] << 24); }
static inline void w_put32(uint8_t *d, uint32_t v) { d[0] = (uint8_t)v; d[1] = (uint8_t)(v >> 8); d[2] = (uint8_t)(v >> 16); d[3] = (uint8_t)(v >> 24); }
int  w_fmt_frame(char *buf, size_t n, const WFrame *f);
int  w_fmt_obs(char *buf, size_t n);

#endif
