/* C20 - a reset communication (and reset node) is indistinguishable from a fresh start.
 * Metamorphic differential exploration: for every state s reached by the BFS over a mixed history alphabet,
 *   A = s ; NMT reset ;                B = pristine pre-initialisation image + the dictionary VALUES of A + NVM/LSS store ; CONodeInit ; CONodeStart
 * and for every probe sequence P the observable traces of A;P and B;P must be equal, and the timer pool occupancy of A must be
 * that of B plus the live application timers. */
#include <stdlib.h>
#include "node_common.h"

static struct { int16_t apptmr; uint8_t csdo_buf[8]; } M;
static uint8_t *S_pre, *S_cur, *S_A, *S_B;
static int PLEN = 2;

static void app_cb(void *p) { (void)p; w_cb(CB_USER, 1, 0, 0); }
static void csdo_cb(CO_CSDO *c, uint16_t idx, uint8_t sub, uint32_t code) { (void)c; w_cb(CB_CSDO_DONE, ((uint32_t)idx << 8) | sub, code, 0); }

enum { H_TICK, H_HB0, H_HB3, H_HBC_OFF, H_HBC_3, H_HBC_Y, H_SYNC_ON, H_SYNC_OFF, H_CYC2, H_CYC0, H_EMCY_DIS, H_EMCY_EN, H_TP_INV, H_TP_VAL, H_TP_EVT, H_TP_INH,
       H_HBFRAME, H_SEGDL, H_SEGUL, H_BLKDL, H_BLKUL, H_A3, H_SEG, H_CSDO_REQ, H_CSDO_RESP, H_ESET, H_ECLR, H_LSS_STORE, H_LSS_WAIT, H_START, H_STOP, H_PREOP,
       H_APP_CREATE, H_APP_DELETE, H_RPDO, H_TRIG, H_ESET9, H_LSS_SEL3, H_LSS_SEL1, H_LSS_REM3, H_SVC, H_SAVE, H_N };
static const char *const HN[] = { "tick", "SDO 1017h=0", "SDO 1017h=3", "SDO 1016h:1={9,0}", "SDO 1016h:1={9,3}", "SDO 1016h:1={10,2}", "SDO 1005h=40000080h", "SDO 1005h=80h", "SDO 1006h=2000us", "SDO 1006h=0",
       "SDO 1014h disable", "SDO 1014h enable", "SDO 1800h:1 invalid", "SDO 1800h:1 valid", "SDO 1800h:5=2", "SDO 1800h:3=20", "heartbeat of node 9", "open segmented download", "open segmented upload", "open block download",
       "open block upload", "block upload start", "download segment", "SDO client request", "SDO client response", "COEmcySet(2)", "COEmcyClr(2)", "LSS configure node-id 7 + store", "LSS switch waiting", "NMT start", "NMT stop", "NMT pre-op",
       "app timer create", "app timer delete", "RPDO frame", "COTPdoTrigPdo(0)", "COEmcySet(9)", "LSS selective: vendor, product, revision (matching)", "LSS selective: vendor (matching)", "LSS identify remote slave: vendor, product, revision low (matching)", "tick: interrupt part only (elapsed timers wait for their processing step)", "SDO 1010h:1='save'" };

static const char *cfg_name(int c) { return c == 0 ? "reset communication" : c == 1 ? "reset node" : c == 2 ? "reset communication, OPERATIONAL" : c == 3 ? "reset node, producer config" :
                                            c == 4 ? "reset node, 1017h in a stored communication parameter group" : "reset communication, 1017h in a stored communication parameter group"; }
static int PARA;
static int RESET_CS;
/* --opt cbreset=1: the reset under test is not an NMT frame - the application resets the node from inside its heartbeat-consumer event callback
 * (the usual reaction to a lost heartbeat); histories without a running monitor have no such callback and are not judged */
static int CBRESET, cb_armed, cb_fired;
static void c20_cb_hook(uint8_t kind, uint32_t a, uint32_t b, uint32_t c)
{
    (void)a; (void)b; (void)c;
    if (kind == CB_HB_EVENT && cb_armed) { cb_armed = 0; cb_fired = 1; CONmtReset(&Node.Nmt, RESET_CS == 129 ? CO_RESET_NODE : CO_RESET_COM); }
}

static int SRV1;      /* --opt srv=1 (build with CO_SSDO_N=2): all SDO traffic of the histories and of the probes runs over the second server (640h/5C0h + node id) */
static int build(int cfg)
{
    nc_defaults();
    NC.hbprod = 1; NC.hb_time = 2;
    NC.n_hbc = 2; NC.hbc[0].node = 9; NC.hbc[0].time = 2; NC.hbc[1].node = 0; NC.hbc[1].time = 0;
    NC.sync = 1; NC.sync_id = cfg == 3 ? 0x40000080u : 0x80; NC.sync_cycle = cfg == 3 ? 3000 : 0;
    NC.emcy = 1; NC.emcy_id = 0x81;
    NC.n_rpdo = 1; NC.rpdo[0].present = 1; NC.rpdo[0].cobid = 0x201; NC.rpdo[0].type = 255; NC.rpdo[0].nmap = 1; NC.rpdo[0].map[0] = NC_MAP(0x2110, 0, 8);
    NC.n_tpdo = 2; NC.tpdo[0].present = 1; NC.tpdo[0].cobid = 0x40000181u; NC.tpdo[0].type = 254; NC.tpdo[0].nmap = 1; NC.tpdo[0].map[0] = NC_MAP(0x2100, 0, 8);
    NC.tpdo[1].present = 1; NC.tpdo[1].cobid = 0x40000281u; NC.tpdo[1].type = 1; NC.tpdo[1].nmap = 1; NC.tpdo[1].map[0] = NC_MAP(0x2111, 0, 16);
    /* transmission type 0: the value the freshly cleared SYNC tables hold as well */
    NC.n_tpdo = 3; NC.tpdo[2].present = 1; NC.tpdo[2].cobid = 0x40000381u; NC.tpdo[2].type = 0; NC.tpdo[2].nmap = 1; NC.tpdo[2].map[0] = NC_MAP(0x2110, 0, 8);
    NC.csdo = 1;
    SRV1 = mc_opt("srv", 0); if (SRV1) NC.sdo_srv = 2;
    NC.operational = (cfg == 2);
    RESET_CS = (cfg == 1 || cfg == 3 || cfg == 4) ? 129 : 130;
    CBRESET = mc_opt("cbreset", 0);
    /* cfg 4, 5: the heartbeat time lives in a parameter group that "save" writes to NVM: RAM and NVM can differ at the reset, and a
     * fresh start loads the NVM image - so must the reset (both kinds: reset node passes through reset communication) */
    PARA = NC.para = (cfg >= 4);
    PLEN = mc_opt("plen", 2);
    nc_prepare();
    memset(&M, 0, sizeof M); M.apptmr = -1;
    W_REG(M);
    if (!S_pre) { size_t n = w_snap_size(); S_pre = malloc(n); S_cur = malloc(n); S_A = malloc(n); S_B = malloc(n); }
    w_save(S_pre);
    nc_start();
    (void)CONodeGetErr(&Node);
    return PARA ? H_N : H_N - 1;      /* the last event needs the parameter group */
}
static const char *ev_name(int e) { return HN[e]; }

#define SDO_RXID ((SRV1 ? 0x640u : 0x600u) + Node.NodeId)
static void sdo8(uint8_t c, uint16_t idx, uint8_t sub, uint32_t v) { if ((c & 0xE3) == 0x23 && (c & 0x0C)) { int n = (c >> 2) & 3; v = (v & (0xFFFFFFFFu >> (8 * n))) | (0xC35AA500u << (8 * (3 - n))); }   /* unused bytes of an expedited download are not zero */
    w_rx8(&Node, SDO_RXID, c, (uint8_t)idx, (uint8_t)(idx >> 8), sub, (uint8_t)v, (uint8_t)(v >> 8), (uint8_t)(v >> 16), (uint8_t)(v >> 24)); }

static int step(int e)
{
    uint8_t d[8] = { 0 }; CO_MODE mode = CONmtGetMode(&Node.Nmt);
    int sdo_ok = (mode == CO_PREOP || mode == CO_OPERATIONAL);
    if (!sdo_ok && ((e >= H_HB0 && e <= H_TP_INH) || (e >= H_SEGDL && e <= H_SEG))) return MC_SKIP;
    switch (e) {
    case H_TICK: w_tick(&Node, 1); break;
    case H_SVC: w_tick(&Node, 0); break;          /* the reset may fall between COTmrService and COTmrProcess: timers that have elapsed but not run belong to the old life of the node, too */
    case H_HB0: sdo8(0x2B, 0x1017, 0, 0); break;
    case H_HB3: sdo8(0x2B, 0x1017, 0, 3); break;
    case H_HBC_OFF: sdo8(0x23, 0x1016, 1, (9u << 16) | 0); break;
    case H_HBC_3: sdo8(0x23, 0x1016, 1, (9u << 16) | 3); break;
    case H_HBC_Y: sdo8(0x23, 0x1016, 2, (10u << 16) | 2); break;
    case H_SYNC_ON: sdo8(0x23, 0x1005, 0, 0x40000080u); break;
    case H_SYNC_OFF: sdo8(0x23, 0x1005, 0, 0x80u); break;
    case H_CYC2: sdo8(0x23, 0x1006, 0, 2000); break;
    case H_CYC0: sdo8(0x23, 0x1006, 0, 0); break;
    case H_EMCY_DIS: sdo8(0x23, 0x1014, 0, 0x80000081u); break;
    case H_EMCY_EN: sdo8(0x23, 0x1014, 0, 0x81u); break;
    case H_TP_INV: sdo8(0x23, 0x1800, 1, 0xC0000181u); break;
    case H_TP_VAL: sdo8(0x23, 0x1800, 1, 0x40000181u); break;
    case H_TP_EVT: sdo8(0x2B, 0x1800, 5, 2); break;
    case H_TP_INH: sdo8(0x2B, 0x1800, 3, 20); break;
    case H_HBFRAME: d[0] = 5; w_rx(&Node, 0x709, 1, d); break;
    case H_SEGDL: sdo8(0x21, 0x2130, 0, 20); break;
    case H_SEGUL: sdo8(0x40, 0x2130, 0, 0); break;
    case H_BLKDL: sdo8(0xC2, 0x2130, 0, 20); break;
    case H_BLKUL: sdo8(0xA0, 0x2130, 0, 2); break;
    case H_A3: sdo8(0xA3, 0, 0, 0); break;
    case H_SEG: w_rx8(&Node, SDO_RXID, 0x00, 1, 2, 3, 4, 5, 6, 7); break;
    case H_CSDO_REQ: { CO_CSDO *c = COCSdoFind(&Node, 0); if (!c) return MC_SKIP; (void)COCSdoRequestUpload(c, CO_DEV(0x2000, 0), M.csdo_buf, 4, csdo_cb, 5); break; }
    case H_CSDO_RESP: w_rx8(&Node, 0x585, 0x43, 0x00, 0x20, 0x00, 1, 2, 3, 4); break;
    /* two emergencies in different status bytes (errors 2 and 9): "emergencies cleared" must hold for every set of pending errors */
    case H_ESET: COEmcySet(&Node.Emcy, 2, 0); break;
    case H_ECLR: COEmcyClr(&Node.Emcy, 2); break;
    case H_ESET9: COEmcySet(&Node.Emcy, 9, 0); break;
    /* three of the four frames of a selective switch (identity 1018h = 1,2,3,4): a fresh node has nothing in progress */
    case H_LSS_SEL1: memset(d, 0, 8); d[0] = 0x40; d[1] = 1; w_rx(&Node, 0x7E5, 8, d); break;
    case H_LSS_REM3: for (int k = 0; k < 3; k++) { memset(d, 0, 8); d[0] = (uint8_t)(0x46 + k); d[1] = (uint8_t)(1 + k); w_rx(&Node, 0x7E5, 8, d); } break;      /* services 70, 71, 72 of the six-frame identify sequence */
    case H_LSS_SEL3: for (int k = 0; k < 3; k++) { memset(d, 0, 8); d[0] = (uint8_t)(0x40 + k); d[1] = (uint8_t)(1 + k); w_rx(&Node, 0x7E5, 8, d); } break;
    case H_LSS_STORE: d[0] = 4; d[1] = 1; w_rx(&Node, 0x7E5, 8, d); d[0] = 17; d[1] = 7; w_rx(&Node, 0x7E5, 8, d); d[0] = 23; d[1] = 0; w_rx(&Node, 0x7E5, 8, d); break;
    case H_LSS_WAIT: d[0] = 4; d[1] = 0; w_rx(&Node, 0x7E5, 8, d); break;
    case H_START: nc_nmt(1, 0); break;
    case H_STOP: nc_nmt(2, 0); break;
    case H_PREOP: nc_nmt(128, 0); break;
    case H_APP_CREATE: if (M.apptmr >= 0) return MC_SKIP; M.apptmr = COTmrCreate(&Node.Tmr, 1, 2, app_cb, 0); if (M.apptmr < 0) { M.apptmr = -1; return MC_SKIP; } break;
    case H_APP_DELETE: if (M.apptmr < 0) return MC_SKIP; (void)COTmrDelete(&Node.Tmr, M.apptmr); M.apptmr = -1; break;
    case H_RPDO: d[0] = 0x3C; w_rx(&Node, 0x201, 1, d); break;
    case H_TRIG: COTPdoTrigPdo(Node.TPdo, 0); break;
    case H_SAVE: if (!sdo_ok) return MC_SKIP; sdo8(0x23, 0x1010, 1, 0x65766173u); break;
    default: break;
    }
    (void)CONodeGetErr(&Node);
    (void)CONmtGetHbEvents(&Node.Nmt, 9); (void)CONmtGetHbEvents(&Node.Nmt, 10);
    return MC_OK;
}

/* ------------------------------------------------------------------ probes */
enum { P_RD_HB, P_RD_HBC, P_RD_SYNC, P_SYNC, P_HBFRAME, P_RPDO, P_START, P_LSS, P_CSDO, P_TICKS, P_SEGUL, P_EMCY, P_TRIG, P_WRRD, P_LSS_SERIAL, P_LSS_SEL_REST, P_LSS_REM_REST, P_N };
static const char *const PN[] = { "SDO read 1017h", "SDO read 1016h:1", "SDO read 1005h", "SYNC", "heartbeat of node 9", "RPDO frame", "NMT start", "LSS switch configuration + inquire node-id", "SDO client request + response",
    "4 ticks", "segmented upload of a domain", "COEmcySet(9), COEmcySet(1)", "COTPdoTrigPdo(0)", "SDO write + read 2120h", "LSS selective serial number (matching) + inquire node-id", "LSS selective product, revision, serial (matching)", "LSS identify remote slave: revision high, serial low, serial high (matching)" };

static char  T_txt[2][1500]; static int T_len[2]; static uint64_t T_hash[2];
static void t_add(int w, const char *fmt, ...) __attribute__((format(printf, 2, 3)));
#include <stdarg.h>
static void t_add(int w, const char *fmt, ...)
{
    char b[160]; va_list ap; va_start(ap, fmt); int n = vsnprintf(b, sizeof b, fmt, ap); va_end(ap);
    for (int i = 0; i < n; i++) T_hash[w] = (T_hash[w] ^ (unsigned char)b[i]) * 0x100000001B3ull;
    if (T_len[w] + n + 1 < (int)sizeof T_txt[w]) { memcpy(T_txt[w] + T_len[w], b, (size_t)n + 1); T_len[w] += n; }
}
static void t_obs(int w, int sub)
{
    for (int i = 0; i < OBS.ntx && i < W_MAX_TX; i++) { char f[40]; w_fmt_frame(f, sizeof f, &OBS.tx[i]); t_add(w, "[%d]%s ", sub, f); }
    for (int i = 0; i < OBS.ncb && i < W_MAX_CB; i++) if (OBS.cb[i].kind != CB_USER) t_add(w, "[%d]cb(%d,%X,%X) ", sub, OBS.cb[i].kind, OBS.cb[i].a, OBS.cb[i].b);
    if (OBS.fatal) t_add(w, "FATAL ");
    w_obs_clear();
}

static void run_probe(int w, int p)
{
    uint8_t d[8] = { 0 };
    t_add(w, "<%s: ", PN[p]);
    w_obs_clear();
    switch (p) {
    case P_RD_HB: sdo8(0x40, 0x1017, 0, 0); break;
    case P_RD_HBC: sdo8(0x40, 0x1016, 1, 0); break;
    case P_RD_SYNC: sdo8(0x40, 0x1005, 0, 0); break;
    case P_SYNC: w_rx(&Node, 0x80, 0, d); break;
    case P_HBFRAME: d[0] = 5; w_rx(&Node, 0x709, 1, d); break;
    case P_RPDO: d[0] = 0x99; w_rx(&Node, 0x201, 1, d); t_add(w, "P8=%02X ", P8); break;
    case P_START: nc_nmt(1, 0); break;
    case P_LSS: d[0] = 4; d[1] = 1; w_rx(&Node, 0x7E5, 8, d); d[0] = 0x5E; d[1] = 0; w_rx(&Node, 0x7E5, 8, d); break;
    case P_CSDO: { CO_CSDO *c = COCSdoFind(&Node, 0); CO_ERR e = c ? COCSdoRequestUpload(c, CO_DEV(0x2001, 0), M.csdo_buf, 4, csdo_cb, 5) : CO_ERR_BAD_ARG; t_add(w, "req=%d ", e != CO_ERR_NONE);
        t_obs(w, 0); w_rx8(&Node, 0x585, 0x43, 0x01, 0x20, 0x00, 9, 8, 7, 6); break; }
    case P_TICKS: for (int k = 0; k < 4; k++) { w_tick(&Node, 1); t_obs(w, k); } break;
    case P_SEGUL: sdo8(0x40, 0x2130, 0, 0); t_obs(w, 0); sdo8(0x60, 0, 0, 0); break;
    case P_EMCY: COEmcySet(&Node.Emcy, 9, 0); t_obs(w, 0); COEmcySet(&Node.Emcy, 1, 0); break;
    case P_TRIG: COTPdoTrigPdo(Node.TPdo, 0); break;
    case P_WRRD: sdo8(0x23, 0x2120, 0, 0xA1B2C3D4u); t_obs(w, 0); sdo8(0x40, 0x2120, 0, 0); break;
    /* the rest of a multi-frame LSS sequence: a fresh node has not seen its beginning and must not complete it */
    case P_LSS_SEL_REST: for (int k = 1; k < 4; k++) { memset(d, 0, 8); d[0] = (uint8_t)(0x40 + k); d[1] = (uint8_t)(1 + k); w_rx(&Node, 0x7E5, 8, d); t_obs(w, 0); } break;
    case P_LSS_REM_REST: for (int k = 3; k < 6; k++) { memset(d, 0, 8); d[0] = (uint8_t)(0x46 + k); d[1] = (uint8_t)(k == 3 ? 3 : 4); w_rx(&Node, 0x7E5, 8, d); t_obs(w, 0); } break;
    case P_LSS_SERIAL: d[0] = 0x43; d[1] = 4; w_rx(&Node, 0x7E5, 8, d); t_obs(w, 0); memset(d, 0, 8); d[0] = 0x5E; w_rx(&Node, 0x7E5, 8, d); break;
    default: break;
    }
    t_obs(w, 9);
    t_add(w, "mode=%d id=%d emcy=%d reg=%02X> ", CONmtGetMode(&Node.Nmt), Node.NodeId, COEmcyCnt(&Node.Emcy), ErrReg);
    (void)CONodeGetErr(&Node);
}

static int used_timers(void) { int n = 0; CO_TMR_ACTION *a = Node.Tmr.Acts; while (a && n <= NC_TMR) { n++; a = a->Next; } return NC.tmr_n - n; }

static void probe(void)
{
    int usedA, usedB, app;
    w_save(S_cur);
    /* ---- A: the reset ---- */
    w_obs_clear();
    if (CBRESET) {
        w_cb_hook = c20_cb_hook; cb_armed = 1; cb_fired = 0;
        for (int k = 0; k < 6 && !cb_fired; k++) w_tick(&Node, 1);
        cb_armed = 0; w_cb_hook = 0;
        if (!cb_fired) { w_restore(S_cur); return; }
    } else
    nc_nmt((uint8_t)RESET_CS, 0);
    if (CONmtGetMode(&Node.Nmt) == CO_INIT || CONmtGetMode(&Node.Nmt) == CO_INVALID) { w_restore(S_cur); return; }   /* NMT commands are not served (not started): nothing to compare */
    (void)CONodeGetErr(&Node);
    w_obs_clear();
    app = M.apptmr >= 0 ? 1 : 0;
    usedA = used_timers();
    w_save(S_A);
    /* ---- B: fresh node with the dictionary values of A ---- */
    {
        uint16_t hb = HbTime; struct { uint16_t t; uint8_t n; } hc[4]; uint32_t sid = SyncId, scy = SyncCycle, eid = EmcyId; uint8_t er = ErrReg;
        uint32_t rc[4], tc[4], rm[4][8], tm[4][8]; uint8_t rt[4], tt[4], rn[4], tn[4]; uint16_t ti[4], te[4];
        uint8_t a8 = A8, p8 = P8, b8[8]; uint16_t a16 = A16, p16 = P16, w16[4]; uint32_t a32 = A32, p32 = P32, n32 = N32, r32 = R32, w32 = W32, ctx = CsdoCobTx, crx = CsdoCobRx; uint8_t cn = CsdoNode, dom[20];
        static CO_OBJ od[NC_OD_MAX]; static uint8_t nvm[W_NVM_SIZE]; int lh = DRV.lss_has; uint32_t lb = DRV.lss_baud; uint8_t ln = DRV.lss_node;
        for (int i = 0; i < 4; i++) { hc[i].t = Hbc[i].Time; hc[i].n = Hbc[i].NodeId; }
        memcpy(rc, RpCob, sizeof rc); memcpy(tc, TpCob, sizeof tc); memcpy(rm, RpMap, sizeof rm); memcpy(tm, TpMap, sizeof tm); memcpy(rt, RpType, 4); memcpy(tt, TpType, 4); memcpy(rn, RpNum, 4); memcpy(tn, TpNum, 4);
        memcpy(ti, TpInh, sizeof ti); memcpy(te, TpEvt, sizeof te); memcpy(b8, B8, 8); memcpy(w16, W16, sizeof w16); memcpy(dom, DomData, 20); memcpy(od, OD, sizeof od); memcpy(nvm, DRV.nvm, sizeof nvm);
        w_restore(S_pre);
        HbTime = hb; for (int i = 0; i < 4; i++) { Hbc[i].Time = hc[i].t; Hbc[i].NodeId = hc[i].n; } SyncId = sid; SyncCycle = scy; EmcyId = eid; (void)er;      /* the error register 1001h is state, not configuration: a fresh node has no emergency and reads 0 */
        memcpy(RpCob, rc, sizeof rc); memcpy(TpCob, tc, sizeof tc); memcpy(RpMap, rm, sizeof rm); memcpy(TpMap, tm, sizeof tm); memcpy(RpType, rt, 4); memcpy(TpType, tt, 4); memcpy(RpNum, rn, 4); memcpy(TpNum, tn, 4);
        memcpy(TpInh, ti, sizeof ti); memcpy(TpEvt, te, sizeof te); A8 = a8; P8 = p8; memcpy(B8, b8, 8); A16 = a16; P16 = p16; memcpy(W16, w16, sizeof w16); A32 = a32; P32 = p32; N32 = n32; R32 = r32; W32 = w32;
        CsdoCobTx = ctx; CsdoCobRx = crx; CsdoNode = cn; memcpy(DomData, dom, 20);
        for (int i = 0; i < NC_OD_MAX; i++) OD[i].Data = od[i].Data;       /* direct entries keep their value in the Data word */
        memcpy(DRV.nvm, nvm, sizeof nvm); DRV.lss_has = lh; DRV.lss_baud = lb; DRV.lss_node = ln;
        NC.operational = 0;
        nc_start();
        (void)CONodeGetErr(&Node);
        w_obs_clear();
        M.apptmr = -1;
        usedB = used_timers();
        w_save(S_B);
    }
    if (usedA != usedB + app) { mc_fail("reset-timer-occupancy", "after the reset %d timer slot(s) are in use, a fresh node uses %d (+%d live application timer)", usedA, usedB, app); w_restore(S_cur); return; }
    /* ---- probe sequences ---- */
    {
        int np = P_N, total = 1, seq[3];
        for (int l = 0; l < PLEN; l++) total *= np;
        for (int len = 1, cnt = np; len <= PLEN; len++, cnt *= np) for (int s = 0; s < cnt; s++) {
            int x = s; for (int l = 0; l < len; l++) { seq[l] = x % np; x /= np; }
            for (int w = 0; w < 2; w++) { w_restore(w ? S_B : S_A); w_obs_clear(); T_len[w] = 0; T_txt[w][0] = 0; T_hash[w] = 14695981039346656037ull; for (int l = 0; l < len; l++) run_probe(w, seq[l]); }
            if (T_hash[0] != T_hash[1] || strcmp(T_txt[0], T_txt[1])) {
                int k = 0; while (T_txt[0][k] && T_txt[0][k] == T_txt[1][k]) k++; int from = k > 60 ? k - 60 : 0;
                mc_fail("reset-differs-from-fresh", "after NMT cs %d the node does not behave like a fresh one; probes %s%s%s%s%s: after reset ...%.200s | fresh ...%.200s", RESET_CS, PN[seq[0]], len > 1 ? " ; " : "", len > 1 ? PN[seq[1]] : "", len > 2 ? " ; " : "", len > 2 ? PN[seq[2]] : "", T_txt[0] + from, T_txt[1] + from);
                w_restore(S_cur); return; }
        }
        (void)total;
    }
    w_restore(S_cur);
}

static const mc_harness H = { "C20", "c20", 6, cfg_name, build, ev_name, step, 8, 3, probe };
int main(int argc, char **argv) { return mc_main(argc, argv, &H); }
