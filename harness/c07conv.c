/* C07 (conversion part) - COTmrGetTicks is monotonic in time and exact whenever time*freq/unit is an
 * integer that fits 32 bit.  Exhaustive over time 0..65535 x unit x a listed set of frequencies. */
#include <stdio.h>
#include "mc.h"
#include "world.h"

static const uint32_t FREQ[] = { 1, 10, 50, 100, 300, 1000, 1024, 10000, 32768, 1000000, 16000000, 100000000u, 4000000000u };
static const uint32_t UNIT[] = { CO_TMR_UNIT_1MS, CO_TMR_UNIT_100US };
#define NF ((int)(sizeof FREQ / sizeof FREQ[0]))

static CO_TMR Tmr;

static void one(int f, int u, int time, uint32_t *prev)
{
    Tmr.Freq = FREQ[f];
    uint32_t t = COTmrGetTicks(&Tmr, (uint16_t)time, UNIT[u]);
    uint64_t num = (uint64_t)(uint32_t)time * FREQ[f];
    mc_steps++;
    if (t < *prev)
        mc_fail("ticks-not-monotonic", "freq=%u unit=%u: ticks(%d)=%u < ticks(%d)=%u", FREQ[f], UNIT[u], time, t, time - 1, *prev);
    if (num % UNIT[u] == 0 && num / UNIT[u] <= 0xFFFFFFFFull && t != (uint32_t)(num / UNIT[u]))
        mc_fail("ticks-not-exact", "freq=%u unit=%u time=%d is exactly %llu ticks but the conversion returns %u", FREQ[f], UNIT[u], time,
                (unsigned long long)(num / UNIT[u]), t);
    mc_log("freq=%u unit=%u time=%d -> %u ticks (prev %u)\n", FREQ[f], UNIT[u], time, t, *prev);
    *prev = t;
}

static void run_cfg(int cfg, int tier)
{
    (void)cfg; (void)tier;
    for (int f = 0; f < NF; f++) for (int u = 0; u < 2; u++) {
        uint32_t prev = 0;
        for (int time = 0; time <= 65535; time++) {
            char s[96];
            mc_case(3, f, u, time);
            uint32_t before = prev;
            one(f, u, time, &prev);
            snprintf(s, sizeof s, "freq=%u unit=%u time=%d -> %u", FREQ[f], UNIT[u], time, prev);
            mc_case_end(((uint64_t)prev << 1) ^ (uint64_t)(f * 2 + u), prev != before, s);
        }
    }
}

static void run_case(const int *ctx, int n)
{
    if (n < 4) return;
    uint32_t prev = 0;
    mc_case(3, ctx[1], ctx[2], ctx[3]);
    if (ctx[3] > 0) { Tmr.Freq = FREQ[ctx[1]]; prev = COTmrGetTicks(&Tmr, (uint16_t)(ctx[3] - 1), UNIT[ctx[2]]); }
    one(ctx[1], ctx[2], ctx[3], &prev);
    mc_case_end(0, 1, 0);
}

static const char *cfg_name(int c) { (void)c; return "all"; }
static const mc_enum E = { "C07", "c07conv", 1, cfg_name, run_cfg, run_case };
int main(int argc, char **argv) { return mc_enum_main(argc, argv, &E); }
