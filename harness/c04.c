/* C04 / C05 / C01(sdo) - BFS over the full SDO command alphabet against the real server(s), lockstep
 * with the reference server (allowed-set oracle).  With -DC05_PROBE every discovered state is additionally
 * probed: [client abort; clean transfer T] must behave exactly as on a freshly initialised node. */
#include <stdlib.h>
#include "sdo_common.h"

#define MAXEV 900
static uint8_t EV[MAXEV][8]; static uint8_t EVSRV[MAXEV], EVDLC[MAXEV]; static int NEV;

static void add_s(int srv, uint8_t cmd, uint16_t idx, uint8_t sub, uint32_t v)
{
    uint8_t f[8] = { cmd, (uint8_t)idx, (uint8_t)(idx >> 8), sub, 0, 0, 0, 0 };
    w_put32(f + 4, v);
    for (int i = 0; i < NEV; i++) if (EVSRV[i] == srv && !memcmp(EV[i], f, 8)) return;
    if (NEV >= MAXEV) { fprintf(stderr, "c04: alphabet too large\n"); exit(2); }
    memcpy(EV[NEV], f, 8); EVSRV[NEV] = (uint8_t)srv; EVDLC[NEV] = 8; NEV++;
}
static void add(uint8_t cmd, uint16_t idx, uint8_t sub, uint32_t v) { add_s(0, cmd, idx, sub, v); }

static const char *cfg_name(int c) { return c == 0 ? "PRE-OPERATIONAL" : "OPERATIONAL"; }

static void build_alphabet(void)
{
    static const struct { uint16_t idx; uint8_t sub; uint32_t size; } EXTRA[] = { {0x2FFF, 0, 0}, {0xA030, 2, 0}, {0x1000, 0, 4}, {0x0000, 0, 0}, {0x1FFF, 0, 0} };
    int small = mc_opt("small", 0);
    NEV = 0;
    for (int c = 0; c < 256; c++) {
        if (small) {   /* representative command bytes: segments (t,n,c), block sequence numbers around the block size, every sub-command once */
            static const uint8_t KEEP[] = { 0x00, 0x01, 0x02, 0x03, 0x04, 0x05, 0x08, 0x09, 0x0E, 0x0F, 0x10, 0x11, 0x18, 0x19, 0x1E, 0x1F, 0x20, 0x21, 0x22, 0x23, 0x2F, 0x30, 0x40, 0x41, 0x50,
                0x60, 0x61, 0x70, 0x7F, 0x80, 0x81, 0x82, 0x83, 0x84, 0x90, 0xA0, 0xA1, 0xA2, 0xA3, 0xA4, 0xB0, 0xC0, 0xC1, 0xC2, 0xC5, 0xC6, 0xD9, 0xDD, 0xE0, 0xFF };
            int keep = 0; for (unsigned k = 0; k < sizeof KEEP; k++) if (KEEP[k] == c) keep = 1;
            if (!keep) continue;
        }
        int isinit = ((c & 0xE0) == 0x20) || ((c & 0xE0) == 0x40) || ((c & 0xE1) == 0xC0) || ((c & 0xE3) == 0xA0);
        if (isinit) add((uint8_t)c, 0x2002, 0, 4);
        else add((uint8_t)c, 0x5A5A, 0x5A, 0x5A5A5A5A);          /* segments carry a uniform payload: content then depends on the length only */
    }
    for (int t = 0; t < O_N + 5; t++) {
        uint16_t idx = t < O_N ? OBJ[t].idx : EXTRA[t - O_N].idx; uint8_t sub = t < O_N ? OBJ[t].sub : EXTRA[t - O_N].sub;
        uint32_t S = t < O_N ? OBJ[t].size : EXTRA[t - O_N].size;
#if CO_SSDO_N > 1
        if (idx == 0x2011 || idx == 0x2001) continue;            /* reserved for the second server: one object cannot serve two concurrent streams (single offset) */
#endif
        add(0x40, idx, sub, 0);
        if (S >= 1 && S <= 4) add((uint8_t)(0x23 | ((4 - S) << 2)), idx, sub, 5);
        if (S >= 1 && S <  4) add((uint8_t)(0x23 | ((4 - S - 1) << 2)), idx, sub, 5);
        if (S >= 2 && S <= 5) add((uint8_t)(0x23 | ((4 - (S - 1)) << 2)), idx, sub, 5);
        if (S == 0 || S > 4)  add(0x23, idx, sub, 5);
        if (t == O_RANGE || t == O_USER) add(0x23, idx, sub, 200);
        add(0x22, idx, sub, 5);
        add(0x21, idx, sub, S ? S : 4); add(0x21, idx, sub, S + 1); if (S > 1) add(0x21, idx, sub, S - 1);
        add(0x20, idx, sub, 0);
        add(0xC2, idx, sub, S ? S : 4); add(0xC2, idx, sub, S + 1); add(0xC0, idx, sub, 0);
        add(0xA0, idx, sub, 1); add(0xA0, idx, sub, 2); add(0xA0, idx, sub, CO_SDO_BUF_SEG); add(0xA0, idx, sub, 127);
    }
    add(0xA0, 0x2012, 0, 0); add(0xA0, 0x2012, 0, 128); add(0xA0, 0x2012, 0, 0x0100 | 3); add(0xA4, 0x2012, 0, 3);
    add(0x21, 0x2012, 0, 0); add(0x21, 0x2012, 0, 0xFFFFFFFF); add(0xC2, 0x2012, 0, 0); add(0xC2, 0x2012, 0, 0xFFFFFFFF); add(0xC6, 0x2012, 0, SDO_DS2);
    {   /* block acknowledges: A2 ackseq blksize */
        static const uint8_t ACK[] = { 0, 1, 2, 3, 4, CO_SDO_BUF_SEG, CO_SDO_BUF_SEG + 1, 0xFF }, BS[] = { 0, 1, 2, CO_SDO_BUF_SEG, 127, 128 };
        for (unsigned a = 0; a < sizeof ACK; a++) for (unsigned b = 0; b < sizeof BS; b++) add(0xA2, (uint16_t)(ACK[a] | (BS[b] << 8)), 0, 0);
    }
    if (mc_opt("csdo", 0)) {    /* the COB-IDs of SDO client 0 are written through the server: switched off, on again, read (they share a type function with 1200h) */
        add(0x23, 0x1280, 1, 0x8000060A); add(0x23, 0x1280, 1, 0x0000060A); add(0x23, 0x1280, 2, 0x8000058A); add(0x23, 0x1280, 2, 0x0000058A); add(0x40, 0x1280, 1, 0);
    }
    if (mc_opt("dlc", 0)) {     /* C01: truncated frames (only the safety monitor judges them) */
        static const uint8_t C[] = { 0x40, 0x23, 0x21, 0x00, 0x01, 0x60, 0xA0, 0xA3, 0xA2, 0xC2, 0xC1, 0x80, 0x81 }, D[] = { 0, 1, 4, 7 };
        for (unsigned c = 0; c < sizeof C; c++) for (unsigned k = 0; k < sizeof D; k++) {
            if (NEV >= MAXEV) break;
            uint8_t f[8] = { C[c], 0x12, 0x20, 0x00, 30, 0, 0, 0 }; for (int i = D[k]; i < 8; i++) f[i] = 0;
            memcpy(EV[NEV], f, 8); EVSRV[NEV] = 0; EVDLC[NEV] = D[k]; NEV++;
        }
    }
#if CO_SSDO_N > 1
    if (mc_opt("csdo", 0)) for (int on = 0; on < 2; on++) {   /* the application switches the second server off and on again through 1201h:1 (EVDLC 0xFE marks the API event) */
        if (NEV >= MAXEV) break;
        memset(EV[NEV], 0, 8); EV[NEV][0] = (uint8_t)on; EVSRV[NEV] = 1; EVDLC[NEV] = 0xFE; NEV++;
    }
    add_s(1, 0x40, 0x2011, 0, 0); add_s(1, 0x40, 0x2001, 0, 0); add_s(1, 0x60, 0x5A5A, 0x5A, 0x5A5A5A5A); add_s(1, 0x70, 0x5A5A, 0x5A, 0x5A5A5A5A); add_s(1, 0x80, 0, 0, 0);
    add_s(1, 0x2B, 0x2001, 0, 9); add_s(1, 0x21, 0x2011, 0, SDO_DS1); add_s(1, 0x00, 0x5A5A, 0x5A, 0x5A5A5A5A); add_s(1, 0x10, 0x5A5A, 0x5A, 0x5A5A5A5A);
    add_s(1, 0x09, 0x5A5A, 0x5A, 0x5A5A5A5A); add_s(1, 0x19, 0x5A5A, 0x5A, 0x5A5A5A5A); add_s(1, 0xC2, 0x2011, 0, SDO_DS1); add_s(1, 0x01, 0x5A5A, 0x5A, 0x5A5A5A5A); add_s(1, 0x82, 0x5A5A, 0x5A, 0x5A5A5A5A);
    add_s(1, 0xD1, 0, 0, 0); add_s(1, 0xA0, 0x2011, 0, 2); add_s(1, 0xA3, 0, 0, 0); add_s(1, 0xA2, 0x0202, 0, 0); add_s(1, 0xA2, 0x0201, 0, 0); add_s(1, 0xA1, 0, 0, 0);
#endif
}

#ifdef C05_PROBE
#include "c05_probe.h"
#endif

static int build(int cfg)
{
    sdo_world_build((uint32_t)cfg);
    sdo_model_init();
    build_alphabet();
#ifdef C05_PROBE
    probe_init();
#endif
    return NEV;
}

static const char *ev_name(int e)
{
    static char b[64];
    if (EVDLC[e] == 0xFE) { snprintf(b, sizeof b, "application writes 1201h:1 = %s", EV[e][0] ? "000006C1h (server 1 on)" : "800006C1h (server 1 off)"); return b; }
    snprintf(b, sizeof b, "s%d%s:%02X %02X%02X%02X %02X%02X%02X%02X", EVSRV[e], EVDLC[e] == 8 ? "" : "(short DLC)", EV[e][0], EV[e][1], EV[e][2], EV[e][3], EV[e][4], EV[e][5], EV[e][6], EV[e][7]);
    return b;
}

/* "secondary" events: initiate requests to targets other than a covering few.  From idle every target is explored;
 * while a transfer is open they all take the same path (latch, drop the old transfer, dispatch as from idle), so
 * with option fewinit=1 only the covering targets are enabled there. */
static int secondary(int e)
{
    uint16_t idx = (uint16_t)(EV[e][1] | (EV[e][2] << 8)); uint8_t c = EV[e][0];
    int isinit = ((c & 0xE0) == 0x20) || ((c & 0xE0) == 0x40) || ((c & 0xE1) == 0xC0) || ((c & 0xE3) == 0xA0);
    if (!isinit) return 0;
    return !(idx == 0x2002 || idx == 0x2011 || idx == 0x2012 || idx == 0x2FFF || idx == 0x2022);
}

static int step(int e)
{
    if (EVSRV[e] == 0 && SM[0].st != S_IDLE && mc_opt("fewinit", 0) && secondary(e)) return MC_SKIP;
    if (EVDLC[e] == 0xFE) {
        /* switching a server off closes whatever it had open and touches nothing else - in particular not the transfer the other server is in */
        CO_ERR er = CODictWrLong(&Node.Dict, CO_DEV(0x1201, 1), 0x6C1u | (EV[e][0] ? 0u : 0x80000000u));
        mc_steps++;
        if (er == CO_ERR_NONE) {
            if (!EV[e][0]) { sdo_srv_off[1] = 1; sdo_adopt(sdo_dirty_obj[1]); sdo_dirty_obj[1] = -1; sm_reset(&SM[1]); }
            else sdo_srv_off[1] = 0;
        }
    } else if (sdo_srv_off[EVSRV[e]]) {
        int first = OBS.ntx;
        w_rx(&Node, SDO_RX[EVSRV[e]], EVDLC[e], EV[e]); mc_steps++;
        if (OBS.ntx != first) mc_fail("sdo-disabled-server-answers", "request %02X.. on the identifier of server %d, which is switched off, produced %d frame(s)", EV[e][0], EVSRV[e], OBS.ntx - first);
    } else
    if (EVDLC[e] != 8) { w_rx(&Node, SDO_RX[EVSRV[e]], EVDLC[e], EV[e]); SM[EVSRV[e]].st = S_UNSPEC; mc_steps++; }
    else sdo_request(EVSRV[e], EV[e]);
    if (!mc_opt("nopoll", 0)) (void)CONodeGetErr(&Node);      /* nopoll=1: the application never reads the node error (it is sticky): no server may take it for the state of a transfer */
    sdo_content_reset();
    return MC_OK;
}

#ifdef C05_PROBE
static const mc_harness H = { "C05", "c05", 2, cfg_name, build, ev_name, step, CO_SDO_BUF_SEG + 2, 5, probe_state };
#else
static const mc_harness H = { "C04", "c04", 2, cfg_name, build, ev_name, step, CO_SDO_BUF_SEG + 2, 5 };
#endif
int main(int argc, char **argv) { return mc_main(argc, argv, &H); }
