/* C01 (dictionary subsets) - for every subset of the optional dictionary groups (incl. the partial variants: communication record
 * without mapping record, 1005h without 1006h, 1016h:0 larger than the entries that exist, synchronous RPDO on channel 1 with channel 0
 * absent/asynchronous, writable SDO COB-IDs) initialise and start the node and run EVERY sequence of <= 2 events of a mixed alphabet
 * (frames of all services with DLC 0 and 8, NMT commands, ticks, application calls incl. out-of-range arguments, driver faults).
 * Only the safety monitor judges: no sanitizer report, no fatal-error callback, no hang, bounded number of frames. */
#include <stdlib.h>
#include "node_common.h"

static const int RADIX[] = { 2, 3, 2, 3, 2, 3, 2, 4, 2, 4, 2 };     /* hist sync emcy hbc hbprod sdo csdo rpdo0 rpdo1 tpdo0 tpdo1 */
#define NDIM 11
static long n_subsets(void) { long n = 1; for (int i = 0; i < NDIM; i++) n *= RADIX[i]; return n; }
static uint8_t *snap0, *snap1, *snap2; static size_t snapcap; static int g_depth3;
static uint8_t csdo_buf[8];
static void csdo_cb(CO_CSDO *c, uint16_t idx, uint8_t sub, uint32_t code) { (void)c; w_cb(CB_CSDO_DONE, ((uint32_t)idx << 8) | sub, code, 0); }

static void configure(long code, char *desc, size_t n)
{
    int d[NDIM]; static const uint32_t FREQ[] = { 1000, 100, 1000000 };
    for (int i = 0; i < NDIM; i++) { d[i] = (int)(code % RADIX[i]); code /= RADIX[i]; }
    nc_defaults();
    NC.freq = FREQ[(d[0] + d[2] + d[4] + d[7]) % 3];
    NC.hist = d[0] ? 2 : 0;
    NC.sync = d[1] > 0; NC.sync_no_cycle = (d[1] == 1); NC.sync_id = d[1] == 2 ? 0x40000080u : 0x80; NC.sync_cycle = d[1] == 2 ? 2000000u / NC.freq * 1000 / 1000 : 0;
    NC.emcy = d[2]; NC.emcy_id = 0x81;
    if (d[3] == 1) { NC.n_hbc = 2; NC.hbc[0].node = 9; NC.hbc[0].time = 2; NC.hbc[1].node = 10; NC.hbc[1].time = 0; }
    if (d[3] == 2) { NC.n_hbc = 1; NC.hbc[0].node = 9; NC.hbc[0].time = 2; NC.hbc_count_override = 3; }
    NC.hbprod = d[4]; NC.hb_time = 2;
    NC.sdo_srv = d[5] > 0; NC.sdo_dyn = (d[5] == 2);
    NC.csdo = d[6];
    NC.n_rpdo = 2; NC.n_tpdo = 2;
    if (d[7]) { NC.rpdo[0].present = 1; NC.rpdo[0].cobid = 0x201; NC.rpdo[0].type = (uint8_t)(d[7] == 3 ? 1 : 255); NC.rpdo[0].nomap = (d[7] == 1); NC.rpdo[0].nmap = 2; NC.rpdo[0].map[0] = NC_MAP(0x2110, 0, 8); NC.rpdo[0].map[1] = NC_MAP(0x0006, 0, 16); }
    if (d[8]) { NC.rpdo[1].present = 1; NC.rpdo[1].cobid = 0x301; NC.rpdo[1].type = 1; NC.rpdo[1].nmap = 1; NC.rpdo[1].map[0] = NC_MAP(0x2111, 0, 16); }
    if (d[9]) { NC.tpdo[0].present = 1; NC.tpdo[0].cobid = 0x40000181u; NC.tpdo[0].type = (uint8_t)(d[9] == 3 ? 1 : 254); NC.tpdo[0].nomap = (d[9] == 1); NC.tpdo[0].event = 2; NC.tpdo[0].inhibit = 10; NC.tpdo[0].nmap = 2; NC.tpdo[0].map[0] = NC_MAP(0x2100, 0, 8); NC.tpdo[0].map[1] = NC_MAP(0x2102, 0, 24); }
    if (d[10]) { NC.tpdo[1].present = 1; NC.tpdo[1].cobid = 0x40000281u; NC.tpdo[1].type = 255; NC.tpdo[1].nmap = 1; NC.tpdo[1].map[0] = NC_MAP(0x2101, 0, 16); }
    snprintf(desc, n, "hist=%d sync=%d emcy=%d hbc=%d hbprod=%d sdo=%d csdo=%d rpdo0=%d rpdo1=%d tpdo0=%d tpdo1=%d freq=%u", d[0], d[1], d[2], d[3], d[4], d[5], d[6], d[7], d[8], d[9], d[10], NC.freq);
}

/* ---- wide mapping records (cfg 16..19): the mapping record of TPDO 0 or RPDO 0 has more than eight sub-entries and / or a count that the mapping-count type
 * would never accept because it does not come through it: a constant (EDS default) or a plain UNSIGNED8 count of 8, 9, 16 or 64 over 8, 9, 16 or 64 mapping
 * entries of 1 or 8 bits each (sixteen 1-bit signals fit a frame, nine bytes do not).  codes >= WIDE0 select these worlds ---- */
#define WIDE0 1000000L
#define NWIDE (2 * 2 * 3 * 4 * 4 * 2)
static uint32_t WMap[64]; static uint8_t WNum;
static void configure_wide(long code, char *desc, size_t n)
{
    static const int CNT[] = { 8, 9, 16, 64 };
    long c = code - WIDE0; int rx = (int)(c % 2), sync = (int)(c / 2 % 2), numkind = (int)(c / 4 % 3), count = CNT[c / 12 % 4], entries = CNT[c / 48 % 4], bits = (c / 192 % 2) ? 8 : 1;
    nc_defaults();
    NC.sync = 1; NC.sync_id = 0x80; NC.emcy = 1; NC.emcy_id = 0x81; NC.hbprod = 1; NC.hb_time = 2; NC.sdo_srv = 1;
    NC.n_rpdo = 2; NC.n_tpdo = 2;
    NC.rpdo[0].present = 1; NC.rpdo[0].cobid = 0x201; NC.rpdo[0].type = (uint8_t)(sync ? 1 : 255); NC.rpdo[0].nmap = 2; NC.rpdo[0].map[0] = NC_MAP(0x2110, 0, 8); NC.rpdo[0].map[1] = NC_MAP(0x0006, 0, 16);
    NC.tpdo[0].present = 1; NC.tpdo[0].cobid = 0x40000181u; NC.tpdo[0].type = (uint8_t)(sync ? 1 : 254); NC.tpdo[0].event = 2; NC.tpdo[0].inhibit = 10; NC.tpdo[0].nmap = 2; NC.tpdo[0].map[0] = NC_MAP(0x2100, 0, 8); NC.tpdo[0].map[1] = NC_MAP(0x2102, 0, 24);
    nc_prepare();
    {
        OdB b; uint16_t base = rx ? 0x1600 : 0x1A00;
        b.root = OD; b.cap = NC_OD_MAX; b.used = 0; while (b.used < NC_OD_MAX && OD[b.used].Key) b.used++;
        WNum = (uint8_t)count;
        if (numkind == 0) od_add(&b, CO_KEY(base, 0, CO_OBJ_____RW), CO_TPDO_NUM, (CO_DATA)&WNum);
        else if (numkind == 1) od_add(&b, CO_KEY(base, 0, CO_OBJ_D___R_), CO_TUNSIGNED8, (CO_DATA)(uintptr_t)count);
        else od_add(&b, CO_KEY(base, 0, CO_OBJ_____RW), CO_TUNSIGNED8, (CO_DATA)&WNum);
        for (int k = 0; k < entries; k++) { WMap[k] = NC_MAP(0x2113, 1 + k % 8, bits); od_add(&b, CO_KEY(base, 1 + k, CO_OBJ_____RW), CO_TPDO_MAP, (CO_DATA)&WMap[k]); }
        W_REG(WMap); W_REG(WNum);
    }
    nc_start();
    snprintf(desc, n, "%s 0 (%s): mapping count %d as %s, %d mapping entries of %d bit", rx ? "RPDO" : "TPDO", sync ? "synchronous" : "asynchronous", count,
             numkind == 0 ? "mapping-count type" : numkind == 1 ? "constant" : "plain UNSIGNED8", entries, bits);
}

#define NEV 58
static void sdo(uint8_t c, uint16_t idx, uint8_t sub, uint32_t v, uint8_t dlc)
{
    uint8_t d[8] = { c, (uint8_t)idx, (uint8_t)(idx >> 8), sub, (uint8_t)v, (uint8_t)(v >> 8), (uint8_t)(v >> 16), (uint8_t)(v >> 24) };
    w_rx(&Node, 0x600u + Node.NodeId, dlc, d);
}
static void apply(int e)
{
    uint8_t d[8] = { 0xA1, 0xA2, 0xA3, 0xA4, 0xA5, 0xA6, 0xA7, 0xA8 }, z[8] = { 0 };
    mc_steps++;
    switch (e) {
    case 0: nc_nmt(1, 0); break;          case 1: nc_nmt(2, 0); break;           case 2: nc_nmt(128, 0); break;
    case 3: nc_nmt(130, 0); break;        case 4: nc_nmt(129, 0); break;
    case 5: w_tick(&Node, 1); break;      case 6: for (int k = 0; k < 3; k++) w_tick(&Node, 1); break;
    case 7: sdo(0x40, 0x1000, 0, 0, 8); break;                case 8: sdo(0x40, 0x1003, 1, 0, 8); break;
    case 9: sdo(0x2F, 0x1003, 0, 0, 8); break;                case 10: sdo(0x23, 0x1005, 0, 0x40000080u, 8); break;
    case 11: sdo(0x23, 0x1006, 0, 2000, 8); break;            case 12: sdo(0x23, 0x1014, 0, 0x80000081u, 8); break;
    case 13: sdo(0x23, 0x1016, 1, (9u << 16) | 2, 8); break;  case 14: sdo(0x23, 0x1016, 2, (9u << 16) | 0, 8); break;
    case 15: sdo(0x2B, 0x1017, 0, 2, 8); break;               case 16: sdo(0x23, 0x1200, 1, 0x80000601u, 8); break;
    case 17: sdo(0x23, 0x1280, 1, 0x80000600u, 8); break;     case 18: sdo(0x23, 0x1400, 1, 0x80000201u, 8); break;
    case 19: sdo(0x23, 0x1400, 1, 0x00000201u, 8); break;     case 20: sdo(0x2F, 0x1600, 0, 0, 8); break;
    case 21: sdo(0x23, 0x1600, 1, NC_MAP(0x0007, 0, 32), 8); break;   case 22: sdo(0x2F, 0x1600, 0, 2, 8); break;
    case 23: sdo(0x23, 0x1800, 1, 0xC0000181u, 8); break;     case 24: sdo(0x23, 0x1800, 1, 0x40000181u, 8); break;
    case 25: sdo(0x2B, 0x1800, 5, 2, 8); break;               case 26: sdo(0x2F, 0x1A00, 0, 0, 8); break;
    case 27: w_rx(&Node, 0x201, 8, d); break;                 case 28: w_rx(&Node, 0x201, 0, d); break;
    case 29: w_rx(&Node, 0x301, 2, d); break;                 case 30: w_rx(&Node, 0x80, 0, z); break;
    case 31: d[0] = 5; w_rx(&Node, 0x709, 1, d); break;       case 32: w_rx(&Node, 0x709, 0, z); break;
    case 33: z[0] = 4; z[1] = 1; w_rx(&Node, 0x7E5, 8, z); break;   case 34: w_rx(&Node, 0x123, 8, d); break;
    case 35: COTPdoTrigPdo(Node.TPdo, 0); break;              case 36: COTPdoTrigPdo(Node.TPdo, CO_TPDO_N); break;
    case 37: { CO_OBJ *o = CODictFind(&Node.Dict, CO_DEV(0x2100, 0)); if (o) COTPdoTrigObj(Node.TPdo, o); break; }
    case 38: COEmcySet(&Node.Emcy, 0, 0); break;              case 39: COEmcySet(&Node.Emcy, 200, 0); break;
    case 40: COEmcyClr(&Node.Emcy, 0); break;                 case 41: (void)CODictWrByte(&Node.Dict, CO_DEV(0x2100, 0), (uint8_t)(A8 + 1)); break;
    case 42: { CO_CSDO *c = COCSdoFind(&Node, 0); if (c) (void)COCSdoRequestUpload(c, CO_DEV(0x2000, 0), csdo_buf, 4, csdo_cb, 3); break; }
    case 43: { uint8_t r[8] = { 0x43, 0, 0x20, 0, 1, 2, 3, 4 }; w_rx(&Node, 0x585, 8, r); break; }
    case 44: DRV.send_fail = 2; nc_nmt(130, 0); DRV.send_fail = 0; break;
    case 45: DRV.rx_error = 1; CONodeProcess(&Node); DRV.rx_error = 0; break;
    case 46: sdo(0x21, 0x2130, 0, 20, 8); break;              case 47: { uint8_t s8[8] = { 0x00, 1, 2, 3, 4, 5, 6, 7 }; w_rx(&Node, 0x600u + Node.NodeId, 8, s8); break; }
    case 48: sdo(0xA0, 0x2130, 0, 127, 8); sdo(0xA3, 0, 0, 0, 8); break;
    case 49: w_rx(&Node, 0x000, 0, z); break;                 case 50: sdo(0x40, 0x1000, 0, 0, 0); break;
    case 51: w_rx(&Node, 0x585, 0, z); break;                 case 52: sdo(0x40, 0x2130, 0, 0, 8); sdo(0x60, 0, 0, 0, 3); break;
    case 53: (void)CONodeGetErr(&Node); (void)CONmtGetHbEvents(&Node.Nmt, 9); (void)CONmtLastHbState(&Node.Nmt, 10); break;
    case 54: z[0] = 0x5E; w_rx(&Node, 0x7E5, 1, z); break;    case 55: sdo(0x80, 0, 0, 0, 8); break;
    /* the value API used on a domain again and again without a rewind in between: the object's own cursor must stay inside the object */
    case 56: { uint8_t v8 = 0; uint16_t v16 = 0; uint32_t v32 = 0; for (int k = 0; k < 26; k++) { (void)CODictRdByte(&Node.Dict, CO_DEV(0x2130, 0), &v8); (void)CODictRdWord(&Node.Dict, CO_DEV(0x2130, 0), &v16); (void)CODictRdLong(&Node.Dict, CO_DEV(0x2130, 0), &v32); } break; }
    case 57: for (int k = 0; k < 26; k++) { (void)CODictWrByte(&Node.Dict, CO_DEV(0x2130, 0), (uint8_t)k); (void)CODictWrLong(&Node.Dict, CO_DEV(0x2130, 0), 0x01020304u); } break;
    default: break;
    }
}
static const char *safety(void) { return w_safety(140); }

static void one_subset(long code, int only_e1, int only_e2)
{
    char desc[200], smp[260];
    w_regions_clear();
    if (code >= WIDE0) configure_wide(code, desc, sizeof desc);
    else { configure(code, desc, sizeof desc); nc_build(); }
    size_t n = w_snap_size();
    if (n > snapcap) { free(snap0); free(snap1); free(snap2); snap0 = malloc(n); snap1 = malloc(n); snap2 = malloc(n); snapcap = n; }
    w_save(snap0);
    for (int e1 = 0; e1 < NEV; e1++) {
        if (only_e1 >= 0 && e1 != only_e1) continue;
        w_restore(snap0); w_obs_clear();
        mc_case(3, (int)code, e1, -1);
        apply(e1);
        if (safety()) mc_fail(safety(), "dictionary {%s}, event %d", desc, e1);
        uint64_t o1 = w_obs_hash();
        snprintf(smp, sizeof smp, "dictionary {%s}: event %d", desc, e1);
        mc_case_end(o1, OBS.ntx || OBS.ncb, smp);
        w_save(snap1);
        for (int e2 = 0; e2 < NEV; e2++) {
            if (only_e2 >= -1 && only_e1 >= 0 && e2 != only_e2) continue;
            w_restore(snap1); w_obs_clear();
            mc_case(3, (int)code, e1, e2);
            apply(e2);
            if (safety()) mc_fail(safety(), "dictionary {%s}, events %d,%d", desc, e1, e2);
            uint64_t o2 = w_obs_hash() ^ o1 * 31;
            mc_case_end(o2, OBS.ntx || OBS.ncb, 0);
            if (!g_depth3 || only_e1 >= 0) continue;
            w_save(snap2);
            for (int e3 = 0; e3 < NEV; e3++) {
                w_restore(snap2); w_obs_clear();
                mc_case(4, (int)code, e1, e2, e3);
                apply(e3);
                if (safety()) mc_fail(safety(), "dictionary {%s}, events %d,%d,%d", desc, e1, e2, e3);
                mc_case_end(w_obs_hash() ^ o2 * 31, OBS.ntx || OBS.ncb, 0);
            }
        }
    }
}

static void run_cfg(int cfg, int tier)
{
    long total = n_subsets(); int nshard = 16;
    g_depth3 = tier;                                              /* thorough: every sequence of <= 3 events */
    if (cfg >= 16) { g_depth3 = 1; for (long w = cfg - 16; w < NWIDE && !mc_deadline_hit(); w += 4) one_subset(WIDE0 + w, -1, -2); return; }
    for (long code = cfg; code < total && !mc_deadline_hit(); code += nshard) one_subset(code, -1, -2);
}
static void run_case(const int *c, int n)
{
    if (n < 4) return;
    if (n >= 5) {                 /* three events: replay them directly */
        char desc[200]; w_regions_clear(); if (c[1] >= WIDE0) configure_wide(c[1], desc, sizeof desc); else { configure(c[1], desc, sizeof desc); nc_build(); } w_obs_clear();
        mc_case(4, c[1], c[2], c[3], c[4]);
        apply(c[2]); apply(c[3]); w_obs_clear(); apply(c[4]);
        if (safety()) mc_fail(safety(), "dictionary {%s}, events %d,%d,%d", desc, c[2], c[3], c[4]);
        mc_case_end(0, 1, 0);
        return;
    }
    one_subset(c[1], c[2], c[3]);
}
static const char *cfg_name(int c) { static char b[48]; if (c >= 16) snprintf(b, sizeof b, "wide mapping records, shard %d/4", c - 16); else snprintf(b, sizeof b, "shard %d/16", c); return b; }
static const mc_enum E = { "C01", "c01sub", 20, cfg_name, run_cfg, run_case };
int main(int argc, char **argv) { return mc_enum_main(argc, argv, &E); }
