/* C02 - a confirmed SDO download leaves exactly the client's bytes in the object.
 * Deviation-bounded exhaustive enumeration of conforming download clients against the real server,
 * reference server in lockstep.  Build with -DSDO_DS2=4000 (real transfer buffer). */
#include <stdlib.h>
#include "sdo_client.h"

static uint8_t *snap0;
static uint8_t  PAY[SDO_DS2 + 16];
static int      quick_sizes[] = { 1, 2, 3, 4, 5, 6, 7, 8, 13, 14, 15, 20, 21, 22, 28, 29, 49, 50, 63, 64, 888, 889, 890, 896, 1778, 1779, 2000, 4000 };
static int      all_sizes[400], n_all;


static void set_dom_size(uint32_t S)
{
    DomOB.Size = S; OBJ[O_DOMB].size = S;
}

static uint64_t outcome_hash(int r) { return (cl_trace * 31) ^ (uint64_t)r ^ ((uint64_t)cl_abort << 8); }

/* one download dialogue to the big domain; mode 0 expedited(s=1) 1 expedited(s=0) 2 segmented 3 block */
static void domain_case(uint32_t S, uint32_t L, int mode, int announce, const int *lose, int nlose, int *txcount, int *applicable)
{
    int r; char smp[160];
    w_restore(snap0); w_obs_clear();
    set_dom_size(S);
    cl_trace = 0; cl_frames = 0; cl_abort = 0;
    if (mode == 0) r = cl_exp_dl(0, 0x2012, 0, PAY, (int)L, 1);
    else if (mode == 1) r = cl_exp_dl(0, 0x2012, 0, PAY, (int)L, 0);
    else if (mode == 2) r = cl_seg_dl(0, 0x2012, 0, PAY, L, announce);
    else r = cl_blk_dl(0, 0x2012, 0, PAY, L, announce, lose, nlose);
    if (txcount) *txcount = cl_blk_tx_count;
    if (r == -1) { if (applicable) *applicable = 0; mc_case_end(0, 0, 0); return; }
    if (applicable) *applicable = 1;
    mc_log("  S=%u L=%u mode=%d announce=%d -> %s abort=%08X frames=%ld\n", S, L, mode, announce, r == CL_OK ? "confirmed" : r == CL_ABORT ? "aborted" : "protocol error", cl_abort, cl_frames);
    if (r == CL_PROTOCOL) mc_fail("c02-protocol", "S=%u L=%u mode=%d announce=%d: %s", S, L, mode, announce, cl_err);
    else if (r == CL_OK) {
        if (L > S) mc_fail("c02-overlong-confirmed", "download of %u bytes to a %u-byte domain confirmed (mode %d, announce %d)", L, S, mode, announce);
        else if (mode != 1 && memcmp(DomB, PAY, L) != 0) { uint32_t k = 0; while (DomB[k] == PAY[k]) k++; mc_fail("c02-wrong-bytes", "confirmed download S=%u L=%u mode=%d announce=%d: object byte %u is %02X, sent %02X", S, L, mode, announce, k, DomB[k], PAY[k]); }
        else for (uint32_t k = (mode == 1 ? S : L); k < SDO_DS2; k++) if (DomB[k] != (uint8_t)(0x40 + (k % 0x3F))) { mc_fail("c02-beyond-length", "confirmed download S=%u L=%u mode=%d: byte %u beyond the transmitted length changed to %02X", S, L, mode, k, DomB[k]); break; }
    } else {
        /* a refusal is admissible only where the reference server says so (checked in lockstep); additionally a
         * download that fits and is not a partial write must never be refused */
        if (L == S && !(mode == 1 && S > 4)) mc_fail("c02-refused", "conforming download of %u bytes to a %u-byte domain refused with %08X (mode %d, announce %d)", L, S, cl_abort, mode, announce);
        else {
            /* the client that was refused goes on with ordinary requests: an expedited download to 2002h and the fitting payload to the same
             * domain in the same mode - both have to be confirmed and stored (the reference server judges every response on the way) */
            uint32_t abort0 = cl_abort; int r2, r3 = CL_OK;
            r2 = cl_exp_dl(0, 0x2002, 0, PAY + 3, 4, 1);
            if (r2 != CL_OK || memcmp(&V32, PAY + 3, 4) != 0) mc_fail("c02-after-refusal", "after the refusal (%08X) of %u bytes to the %u-byte domain (mode %d, announce %d) an expedited download to 2002h is %s", abort0, L, S, mode, announce, r2 == CL_OK ? "confirmed but not stored" : r2 == CL_ABORT ? "aborted" : cl_err);
            else if (S > 4 && mode >= 2) {
                r3 = mode == 2 ? cl_seg_dl(0, 0x2012, 0, PAY, S, announce) : cl_blk_dl(0, 0x2012, 0, PAY, S, announce, 0, 0);
                if (r3 != CL_OK || memcmp(DomB, PAY, S) != 0) mc_fail("c02-after-refusal", "after the refusal (%08X) of %u bytes to the %u-byte domain (mode %d, announce %d) the fitting download is %s", abort0, L, S, mode, announce, r3 == CL_OK ? "confirmed but not stored" : r3 == CL_ABORT ? "aborted" : cl_err);
            }
            cl_abort = abort0;
        }
    }
    if (OBS.fatal) mc_fail("safety:fatal-error callback invoked", "S=%u L=%u", S, L);
    snprintf(smp, sizeof smp, "domain S=%u L=%u mode=%s announce=%d losses=%d -> %s", S, L, mode == 0 ? "exp(s=1)" : mode == 1 ? "exp(s=0)" : mode == 2 ? "seg" : "blk", announce, nlose, r == CL_OK ? "confirmed" : "aborted");
    mc_case_end(outcome_hash(r), 1, smp);
}

/* ---- cfg 3: the same dialogues after an earlier transfer that the client completed or abandoned (client abort after k requests) ---- */
static uint8_t PAY2[64], UPB[SDO_DS2 + 16];
static const char *const PRE_NAME[] = { "none", "segmented download", "block download", "segmented upload", "block upload (block size 3)" };
static void prehistory(int kind, int k, uint32_t S)
{
    uint32_t n = S < 40 ? S : 40, len = 0, ann = 0;
    if (kind == 0) return;
    cl_budget = k; cl_stopped = 0;
    if (kind == 1) (void)cl_seg_dl(0, 0x2012, 0, PAY2, n, 1);
    else if (kind == 2) (void)cl_blk_dl(0, 0x2012, 0, PAY2, n, 1, 0, 0);
    else if (kind == 3) (void)cl_upload(0, 0x2012, 0, UPB, sizeof UPB, &len, &ann);
    else (void)cl_blk_ul(0, 0x2012, 0, 3, UPB, sizeof UPB, &len, &ann, 0, 0, 0, 0);
    cl_budget = -1;
    if (cl_stopped) cl_client_abort(0);
    cl_stopped = 0;
}
static void history_case(int kind, int k, uint32_t S, uint32_t L, int mode, int announce, int lose0, int *txcount, int *applicable)
{
    static uint8_t before[SDO_DS2]; int r, lose[1] = { lose0 }; char smp[200];
    w_restore(snap0); w_obs_clear();
    set_dom_size(S);
    prehistory(kind, k, S);
    if (OBS.fatal) mc_fail("safety:fatal-error callback invoked", "prehistory");
    memcpy(before, DomB, SDO_DS2);
    w_obs_clear();
    cl_trace = 0; cl_frames = 0; cl_abort = 0;
    if (mode == 0) r = cl_exp_dl(0, 0x2012, 0, PAY, (int)L, 1);
    else if (mode == 1) r = cl_exp_dl(0, 0x2012, 0, PAY, (int)L, 0);
    else if (mode == 2) r = cl_seg_dl(0, 0x2012, 0, PAY, L, announce);
    else r = cl_blk_dl(0, 0x2012, 0, PAY, L, announce, lose, lose0 >= 0 ? 1 : 0);
    if (txcount) *txcount = cl_blk_tx_count;
    if (r == -1) { if (applicable) *applicable = 0; mc_case_end(0, 0, 0); return; }
    if (applicable) *applicable = 1;
    mc_log("  after %s (k=%d): S=%u L=%u mode=%d announce=%d -> %s abort=%08X\n", PRE_NAME[kind], k, S, L, mode, announce, r == CL_OK ? "confirmed" : r == CL_ABORT ? "aborted" : "protocol error", cl_abort);
    if (r == CL_PROTOCOL) mc_fail("c02-protocol", "after %s (k=%d): S=%u L=%u mode=%d announce=%d: %s", PRE_NAME[kind], k, S, L, mode, announce, cl_err);
    else if (r == CL_OK) {
        if (mode != 1 && memcmp(DomB, PAY, L) != 0) { uint32_t i = 0; while (DomB[i] == PAY[i]) i++; mc_fail("c02-wrong-bytes", "after %s (k=%d): confirmed download S=%u L=%u mode=%d announce=%d: object byte %u is %02X, sent %02X", PRE_NAME[kind], k, S, L, mode, announce, i, DomB[i], PAY[i]); }
        else for (uint32_t i = (mode == 1 ? S : L); i < SDO_DS2; i++) if (DomB[i] != before[i]) { mc_fail("c02-beyond-length", "after %s (k=%d): confirmed download S=%u L=%u mode=%d: byte %u beyond the transmitted length changed to %02X", PRE_NAME[kind], k, S, L, mode, i, DomB[i]); break; }
    } else if (L == S && !(mode == 1 && S > 4)) mc_fail("c02-refused", "after %s (k=%d): conforming download of %u bytes to a %u-byte domain refused with %08X (mode %d, announce %d)", PRE_NAME[kind], k, L, S, cl_abort, mode, announce);
    if (OBS.fatal) mc_fail("safety:fatal-error callback invoked", "S=%u L=%u", S, L);
    snprintf(smp, sizeof smp, "after %s%s k=%d: domain S=%u L=%u mode=%s announce=%d loss=%d -> %s", PRE_NAME[kind], k < 0 ? " (completed)" : " (abandoned)", k, S, L, mode == 0 ? "exp(s=1)" : mode == 1 ? "exp(s=0)" : mode == 2 ? "seg" : "blk", announce, lose0, r == CL_OK ? "confirmed" : "aborted");
    mc_case_end(outcome_hash(r) ^ ((uint64_t)kind << 56), 1, smp);
}
static void run_history(int tier)
{
    static const int qs[] = { 1, 4, 5, 7, 8, 14, 15, 21, 35, 64, 890 };
    int *sizes = tier ? all_sizes : (int *)qs; int ns = tier ? n_all : (int)(sizeof qs / sizeof qs[0]);
    int kmax = tier ? 7 : 4;
    for (int kind = 1; kind <= 4; kind++) for (int k = -1; k <= kmax; k++) {
        if (k == 0) continue;
        for (int si = 0; si < ns && !mc_deadline_hit(); si++) {
            uint32_t S = (uint32_t)sizes[si];
            if (tier && S > 900) continue;
            for (uint32_t L = S > 1 ? S - 1 : S; L <= S; L++) for (int mode = 0; mode < 4; mode++) for (int announce = 0; announce < 2; announce++) {
                if (mode <= 1 && (L > 4 || announce)) continue;
                if (mode == 1 && L != S) continue;
                int tx = 0, app = 1;
                mc_case(9, 3, kind, k, (int)S, (int)L, mode, announce, -1);
                history_case(kind, k, S, L, mode, announce, -1, &tx, &app);
                if (mode != 3 || S > 100) continue;
                for (int a = 0; a < tx && !mc_deadline_hit(); a++) { mc_case(9, 3, kind, k, (int)S, (int)L, mode, announce, a); history_case(kind, k, S, L, mode, announce, a, 0, 0); }
            }
        }
    }
}

/* ---- cfg 4: domains whose length does not fit 16 bits (build with SDO_DS2 >= 70100) ---- */
static void run_large(int tier)
{
    static const uint32_t LS[] = { 65535, 65536, 65543, 70000, 131072, 131079 };
    for (unsigned si = 0; si < sizeof LS / sizeof LS[0] && !mc_deadline_hit(); si++) {
        uint32_t S = LS[si];
        if (S + 16 > sizeof PAY || (!tier && S > 70000)) continue;
        for (uint32_t L = S - 1; L <= S + 1; L++) for (int mode = 2; mode < 4; mode++) for (int announce = 0; announce < 2; announce++) {
            int tx = 0, app = 1, X = (int)(65536u / 7u), al[12] = { 0, 1, 125, 127, 128, X - 128, X - 2, X - 1, X, X + 1, X + 127, 0 };
            mc_case(6, 0, (int)S, (int)L, mode, announce, -1);
            domain_case(S, L, mode, announce, 0, 0, &tx, &app);
            if (mode != 3 || L > S) continue;
            al[11] = tx - 2;
            for (int i = 0; i < 12 && !mc_deadline_hit(); i++) {
                int lose[2] = { al[i], -1 };
                if (al[i] < 0 || al[i] >= tx) continue;
                mc_case(7, 0, (int)S, (int)L, mode, announce, al[i], -1);
                domain_case(S, L, mode, announce, lose, 1, 0, &app);
                if (!tier && i != 8) continue;
                lose[1] = al[i] + 130;          /* a second loss in the block that follows the repeated one */
                mc_case(7, 0, (int)S, (int)L, mode, announce, lose[0], lose[1]);
                domain_case(S, L, mode, announce, lose, 2, 0, &app);
            }
        }
    }
}

static void run_domains(int tier)
{
    int *sizes = tier ? all_sizes : quick_sizes; int ns = tier ? n_all : (int)(sizeof quick_sizes / sizeof quick_sizes[0]);
    int maxloss = tier ? 2 : 1;
    for (int si = 0; si < ns && !mc_deadline_hit(); si++) {
        uint32_t S = (uint32_t)sizes[si];
        uint32_t Ls[4] = { S, S - 1, 1, S + 1 };
        for (int li = 0; li < 4; li++) {
            uint32_t L = Ls[li];
            if (L == 0) continue;
            if ((li == 2 && (L == S || L == S - 1)) || (li == 1 && L == S)) continue;
            for (int mode = 0; mode < 4; mode++) for (int announce = 0; announce < 2; announce++) {
                if (mode <= 1 && (L > 4 || announce)) continue;
                if (mode == 1 && L != S) continue;
                mc_case(6, 0, (int)S, (int)L, mode, announce, -1);
                int tx = 0, app = 1;
                domain_case(S, L, mode, announce, 0, 0, &tx, &app);
                if (mode != 3 || L > S) continue;
                /* lost segments: every placement of <= maxloss dropped transmissions */
                int big = (L > 300);
                for (int a = 0; a < tx && !mc_deadline_hit(); a++) {
                    int lose[2] = { a, -1 }, tx1 = 0;
                    mc_case(7, 0, (int)S, (int)L, mode, announce, a, -1);
                    domain_case(S, L, mode, announce, lose, 1, &tx1, &app);
                    if (!app || maxloss < 2) continue;
                    for (int b = a + 1; b < tx1; b++) {
                        if (big && !(b < a + 4 || b % 127 <= 1 || b >= tx1 - 3)) continue;   /* second loss: neighbourhood + block boundaries for the large sizes */
                        lose[1] = b;
                        mc_case(7, 0, (int)S, (int)L, mode, announce, a, b);
                        domain_case(S, L, mode, announce, lose, 2, 0, 0);
                    }
                }
            }
        }
    }
}

/* basic objects */
static const struct { int o; uint16_t idx; uint8_t sub; } BASIC[] = { {O_U8, 0x2000, 0}, {O_U16, 0x2001, 0}, {O_U32, 0x2002, 0}, {O_U32D, 0x2003, 0}, {O_NID, 0x2006, 0}, {O_U16D, 0x2007, 0}, {O_U8D, 0x2008, 0}, {O_U32Z, 0x2009, 0}, {O_SUB1, 0xA030, 1}, {O_DOM3, 0x2010, 0} };
/* value patterns for the basic objects: position-dependent bytes, all zero, the node id minus one, all ones - small numbers meet the
 * node-id arithmetic of the node-id relative objects, zero meets "Data == 0" of the direct ones */
static const uint8_t *basic_payload(int pat)
{
    static uint8_t Z[8], N1[8], FF[8];
    memset(Z, 0, 8); memset(N1, 0, 8); N1[0] = (uint8_t)(SDO_NODEID - 1); memset(FF, 0xFF, 8);
    return pat == 0 ? PAY : pat == 1 ? Z : pat == 2 ? N1 : FF;
}
static void basic_case(int b, uint32_t L, int mode, int announce_pat)
{
    int announce = announce_pat & 1; const uint8_t *PAY = basic_payload(announce_pat >> 1);
    int r, o = BASIC[b].o; uint32_t S = OBJ[o].size; uint8_t v[8]; char smp[160];
    w_restore(snap0); w_obs_clear();
    cl_trace = 0; cl_frames = 0; cl_abort = 0;
    if (mode == 0) r = cl_exp_dl(0, BASIC[b].idx, BASIC[b].sub, PAY, (int)L, 1);
    else if (mode == 1) r = cl_exp_dl(0, BASIC[b].idx, BASIC[b].sub, PAY, (int)L, 0);
    else if (mode == 2) r = cl_seg_dl(0, BASIC[b].idx, BASIC[b].sub, PAY, L, announce);
    else r = cl_blk_dl(0, BASIC[b].idx, BASIC[b].sub, PAY, L, announce, 0, 0);
    impl_value(o, v);
    if (r == CL_PROTOCOL) mc_fail("c02-protocol", "object %04X L=%u mode=%d: %s", BASIC[b].idx, L, mode, cl_err);
    else if (r == CL_OK) {
        if (L != S && !(OBJ[o].kind == K_DOMAIN && L < S)) mc_fail("c02-wrong-length-confirmed", "download of %u byte(s) to the %u-byte object %04X confirmed (mode %d)", L, S, BASIC[b].idx, mode);
        else if (memcmp(v, PAY, L < S ? L : S)) mc_fail("c02-wrong-bytes", "confirmed download to %04X (mode %d announce %d): object holds %02X%02X%02X%02X, sent %02X%02X%02X%02X", BASIC[b].idx, mode, announce, v[0], v[1], v[2], v[3], PAY[0], PAY[1], PAY[2], PAY[3]);
    } else if (L == S) mc_fail("c02-refused", "conforming download of %u byte(s) to %04X refused with %08X (mode %d announce %d)", L, BASIC[b].idx, cl_abort, mode, announce);
    if (OBS.fatal) mc_fail("safety:fatal-error callback invoked", "basic");
    snprintf(smp, sizeof smp, "object %04X:%02X L=%u mode=%d announce=%d -> %s", BASIC[b].idx, BASIC[b].sub, L, mode, announce, r == CL_OK ? "confirmed" : "aborted");
    mc_case_end(outcome_hash(r), 1, smp);
}
static void run_basic(void)
{
    for (unsigned b = 0; b < sizeof BASIC / sizeof BASIC[0]; b++) {
        uint32_t S = OBJ[BASIC[b].o].size;
        for (uint32_t L = S > 1 ? S - 1 : 1; L <= S + 1; L++) for (int mode = 0; mode < 4; mode++) for (int announce = 0; announce < 2; announce++) {
            if (mode <= 1 && (L > 4 || announce)) continue;
            if (mode == 1 && L != S) continue;
            for (int pat = 0; pat < 4; pat++) {
                if (pat && L != S) continue;
                mc_case(5, 1, (int)b, (int)L, mode, announce + 2 * pat);
                basic_case((int)b, L, mode, announce + 2 * pat);
            }
        }
    }
}

#if CO_SSDO_N > 1
/* second server: a scripted transfer (frames fixed in advance) interleaved at every position of the primary one */
static uint8_t SEC[8][8]; static int NSEC, sec_pos[8], sec_sent;
static int sec_srv = 1;        /* pkind bit 1: roles swapped - the long transfer runs on server 1, the scripted one on server 0 */
static int sec_api;            /* secondary kind 3: no transfer - the application switches server 1 off through 1201h:1 while the primary transfer runs on server 0 */
static void sec_hook(int i)
{
    while (sec_sent < NSEC && sec_pos[sec_sent] <= i) {
        if (sec_api) { if (CODictWrLong(&Node.Dict, CO_DEV(0x1201, 1), 0x800006C1u) == CO_ERR_NONE) sdo_srv_off[1] = 1; }
        else sdo_request(sec_srv, SEC[sec_sent]);
        mc_steps++; sec_sent++;
    }
}
static void make_secondary(int kind)
{
    NSEC = 0; memset(SEC, 0, sizeof SEC); sec_api = 0;
    if (kind == 3) { sec_api = 1; NSEC = 1; return; }
    if (kind == 0) { cl_req(SEC[0], 0x23, 0x2002, 0); w_put32(SEC[0] + 4, 0xCAFEF00D); NSEC = 1; }
    else if (kind == 1) {                               /* segmented download of 10 bytes to 2011h */
        cl_req(SEC[0], 0x21, 0x2011, 0); w_put32(SEC[0] + 4, 10);
        SEC[1][0] = 0x00; memcpy(SEC[1] + 1, PAY + 100, 7);
        SEC[2][0] = 0x10 | (4 << 1) | 1; memcpy(SEC[2] + 1, PAY + 107, 3); NSEC = 3;
    } else {                                            /* block download of 10 bytes to 2011h */
        cl_req(SEC[0], 0xC2, 0x2011, 0); w_put32(SEC[0] + 4, 10);
        SEC[1][0] = 0x01; memcpy(SEC[1] + 1, PAY + 100, 7);
        SEC[2][0] = 0x82; memcpy(SEC[2] + 1, PAY + 107, 3);
        SEC[3][0] = 0xC1 | (4 << 2); NSEC = 4;
    }
}
static void two_server_case(int pkind, uint32_t S, int skind, const int *pos)
{
    int r, psrv = (pkind >> 1) & 1; char smp[160];
    sec_srv = 1 - psrv; pkind &= 1;
    w_restore(snap0); w_obs_clear();
    set_dom_size(S);
    make_secondary(skind);
    for (int i = 0; i < NSEC; i++) sec_pos[i] = pos[i];
    sec_sent = 0; cl_hook = sec_hook; cl_hook_i = 0;
    cl_trace = 0; cl_frames = 0;
    if (pkind == 0) r = cl_seg_dl(psrv, 0x2012, 0, PAY, S, 1); else r = cl_blk_dl(psrv, 0x2012, 0, PAY, S, 1, 0, 0);
    sec_hook(1 << 30);
    cl_hook = 0;
    if (r != CL_OK) mc_fail("c02-refused", "two servers: primary transfer (kind %d, %u bytes) not confirmed: %s %08X", pkind, S, r == CL_PROTOCOL ? cl_err : "abort", cl_abort);
    else if (memcmp(DomB, PAY, S)) mc_fail("c02-wrong-bytes", "two servers: primary object differs from the payload");
    else if (skind == 3) { if (!sdo_srv_off[1]) mc_fail("c02-protocol", "two servers: the application could not switch server 1 off"); }
    else if (skind == 0 ? V32 != 0xCAFEF00D : memcmp(DomA, PAY + 100, 10) != 0) mc_fail("c02-wrong-bytes", "two servers: the object written through the second server differs from its payload");
    if (SM[sec_srv].st != S_IDLE) mc_fail("c02-protocol", "two servers: secondary transfer not completed");
    snprintf(smp, sizeof smp, "two servers: primary %s %u bytes on server %d, secondary kind %d at positions %d,%d,%d,%d", pkind ? "blk" : "seg", S, psrv, skind, pos[0], pos[1], pos[2], pos[3]);
    mc_case_end(outcome_hash(r), 1, smp);
}
static void run_two(int tier)
{
    /* all interleavings: primary of P requests, secondary of Q frames -> all non-decreasing position vectors */
    for (int pk = 0; pk < 4; pk++) for (int si = 0; si < 3; si++) {
        int pkind = pk & 1;
        uint32_t S = si == 0 ? 10 : si == 1 ? 21 : (tier ? 1000 : 900);
        if (pk >= 2 && si < 2 && !tier) continue;              /* swapped roles: the long transfers in quick, all in thorough */
        int P = pkind == 0 ? 1 + (int)((S + 6) / 7) : 2 + (int)((S + 6) / 7) + (int)((S + 6) / 7 + 126) / 127;
        for (int skind = 0; skind < 4; skind++) {
            int Q = skind == 0 || skind == 3 ? 1 : skind == 1 ? 3 : 4, pos[4] = { 0, 0, 0, 0 };
            if (skind == 3 && pk >= 2) continue;                /* 1200h:1 of server 0 is a constant: only server 1 can be switched off */
            if (S > 100 && skind > 0 && !tier) {
                /* long primary: the whole secondary transfer inserted at every single position */
                for (int p = 0; p <= P && !mc_deadline_hit(); p++) { pos[0] = pos[1] = pos[2] = pos[3] = p; mc_case(8, 2, pk, (int)S, skind, pos[0], pos[1], pos[2], pos[3]); two_server_case(pk, S, skind, pos); }
                continue;
            }
            int stride = S > 100 ? 9 : 1;
            for (pos[0] = 0; pos[0] <= P && !mc_deadline_hit(); pos[0] += stride)
                for (pos[1] = pos[0]; pos[1] <= (Q > 1 ? P : pos[0]); pos[1] += stride)
                    for (pos[2] = pos[1]; pos[2] <= (Q > 2 ? P : pos[1]); pos[2] += stride)
                        for (pos[3] = pos[2]; pos[3] <= (Q > 3 ? P : pos[2]); pos[3] += stride) {
                            mc_case(8, 2, pk, (int)S, skind, pos[0], pos[1], pos[2], pos[3]);
                            two_server_case(pk, S, skind, pos);
                        }
        }
    }
}
#endif

static void setup(void)
{
    sdo_world_build(0);
    sdo_model_init();
    for (unsigned i = 0; i < sizeof PAY; i++) PAY[i] = (uint8_t)((i * 7 + 13) | 1);
    for (unsigned i = 0; i < sizeof PAY2; i++) PAY2[i] = (uint8_t)(0xE0 ^ (i * 3));
    if (!snap0) snap0 = malloc(w_snap_size());
    w_save(snap0);
    n_all = 0;
    for (int s = 1; s <= 30; s++) all_sizes[n_all++] = s;
    for (int k = 5; k <= 10; k++) for (int d = -1; d <= 1; d++) all_sizes[n_all++] = 7 * k + d;
    for (int s = 885; s <= 900; s++) all_sizes[n_all++] = s;
    for (int s = 1777; s <= 1780; s++) all_sizes[n_all++] = s;
    all_sizes[n_all++] = 2000; all_sizes[n_all++] = 3999; all_sizes[n_all++] = 4000;
}

static void run_cfg(int cfg, int tier)
{
    setup();
    if (cfg == 0) run_domains(tier);
    else if (cfg == 1) run_basic();
    else if (cfg == 3) run_history(tier);
    else if (cfg == 4) run_large(tier);
#if CO_SSDO_N > 1
    else run_two(tier);
#endif
}

static void run_case(const int *c, int n)
{
    setup();
    if (n < 3) return;
    mc_case_v(c + 1, n - 1);
    if (c[1] == 0 && n >= 7) {
        int lose[2] = { c[6], n >= 8 ? c[7] : -1 }; int nl = (c[6] >= 0) + (n >= 8 && c[7] >= 0);
        domain_case((uint32_t)c[2], (uint32_t)c[3], c[4], c[5], lose, nl, 0, 0);
    } else if (c[1] == 1 && n >= 6) basic_case(c[2], (uint32_t)c[3], c[4], c[5]);
    else if (c[1] == 3 && n >= 9) history_case(c[2], c[3], (uint32_t)c[4], (uint32_t)c[5], c[6], c[7], c[8], 0, 0);
#if CO_SSDO_N > 1
    else if (c[1] == 2 && n >= 9) two_server_case(c[2], (uint32_t)c[3], c[4], c + 5);
#endif
}

static const char *cfg_name(int c) { return c == 0 ? "domains" : c == 1 ? "basic objects" : c == 2 ? "two servers" : c == 4 ? "domains longer than 65535 bytes" : "after an earlier completed or abandoned transfer"; }
static const mc_enum E = { "C02", "c02", 5, cfg_name, run_cfg, run_case };
int main(int argc, char **argv) { return mc_enum_main(argc, argv, &E); }
