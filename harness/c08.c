/* C08 - timer pools stay consistent under interrupt preemption and deferred processing.
 * The stack is compiled with -fsanitize-coverage=trace-loads,trace-stores (-O0): every load/store
 * of shared timer state outside COTmrLock/COTmrUnlock is a preemption point at which the harness
 * may run the tick interrupt (COTmrService).  BFS over task-level histories x injection points. */
#include <stdio.h>
#include <sanitizer/asan_interface.h>
#include "mc.h"
#include "world.h"
#include "od.h"

#define MAXPOOL 4
#define JMAX    96
static CO_NODE    Node;
static CO_OBJ     OD[16];
static uint8_t    ErrReg;
static uint8_t    SdoBuf[CO_SSDO_N * CO_SDO_BUF_BYTE];
static CO_TMR_MEM TMem[MAXPOOL];

typedef struct { uint8_t live, pending; int16_t id; uint32_t rem, period; } MSlot;
static struct { MSlot s[MAXPOOL]; int pool; int inj_left; } M;

/* transient scheduler state (per operation; not part of the snapshot) */
static struct { int in_op, in_isr, point, inject_at, injected; uint32_t lock_tick; int in_process; } G;

static const struct { int pool, budget; } CFG[] = { {1, 1}, {2, 1}, {3, 1}, {1, 2}, {2, 2}, {3, 2}, {1, 99}, {2, 99}, {3, 99} };
static int NT = 3;                   /* start/cycle values 0..NT-1 */
static int n_ops, op_delete0, op_service, op_process;

static const char *cfg_name(int c) { static char b[48]; snprintf(b, sizeof b, "pool=%d injections<=%d", CFG[c].pool, CFG[c].budget); return b; }

/* ---- bounded walks over the public CO_TMR structure ---- */
static int walk_time(CO_TMR_TIME *t) { int n = 0; while (t && n <= MAXPOOL + 1) { n++; t = t->Next; } return n; }
static int walk_act(CO_TMR_ACTION *a) { int n = 0; while (a && n <= MAXPOOL + 1) { n++; a = a->Next; } return n; }
static int acts_in(CO_TMR_TIME *t) { int n = 0, k = 0; while (t && k <= MAXPOOL + 1) { n += walk_act(t->Action); t = t->Next; k++; } return n; }

static void check_events(const char *where)
{
    CO_TMR *t = &Node.Tmr;
    int f = walk_time(t->Free), u = walk_time(t->Use), e = walk_time(t->Elapsed);
    if (f + u + e != M.pool)
        mc_fail("pool-events-not-conserved", "%s: event slots free=%d pending=%d elapsed=%d do not add up to capacity %d", where, f, u, e, M.pool);
}
static void check_actions(const char *where)
{
    CO_TMR *t = &Node.Tmr;
    int f = walk_act(t->Acts), u = acts_in(t->Use), e = acts_in(t->Elapsed);
    if (f + u + e != M.pool)
        mc_fail("pool-actions-not-conserved", "%s: action slots free=%d pending=%d elapsed=%d do not add up to capacity %d", where, f, u, e, M.pool);
}

/* ---- the interrupt ---- */
static void model_tick(void)
{
    for (int i = 0; i < M.pool; i++)
        if (M.s[i].live && M.s[i].rem > 0) { M.s[i].rem--; if (M.s[i].rem == 0) M.s[i].pending++; }
}
static void isr(void)
{
    W_NOW++;
    model_tick();
    (void)COTmrService(&Node.Tmr);
    check_events("after tick service");
}

static inline int is_shared(const void *a)
{
    const uint8_t *p = (const uint8_t *)a;
    if (p >= (const uint8_t *)&Node.Tmr && p < (const uint8_t *)(&Node.Tmr + 1)) return 1;
    if (p >= (const uint8_t *)TMem && p < (const uint8_t *)(TMem + MAXPOOL)) return 1;
    if (p >= (const uint8_t *)&DRV.tcnt && p < (const uint8_t *)(&DRV.tcnt + 1)) return 1;
    if (p >= (const uint8_t *)&Node.Error && p < (const uint8_t *)(&Node.Error + 1)) return 1;
    return 0;
}
static inline void point(const void *addr)
{
    if (!G.in_op || G.in_isr || DRV.lock_depth != 0 || !is_shared(addr)) return;
    G.point++;
    if (G.point == G.inject_at) { G.in_isr = 1; G.injected = 1; mc_log("    >>> tick interrupt injected at preemption point %d\n", G.point); isr(); G.in_isr = 0; }
}
void __sanitizer_cov_load1(void *a)  { point(a); }
void __sanitizer_cov_load2(void *a)  { point(a); }
void __sanitizer_cov_load4(void *a)  { point(a); }
void __sanitizer_cov_load8(void *a)  { point(a); }
void __sanitizer_cov_load16(void *a) { point(a); }
void __sanitizer_cov_store1(void *a)  { point(a); }
void __sanitizer_cov_store2(void *a)  { point(a); }
void __sanitizer_cov_store4(void *a)  { point(a); }
void __sanitizer_cov_store8(void *a)  { point(a); }
void __sanitizer_cov_store16(void *a) { point(a); }
void __sanitizer_cov_trace_pc_guard(uint32_t *g) { (void)g; }
void __sanitizer_cov_trace_pc_guard_init(uint32_t *a, uint32_t *b) { (void)a; (void)b; }

static void lock_hook(int lock)
{
    if (G.in_isr) return;
    if (lock && DRV.lock_depth == 1 && G.in_op) {
        /* the instant before the (outermost) lock is taken is a preemption point of its own: the value of an unlocked read may
         * already sit in a local variable, so it does not commute with the interrupt (found by a seeded change, see DESIGN.md) */
        DRV.lock_depth = 0; point(&Node.Tmr); DRV.lock_depth = 1;
    }
    if (lock) { if (DRV.lock_depth == 1) G.lock_tick = W_NOW; }
    else if (DRV.lock_depth == 0 && G.in_op) check_events("at lock release");
}

static void act_cb(void *p)
{
    MSlot *s = (MSlot *)p;
    int m = (int)(s - M.s);
    w_cb(CB_TMR_ACTION, (uint32_t)m, 0, 0);
    mc_log("    callback of model slot %d (id %d)\n", m, s->id);
    if (m < 0 || m >= M.pool || !G.in_process) { mc_fail("callback-out-of-context", "callback outside a processing step or with foreign parameter"); return; }
    if (!s->live) { mc_fail("callback-after-delete", "callback for slot %d whose deletion was confirmed (or which was never created)", m); return; }
    if (s->pending == 0) { mc_fail("callback-without-expiry", "callback for slot %d (id %d) without a pending expiry (remaining %u): premature or duplicated", m, s->id, s->rem); return; }
    s->pending--;
    if (s->period == 0) { s->live = 0; }
    else {
        uint32_t gone = W_NOW - G.lock_tick;       /* ticks since the critical section that re-armed it */
        if (gone >= s->period) { s->rem = 0; s->pending++; } else s->rem = s->period - gone;
    }
}

static int build(int cfg)
{
    OdB b; CO_NODE_SPEC spec;
    int pool = CFG[cfg].pool;
    w_reset(1000);
    memset(&Node, 0, sizeof Node); memset(&M, 0, sizeof M); memset(&G, 0, sizeof G); memset(SdoBuf, 0, sizeof SdoBuf); ErrReg = 0;
    ASAN_UNPOISON_MEMORY_REGION(TMem, sizeof TMem);
    memset(TMem, 0, sizeof TMem);
    M.pool = pool; M.inj_left = CFG[cfg].budget;
    NT = mc_opt("times", 3);
    od_init(&b, OD, 16); od_mandatory(&b, &ErrReg);
    spec.NodeId = 1; spec.Baudrate = 250000; spec.Dict = OD; spec.DictLen = 16; spec.EmcyCode = 0;
    spec.TmrMem = TMem; spec.TmrNum = (uint16_t)pool; spec.TmrFreq = 1000; spec.Drv = &W_IfDrv; spec.SdoBuf = SdoBuf;
    CONodeInit(&Node, &spec);
    CONodeStart(&Node);
    (void)CONodeGetErr(&Node);
    if (pool < MAXPOOL) ASAN_POISON_MEMORY_REGION(&TMem[pool], sizeof(CO_TMR_MEM) * (size_t)(MAXPOOL - pool));
    W_REG(Node); W_REG(OD); W_REG(ErrReg); W_REG(M);
    w_region(TMem, sizeof(CO_TMR_MEM) * (size_t)pool, 1);
    w_lock_hook = lock_hook;
    op_delete0 = NT * NT; op_service = op_delete0 + pool; op_process = op_service + 1; n_ops = op_process + 1;
    return n_ops * (JMAX + 1);
}

static const char *ev_name(int e)
{
    static char b[80]; int op = e / (JMAX + 1), j = e % (JMAX + 1); char inj[32] = "";
    if (j) snprintf(inj, sizeof inj, " +irq@%d", j);
    if (op < op_delete0) snprintf(b, sizeof b, "create(start=%d,cycle=%d)%s", op / NT, op % NT, inj);
    else if (op < op_service) snprintf(b, sizeof b, "delete(id=%d)%s", op - op_delete0, inj);
    else if (op == op_service) snprintf(b, sizeof b, "service%s", inj);
    else snprintf(b, sizeof b, "process%s", inj);
    return b;
}

static long cache_id = -2; static int cache_op = -1, cache_points;

static int step(int e)
{
    int op = e / (JMAX + 1), j = e % (JMAX + 1);
    if (j > 0) {
        if (op == op_service) return MC_SKIP;                 /* the interrupt does not preempt itself */
        if (M.inj_left <= 0) return MC_SKIP;
        if (mc_expand_id >= 0 && cache_id == mc_expand_id && cache_op == op && j > cache_points) return MC_SKIP;
    }
    memset(&G, 0, sizeof G);
    G.inject_at = j; G.in_op = 1;
    if (op < op_delete0) {
        uint32_t start = (uint32_t)(op / NT), cycle = (uint32_t)(op % NT);
        int m = -1, nfree = 0;
        for (int i = 0; i < M.pool; i++) if (!M.s[i].live) { nfree++; if (m < 0) m = i; }
        int16_t id = COTmrCreate(&Node.Tmr, start, cycle, act_cb, (void *)&M.s[m >= 0 ? m : 0]);
        G.in_op = 0;
        mc_log("    create(%u,%u) -> %d\n", start, cycle, id);
        if ((start == 0 && cycle == 0) || nfree == 0) {
            if (id >= 0) mc_fail("create-succeeded-unexpectedly", "create(%u,%u) returned %d", start, cycle, id);
        } else if (id < 0 || id >= M.pool) {
            mc_fail("create-failed-unexpectedly", "create(%u,%u) returned %d with %d free slot(s)", start, cycle, id, nfree);
        } else {
            for (int i = 0; i < M.pool; i++) if (M.s[i].live && M.s[i].id == id) mc_fail("create-duplicate-id", "create returned live id %d", id);
            uint32_t first = start ? start : cycle, gone = W_NOW - G.lock_tick;
            M.s[m].live = 1; M.s[m].id = id; M.s[m].period = cycle; M.s[m].pending = 0;
            if (gone >= first) { M.s[m].rem = 0; M.s[m].pending = 1; } else M.s[m].rem = first - gone;
        }
    } else if (op < op_service) {
        int id = op - op_delete0, m = -1;
        for (int i = 0; i < M.pool; i++) if (M.s[i].live && M.s[i].id == id) m = i;
        int16_t r = COTmrDelete(&Node.Tmr, (int16_t)id);
        G.in_op = 0;
        mc_log("    delete(%d) -> %d (%s)\n", id, r, m >= 0 ? (M.s[m].pending ? "live, elapsed but unprocessed" : "live, pending") : "not live");
        if (m >= 0) {
            if (r != 0) mc_fail("delete-live-failed", "delete of live action id %d (%s) returned %d", id, M.s[m].pending ? "elapsed, unprocessed" : "pending", r);
            else { M.s[m].live = 0; M.s[m].pending = 0; }
        }
    } else if (op == op_service) {
        G.in_op = 0;
        isr();
    } else {
        G.in_process = 1;
        COTmrProcess(&Node.Tmr);
        G.in_process = 0; G.in_op = 0;
        if (!G.injected)
            for (int i = 0; i < M.pool; i++) if (M.s[i].live && M.s[i].pending)
                mc_fail("expiry-lost", "action in slot %d (id %d) has elapsed but an undisturbed processing step did not run it", i, M.s[i].id);
    }
    G.in_op = 0;
    if (j == 0 && mc_expand_id >= 0) { cache_id = mc_expand_id; cache_op = op; cache_points = G.point; }
    if (j > 0) {
        if (!G.injected) return MC_SKIP;                       /* fewer preemption points than j: no such schedule */
        if (M.inj_left < 99) M.inj_left--;
    }
    if (G.point > JMAX && j == 0) mc_fail("harness-jmax", "operation has %d preemption points, more than the harness enumerates (%d)", G.point, JMAX);
    check_events("after operation");
    check_actions("after operation");
    for (int i = 0; i < M.pool; i++) if (M.s[i].pending > 1) mc_fail("model-pending", "internal: pending>1");
    (void)CONodeGetErr(&Node);
    for (int i = 0; i < M.pool; i++) if (!M.s[i].live) memset(&M.s[i], 0, sizeof M.s[i]);
    return MC_OK;
}

static const mc_harness H = { "C08", "c08", 9, cfg_name, build, ev_name, step, 4, 6 };
int main(int argc, char **argv) { return mc_main(argc, argv, &H); }
