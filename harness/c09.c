/* C09 - NMT state machine and per-state service gating follow CiA 301.
 * BFS (fixpoint) over NMT commands, API mode changes, one probe frame per service, against a reference FSM. */
#include <stdlib.h>
#include "node_common.h"

enum { M_INVALID = 0, M_INIT, M_PREOP, M_OP, M_STOP };
static struct { uint8_t mode, lss_conf, emcy0, stopped; uint8_t p8; uint8_t nid /* live node id */, stored /* node id stored through LSS, 0 none */; } M;
#define LID M.nid      /* NMT addressing, SDO server (node-id relative 1200h), boot-up/heartbeat and LSS inquiry follow the live node id; the PDO and
                          EMCY identifiers of this dictionary are absolute values and stay where they are */

static const uint8_t CS[] = { 1, 2, 128, 129, 130, 0, 3, 127, 255 };
#define NT 5           /* NMT targets: own id, 0 (all), another id, 80h | own id, 80h - a node id is the whole byte, not its low seven bits */
enum { E_NMT0 = 0, E_SETMODE0 = 9 * NT, E_START = 9 * NT + 3, E_RESET_NODE, E_RESET_COM, E_STOPNODE, E_P_SDO, E_P_RPDO, E_P_SYNC, E_P_HBMON, E_P_HBFOREIGN,
       E_P_LSS_CONF, E_P_LSS_WAIT, E_P_LSS_INQ, E_P_FOREIGN, E_P_OWN_SDO, E_P_OWN_HB, E_P_OWN_PDO, E_P_EXT_NMT, E_P_EXT_SDO, E_P_EXT_RPDO, E_P_LSS_SIBLING, E_P_LSS_OWN, E_LSS_STORE7, E_P_OLD_SDO, E_EMCY_SET, E_EMCY_CLR, E_TRIG, E_TICK, E_TRIG2, E_N };
static uint8_t NID;

static int TT;   /* cfg 4: timer-driven TPDO instead of the heartbeat services */
static const char *cfg_name(int c) { return c == 0 ? "node 1 started" : c == 1 ? "node 1 in INIT" : c == 2 ? "node 5 started" : c == 3 ? "node 127 started" : "node 1 started, timer-driven TPDO"; }

static int build(int cfg)
{
    nc_defaults();
    NC.node_id = cfg == 2 ? 5 : cfg == 3 ? 127 : 1; NID = NC.node_id;
    NC.no_start = (cfg == 1);
    TT = (cfg == 4);
    if (!TT) { NC.hbprod = 1; NC.hb_time = 2; NC.n_hbc = 1; NC.hbc[0].node = 9; NC.hbc[0].time = 3; }
    NC.sync = 1; NC.sync_id = 0x80; NC.sync_cycle = 0;
    NC.emcy = 1; NC.emcy_id = 0x80 + NID; NC.hist = 2;
    NC.n_rpdo = 1; NC.rpdo[0].present = 1; NC.rpdo[0].cobid = 0x200 + NID; NC.rpdo[0].type = 255; NC.rpdo[0].nmap = 1; NC.rpdo[0].map[0] = NC_MAP(0x2110, 0, 8);
    NC.n_tpdo = TT ? 3 : 2;
    NC.tpdo[0].present = 1; NC.tpdo[0].cobid = 0x40000180u + NID; NC.tpdo[0].type = 254; NC.tpdo[0].nmap = 1; NC.tpdo[0].map[0] = NC_MAP(0x2100, 0, 8);
    NC.tpdo[1].present = 1; NC.tpdo[1].cobid = 0x40000280u + NID; NC.tpdo[1].type = 1;   NC.tpdo[1].nmap = 1; NC.tpdo[1].map[0] = NC_MAP(0x2111, 0, 16);
    /* a TPDO that lives on timers (event time 3 ticks, inhibit time 2 ticks): the timers keep running when the node leaves
     * OPERATIONAL, so the gating must hold inside the transmit path itself; exact timing is C12's business */
    if (TT) NC.tpdo[2].present = 1; NC.tpdo[2].cobid = 0x40000380u + NID; NC.tpdo[2].type = 254; NC.tpdo[2].event = 3; NC.tpdo[2].inhibit = 20; NC.tpdo[2].nmap = 1; NC.tpdo[2].map[0] = NC_MAP(0x2100, 0, 8);
    nc_build();
    (void)CONodeGetErr(&Node);
    memset(&M, 0, sizeof M);
    M.mode = NC.no_start ? M_INIT : M_PREOP; M.p8 = P8; M.nid = NID;
    W_REG(M);
    return TT ? E_N : E_N - 1;
}

static const char *ev_name(int e)
{
    static char b[64];
    static const char *const N[] = { "CONodeStart", "CONmtReset(node)", "CONmtReset(com)", "CONodeStop", "probe:SDO upload 1000h", "probe:RPDO frame", "probe:SYNC", "probe:heartbeat of monitored node",
        "probe:heartbeat of unmonitored node", "probe:LSS switch global(configuration)", "probe:LSS switch global(waiting)", "probe:LSS inquire node-id", "probe:foreign identifier 123h",
        "probe:own SDO response id", "probe:own heartbeat id", "probe:own TPDO id", "probe:NMT start on identifier 20000000h", "probe:SDO request on 20000600h+id", "probe:RPDO frame on 20000200h+id", "probe:LSS selective sequence, serial of a sibling device", "probe:LSS selective sequence, own identity", "LSS switch configuration + configure node-id 7 + store", "probe:SDO request on the identifier of the initial node id", "COEmcySet(0)", "COEmcyClr(0)", "COTPdoTrigPdo(0)", "tick", "COTPdoTrigPdo(2) (timer-driven TPDO)" };
    if (e < E_SETMODE0) { int t = e % NT; snprintf(b, sizeof b, "NMT cs=%d target=%s", CS[e / NT], t == 0 ? "own" : t == 1 ? "0(all)" : t == 2 ? "other" : t == 3 ? "80h|own" : "80h"); }
    else if (e < E_START) snprintf(b, sizeof b, "CONmtSetMode(%s)", e == E_SETMODE0 ? "PREOP" : e == E_SETMODE0 + 1 ? "OPERATIONAL" : "STOP");
    else snprintf(b, sizeof b, "%s", N[e - E_START]);
    return b;
}

static const uint8_t CODE[] = { 255, 0, 127, 5, 4 };
static const CO_MODE CM[] = { CO_INVALID, CO_INIT, CO_PREOP, CO_OPERATIONAL, CO_STOP };

/* expected observations of the step */
static struct { int changes[3], nchanges; int reset_req; int bootup; int n_sdo, n_tpdo0, n_tpdo1, n_emcy, n_lss; int ifrecv_min, ifrecv_max; int free_cb; int hb_max; } X;

static void model_set_mode(int m) { if (M.mode != m) { X.changes[X.nchanges++] = m; M.mode = (uint8_t)m; } }
static void model_reset(int nmt_request)
{
    if (M.mode == M_INIT) { /* no boot-up from INIT without CONodeStart */ }
    else { model_set_mode(M_INIT); model_set_mode(M_PREOP); X.bootup = 1; }
    M.lss_conf = 0; M.emcy0 = 0;
    if (M.stored) M.nid = M.stored;                     /* a stored node id is the active one from the next reset on */
    if (nmt_request) X.reset_req = nmt_request;
}
/* a frame that no service claims */
static void unclaimed(void)
{
    if (M.mode == M_STOP) { X.ifrecv_min = 0; X.ifrecv_max = 1; }   /* "unless the node has been stopped" */
    else { X.ifrecv_min = 1; X.ifrecv_max = 1; }
}

/* --opt cbmode=1: the application has a fail-safe policy - when CONmtModeChange announces OPERATIONAL it calls CONmtSetMode(CO_STOP) from inside the callback.
 * Which of the two requests wins is the implementation's choice; the reference follows the mode the node REPORTS afterwards, and everything else (per-state
 * gating of every service, heartbeat content) has to agree with that reported mode from then on. */
static int CBMODE, cb_nested, cb_fired;
static void c09_cb_hook(uint8_t kind, uint32_t a, uint32_t b, uint32_t c)
{
    (void)b; (void)c;
    if (kind == CB_MODE_CHANGE && a == (uint32_t)CO_OPERATIONAL && CBMODE && !cb_nested) { cb_nested = 1; cb_fired = 1; CONmtSetMode(&Node.Nmt, CO_STOP); cb_nested = 0; }
}
static int step(int e)
{
    uint8_t d[8] = { 0 };
    memset(&X, 0, sizeof X);
    CBMODE = mc_opt("cbmode", 0); cb_fired = 0; w_cb_hook = CBMODE ? c09_cb_hook : 0;
    if (M.stopped) {                       /* after CONodeStop nothing is specified: safety only */
        if (e >= E_SETMODE0 && e <= E_STOPNODE) return MC_SKIP;
    }
    if (e >= E_SETMODE0 && e < E_START && (M.mode == M_INIT || M.mode == M_INVALID)) return MC_SKIP;
    /* ---- apply + expectation ---- */
    if (e < E_SETMODE0) {
        int tk = e % NT;
        uint8_t cs = CS[e / NT], tgt = tk == 0 ? LID : tk == 1 ? 0 : tk == 2 ? (uint8_t)(LID == 127 ? 1 : LID + 1) : tk == 3 ? (uint8_t)(0x80 | LID) : 0x80;
        if (M.mode == M_INIT) unclaimed();                          /* no NMT service during initialisation */
        else if (tgt == LID || tgt == 0) {
            if (cs == 1) model_set_mode(M_OP); else if (cs == 2) model_set_mode(M_STOP); else if (cs == 128) model_set_mode(M_PREOP);
            else if (cs == 129) model_reset(CO_RESET_NODE); else if (cs == 130) model_reset(CO_RESET_COM);
        }
        nc_nmt(cs, tgt);
    } else if (e < E_START) {
        int m = e == E_SETMODE0 ? M_PREOP : e == E_SETMODE0 + 1 ? M_OP : M_STOP;
        model_set_mode(m);
        CONmtSetMode(&Node.Nmt, CM[m]);
    } else switch (e) {
    case E_START: if (M.mode == M_INIT) { model_set_mode(M_PREOP); X.bootup = 1; } CONodeStart(&Node); break;
    case E_RESET_NODE: model_reset(0); CONmtReset(&Node.Nmt, CO_RESET_NODE); break;
    case E_RESET_COM:  model_reset(0); CONmtReset(&Node.Nmt, CO_RESET_COM); break;
    case E_STOPNODE: M.stopped = 1; M.mode = M_INVALID; X.free_cb = 1; CONodeStop(&Node); break;
    case E_P_SDO:
        if (M.mode == M_PREOP || M.mode == M_OP) X.n_sdo = 1; else unclaimed();
        w_rx8(&Node, 0x600 + LID, 0x40, 0x00, 0x10, 0x00, 0, 0, 0, 0); break;
    case E_P_RPDO:
        if (M.mode == M_OP) M.p8 = 0x5A; else unclaimed();
        d[0] = 0x5A; w_rx(&Node, 0x200 + NID, 1, d); break;
    case E_P_SYNC:
        if (M.mode == M_OP) X.n_tpdo1 = 1;
        if (M.mode == M_INIT || M.mode == M_STOP) unclaimed();
        w_rx(&Node, 0x80, 0, d); break;
    case E_P_HBMON:
        if (M.mode == M_INIT || TT) unclaimed();
        X.free_cb = 1;
        d[0] = 5; w_rx(&Node, 0x709, 1, d); break;
    case E_P_HBFOREIGN: unclaimed(); d[0] = 5; w_rx(&Node, 0x708, 1, d); break;
    case E_P_LSS_CONF: M.lss_conf = 1; d[0] = 4; d[1] = 1; w_rx(&Node, 0x7E5, 8, d); break;
    case E_P_LSS_WAIT: M.lss_conf = 0; d[0] = 4; d[1] = 0; w_rx(&Node, 0x7E5, 8, d); break;
    case E_P_LSS_INQ: if (M.lss_conf) X.n_lss = 1; d[0] = 0x5E; w_rx(&Node, 0x7E5, 8, d); break;
    case E_P_FOREIGN: unclaimed(); w_rx(&Node, 0x123, 8, d); break;
    case E_P_OWN_SDO: unclaimed(); d[0] = 0x60; w_rx(&Node, 0x580 + LID, 8, d); break;
    case E_P_OWN_HB:  unclaimed(); d[0] = 0x7F; w_rx(&Node, 0x700 + LID, 1, d); break;
    case E_P_OWN_PDO: unclaimed(); d[0] = 1; w_rx(&Node, 0x180 + NID, 1, d); break;
    /* identifiers that equal a served one in their low 11 bits only (a driver flagging extended frames in the upper bits): no service may claim them */
    case E_P_EXT_NMT: unclaimed(); d[0] = 1; d[1] = LID; w_rx(&Node, 0x20000000u, 2, d); break;
    case E_P_EXT_SDO: unclaimed(); w_rx8(&Node, 0x20000600u + LID, 0x40, 0x00, 0x10, 0x00, 0, 0, 0, 0); break;
    case E_P_EXT_RPDO: unclaimed(); d[0] = 0x5A; w_rx(&Node, 0x20000200u + NID, 1, d); break;
    /* the four frames of switch-state-selective (identity 1018h = 1,2,3,4): every one of them is an LSS request, consumed by the LSS slave
     * whether it matches or not - none may reach the application, whatever the NMT state */
    case E_P_LSS_SIBLING: case E_P_LSS_OWN: {
        static const uint32_t IDV[4] = { 1, 2, 3, 4 };
        for (int k = 0; k < 4; k++) {
            uint32_t v = IDV[k] + (k == 3 && e == E_P_LSS_SIBLING ? 1u : 0u);
            memset(d, 0, 8); d[0] = (uint8_t)(0x40 + k); d[1] = (uint8_t)v; d[2] = (uint8_t)(v >> 8); d[3] = (uint8_t)(v >> 16); d[4] = (uint8_t)(v >> 24);
            w_rx(&Node, 0x7E5, 8, d);
        }
        if (e == E_P_LSS_OWN) { if (!M.lss_conf) X.n_lss = 1; M.lss_conf = 1; }
        break; }
    /* the node id is changed through LSS and becomes active at the next reset: every service that is addressed through the node id must move */
    case E_LSS_STORE7:
        M.lss_conf = 1; M.stored = 7; X.n_lss = 2;
        memset(d, 0, 8); d[0] = 4; d[1] = 1; w_rx(&Node, 0x7E5, 8, d);
        memset(d, 0, 8); d[0] = 0x11; d[1] = 7; w_rx(&Node, 0x7E5, 8, d);
        memset(d, 0, 8); d[0] = 0x17; w_rx(&Node, 0x7E5, 8, d); break;
    case E_P_OLD_SDO:
        if (LID == NID) return MC_SKIP;
        unclaimed(); w_rx8(&Node, 0x600 + NID, 0x40, 0x00, 0x10, 0x00, 0, 0, 0, 0); break;
    case E_EMCY_SET: if (!M.emcy0) { M.emcy0 = 1; if (M.mode == M_PREOP || M.mode == M_OP) X.n_emcy = 1; } COEmcySet(&Node.Emcy, 0, 0); break;
    case E_EMCY_CLR: if (M.emcy0)  { M.emcy0 = 0; if (M.mode == M_PREOP || M.mode == M_OP) X.n_emcy = 1; } COEmcyClr(&Node.Emcy, 0); break;
    case E_TRIG: if (M.mode == M_OP) X.n_tpdo0 = 1; COTPdoTrigPdo(Node.TPdo, 0); break;
    case E_TICK: X.hb_max = 1; X.free_cb = 1; w_tick(&Node, 1); break;
    case E_TRIG2: if (!TT) return MC_SKIP; COTPdoTrigPdo(Node.TPdo, 2); break;
    default: break;
    }
    nc_poll();                   
    (void)CONmtGetHbEvents(&Node.Nmt, 9);          /* the application reads (and clears) the consumer event counter */
    if (M.stopped) return MC_OK;
    if (cb_fired) {        /* follow the reported mode; the callback sequence of this step is the implementation's business */
        CO_MODE r = CONmtGetMode(&Node.Nmt);
        M.mode = (uint8_t)(r == CO_INIT ? M_INIT : r == CO_PREOP ? M_PREOP : r == CO_OPERATIONAL ? M_OP : r == CO_STOP ? M_STOP : M_INVALID);
        if (M.mode == M_INVALID) mc_fail("nmt-wrong-mode", "node reports mode %d after a mode change requested from the mode-change callback", (int)r);
        return MC_OK;
    }
    /* ---- compare ---- */
    if (CONmtGetMode(&Node.Nmt) != CM[M.mode]) { mc_fail("nmt-wrong-mode", "node is in mode %d, reference FSM in %d", CONmtGetMode(&Node.Nmt), CM[M.mode]); return MC_OK; }
    {   /* mode change callbacks */
        int n = 0;
        for (int i = 0; i < OBS.ncb; i++) if (OBS.cb[i].kind == CB_MODE_CHANGE) {
            if (n >= X.nchanges || OBS.cb[i].a != (uint32_t)CM[X.changes[n]]) { mc_fail("nmt-mode-callback", "unexpected mode-change callback #%d to mode %u", n, OBS.cb[i].a); return MC_OK; }
            n++;
        }
        if (n != X.nchanges) { mc_fail("nmt-mode-callback", "%d mode-change callback(s), expected %d", n, X.nchanges); return MC_OK; }
    }
    {   int n = 0; uint32_t t = 0;
        for (int i = 0; i < OBS.ncb; i++) if (OBS.cb[i].kind == CB_RESET_REQ) { n++; t = OBS.cb[i].a; }
        if (n != (X.reset_req ? 1 : 0) || (n && t != (uint32_t)X.reset_req)) { mc_fail("nmt-reset-request", "%d reset-request callback(s) (type %u), expected %d (type %d)", n, t, X.reset_req ? 1 : 0, X.reset_req); return MC_OK; }
    }
    {   /* frames */
        int hb = 0, boot = 0;
        for (int i = 0; i < OBS.ntx; i++) {
            const WFrame *f = &OBS.tx[i];
            if (f->id == 0x700u + LID) {
                if (e == E_TICK) { hb++; if (f->dlc != 1 || f->d[0] != CODE[M.mode] || M.mode == M_INIT) { mc_fail("nmt-heartbeat-content", "heartbeat frame carries %02X in mode %d", f->d[0], M.mode); return MC_OK; } }
                else { boot++; if (f->dlc != 1 || f->d[0] != 0) { mc_fail("nmt-bootup-content", "boot-up frame has DLC %d data %02X", f->dlc, f->d[0]); return MC_OK; } }
            }
            else if (f->id == 0x380u + NID) { if (M.mode != M_OP) { mc_fail("gating-pdo", "timer-driven TPDO transmitted in mode %d", M.mode); return MC_OK; } }
            else if (f->id == 0x580u + LID || f->id == 0x180u + NID || f->id == 0x280u + NID || f->id == 0x80u + NID || f->id == 0x7E4) { }
            else { mc_fail("nmt-unexpected-frame", "frame with identifier %03X sent", f->id); return MC_OK; }
        }
        if (boot != X.bootup) { mc_fail("nmt-bootup-count", "%d boot-up frame(s), expected %d", boot, X.bootup); return MC_OK; }
        if (hb > X.hb_max) { mc_fail("nmt-heartbeat-count", "%d heartbeat frames in one tick", hb); return MC_OK; }
        if (nc_count_tx(0x580u + LID) != X.n_sdo) { mc_fail("gating-sdo", "%d SDO response(s) in mode %d, expected %d", nc_count_tx(0x580u + LID), M.mode, X.n_sdo); return MC_OK; }
        if (nc_count_tx(0x180u + NID) != X.n_tpdo0) { mc_fail("gating-pdo", "%d event TPDO frame(s) in mode %d, expected %d", nc_count_tx(0x180u + NID), M.mode, X.n_tpdo0); return MC_OK; }
        if (nc_count_tx(0x280u + NID) != X.n_tpdo1) { mc_fail("gating-sync", "%d synchronous TPDO frame(s) in mode %d, expected %d", nc_count_tx(0x280u + NID), M.mode, X.n_tpdo1); return MC_OK; }
        if (nc_count_tx(0x80u + NID) != X.n_emcy) { mc_fail("gating-emcy", "%d EMCY frame(s) in mode %d, expected %d", nc_count_tx(0x80u + NID), M.mode, X.n_emcy); return MC_OK; }
        if (nc_count_tx(0x7E4) != X.n_lss) { mc_fail("gating-lss", "%d LSS response(s), expected %d", nc_count_tx(0x7E4), X.n_lss); return MC_OK; }
        if (X.n_lss && (e == E_P_LSS_OWN)) { const WFrame *f = nc_find_tx(0x7E4, 0); if (f->d[0] != 0x44) { mc_fail("gating-lss", "LSS selective switch answered %02X", f->d[0]); return MC_OK; } }
        else if (X.n_lss && e == E_LSS_STORE7) { const WFrame *f = nc_find_tx(0x7E4, 0), *g = nc_find_tx(0x7E4, 1); if (f->d[0] != 0x11 || f->d[1] != 0 || !g || g->d[0] != 0x17 || g->d[1] != 0) { mc_fail("gating-lss", "LSS configure node-id / store answered %02X %02X", f->d[0], f->d[1]); return MC_OK; } }
        else if (X.n_lss) { const WFrame *f = nc_find_tx(0x7E4, 0); if (f->d[0] != 0x5E || f->d[1] != LID) { mc_fail("gating-lss", "LSS inquire node-id answered %02X %02X", f->d[0], f->d[1]); return MC_OK; } }
    }
    {   int n = nc_count_cb(CB_IF_RECEIVE);
        if (n < X.ifrecv_min || n > X.ifrecv_max) { mc_fail("unclaimed-frame-delivery", "frame handed to the application %d time(s) in mode %d, expected %d..%d", n, M.mode, X.ifrecv_min, X.ifrecv_max); return MC_OK; }
        if (n && OBS.ntx) { mc_fail("unclaimed-frame-delivery", "a frame no service claims caused a transmission"); return MC_OK; }
    }
    if (P8 != M.p8) { mc_fail("gating-pdo", "RPDO-mapped object is %02X in mode %d, expected %02X", P8, M.mode, M.p8); return MC_OK; }
    if (nc_count_cb(CB_PDO_RECEIVE) != (e == E_P_RPDO && M.mode == M_OP ? 1 : 0)) { mc_fail("gating-pdo", "PDO receive callback count %d in mode %d", nc_count_cb(CB_PDO_RECEIVE), M.mode); return MC_OK; }
    if (!X.free_cb && (nc_count_cb(CB_HB_EVENT) || nc_count_cb(CB_HB_CHANGE))) { mc_fail("gating-heartbeat", "heartbeat consumer callback on an unrelated event"); return MC_OK; }
    /* keep application data canonical */
    P8 = 0x22; M.p8 = 0x22;
    return MC_OK;
}

/* in every reachable state: a frame on each of the 2048 base-format identifiers that no service of this node is configured for (everything but NMT, SYNC,
 * the RPDO, the SDO request, the monitored node's heartbeat and LSS) must reach the application callback exactly once - at most once in STOPPED - send nothing
 * and leave the node exactly as it was; payload: two bytes that read as a heartbeat / NMT command for this node (thorough: also eight FFh bytes) */
static void sweep_probe(void)
{
    static uint8_t *before, *after; size_t n = w_snap_size();
    if (M.stopped) return;
    if (!before) { before = malloc(n); after = malloc(n); }
    w_save(before);
    for (int pay = 0; pay < (mc_tier() ? 2 : 1); pay++) for (uint32_t id = 1; id < 0x800; id++) {
        uint8_t d[8] = { 5, LID, 0, 0, 0, 0, 0, 0 }; int cb;
        if (id == 0x80 || id == 0x200u + NID || id == 0x600u + LID || (!TT && id == 0x709) || id == 0x7E5) continue;
        if (pay) memset(d, 0xFF, 8);
        w_obs_clear();
        w_rx(&Node, id, pay ? 8 : 2, d); mc_steps++;
        cb = nc_count_cb(CB_IF_RECEIVE);
        if (cb > 1 || (cb == 0 && M.mode != M_STOP)) { mc_fail("unclaimed-frame-delivery", "identifier sweep: frame %03X (no service of this node listens there) handed to the application %d time(s) in mode %d", id, cb, M.mode); break; }
        if (OBS.ntx) { mc_fail("unclaimed-frame-delivery", "identifier sweep: frame %03X (no service of this node listens there) answered with a frame on %03X", id, OBS.tx[0].id); break; }
        if (OBS.ncb != cb) { mc_fail("unclaimed-frame-delivery", "identifier sweep: frame %03X (no service of this node listens there) caused a callback of kind %d", id, OBS.cb[0].kind == CB_IF_RECEIVE && OBS.ncb > 1 ? OBS.cb[1].kind : OBS.cb[0].kind); break; }
        w_save(after);
        if (memcmp(before, after, n)) { mc_fail("unclaimed-frame-effect", "identifier sweep: frame %03X (no service of this node listens there) changed the state of the node in mode %d", id, M.mode); break; }
    }
    /* ... and a block download dialogue on the SDO request identifier: the initiate request is answered, a segment inside the block is consumed silently, the
     * client abort is not answered - in PRE-OPERATIONAL and OPERATIONAL all three belong to the SDO server alone (no other service, no application callback),
     * otherwise each is a frame nobody claims */
    {
        static const uint8_t F[3][8] = { { 0xC2, 0x30, 0x21, 0x00, 20, 0, 0, 0 }, { 0x01, 1, 2, 3, 4, 5, 6, 7 }, { 0x80, 0x30, 0x21, 0x00, 0x00, 0x00, 0x04, 0x05 } };
        int served = (M.mode == M_PREOP || M.mode == M_OP);
        w_restore(before);
        for (int k = 0; k < 3; k++) {
            int cb, want_tx = (served && k == 0) ? 1 : 0;
            w_obs_clear();
            w_rx(&Node, 0x600u + LID, 8, F[k]); mc_steps++;
            cb = nc_count_cb(CB_IF_RECEIVE);
            if (served ? cb != 0 : (cb > 1 || (cb == 0 && M.mode != M_STOP))) { mc_fail("unclaimed-frame-delivery", "SDO block download frame %d (%02X..) handed to the application %d time(s) in mode %d", k, F[k][0], cb, M.mode); break; }
            if (OBS.ncb != cb) { mc_fail("unclaimed-frame-delivery", "SDO block download frame %d (%02X..) caused a callback of another service in mode %d", k, F[k][0], M.mode); break; }
            if (k == 2 && served) continue;               /* how a client abort is acknowledged is not constrained (inside a block it reads as a segment) */
            if (OBS.ntx != want_tx || (want_tx && OBS.tx[0].id != 0x580u + LID)) { mc_fail("gating-sdo", "SDO block download frame %d (%02X..) in mode %d: %d frame(s) sent, expected %d", k, F[k][0], M.mode, OBS.ntx, want_tx); break; }
        }
    }
    w_restore(before); w_obs_clear();
}

static const mc_harness H = { "C09", "c09", 5, cfg_name, build, ev_name, step, 4, 30, sweep_probe };
int main(int argc, char **argv) { return mc_main(argc, argv, &H); }
