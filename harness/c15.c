/* C15 - error state, error register 1001h, EMCY frames and pre-defined error field 1003h.
 * BFS over the real emergency module (COEmcySet/Clr/Reset/Get/Cnt, 1003h, 1014h, NMT gating) in lockstep
 * with a reference model written from the property text:
 *   - set of active errors; an error changes state only on a real transition
 *   - register = OR of (1 << class) over the active errors, bit 0 iff any error is active
 *   - count    = number of active errors
 *   - history  = activations newest first, capped at the history depth, entry = code | usr.Hist << 16
 *   - one EMCY frame per real transition (code / 0000h, register after the update, 5 manufacturer bytes),
 *     only while 1014h is valid (bit 31 clear) and the NMT state is PRE-OPERATIONAL or OPERATIONAL
 * After EVERY step the complete observable state (1001h variable and dictionary read, COEmcyCnt, COEmcyGet of every
 * error, 1003h:0 and every stored entry) is compared with the model.
 *
 * Left open on purpose (the statement fixes nothing there):
 *   - an error index >= CO_EMCY_N: either ignored or treated as the last table row (what the code does); the model
 *     follows the branch the implementation took and then demands full consistency
 *   - register byte of the frames of a non-silent reset: any value some clearing order can produce
 *   - reads of 1003h sub-indices above the current count (0 or abort), of non-existing sub-indices, of 1003h when
 *     the object is absent; the abort code of a refused write to 1003h:0
 *   - SDO traffic in STOPPED (events disabled); the verdict of the 1014h writes (model adopts a confirmed value)
 * Build with --defs CO_EMCY_N=8 (the table always has CO_EMCY_N rows).
 * Macro-step (history depth 8 only, --opt burst=0/1): "burst" = clr a, set a, clr a, set a+usr, clr b, set b - three
 * activations whatever the state is, every sub-step judged - so that the ring of depth 8 wraps inside the depth bound.
 * Configuration 11 leaves the node in INIT (no CONodeStart): API events only plus "node-start()".
 * Options: --opt nerr=K (only the first K table errors in the alphabet), --opt big=0 (no out-of-range index),
 *          --opt id=0 (no 1014h writes), --opt nmt=0 (no NMT commands), --opt query=0 (no pure query events). */
#include <stdio.h>
#include <stdlib.h>
#include <sanitizer/asan_interface.h>
#include "mc.h"
#include "world.h"
#include "od.h"

#define NODEID    1
#define MAXH      8
#define NTAB      5                 /* errors of the emergency table that the alphabet addresses directly */
#define NSLOT     6                 /* + the last table row, reachable through an out-of-range index      */
#define SLOT_LAST 5
#define BIGIDX    200               /* >= CO_EMCY_N for every build */
#define SDO_RXID  (0x600u + NODEID)
#define SDO_TXID  (0x580u + NODEID)
#define ID_OFF    0x80000000u

static CO_NODE     Node;
static CO_OBJ      OD[40];
static uint8_t     ErrReg;
static uint32_t    EmcyId;                                       /* storage of 1014h (node-id relative) */
static uint8_t     HistNum;
static uint32_t    Hist[MAXH] __attribute__((aligned(8)));
static uint8_t     SdoBuf[CO_SSDO_N * CO_SDO_BUF_BYTE];
static CO_TMR_MEM  TMem[4];
static CO_EMCY_TBL Tbl[CO_EMCY_N];

/* ---- configurations ---- */
typedef struct { uint8_t tab, hd, id_off, init; } Cfg;
static const Cfg CFGS[] = {
    { 0, 0, 0, 0 }, { 0, 1, 0, 0 }, { 0, 2, 0, 0 }, { 0, 3, 0, 0 }, { 0, 8, 0, 0 },
    { 1, 0, 0, 0 }, { 1, 1, 0, 0 }, { 1, 2, 0, 0 }, { 1, 3, 0, 0 }, { 1, 8, 0, 0 },
    { 0, 2, 1, 0 },                                              /* 1014h initially disabled, enabled on another CAN-ID */
    { 0, 2, 0, 1 },                                              /* node initialised but not started: NMT state INIT (API events only) */
};
#define NCFG ((int)(sizeof CFGS / sizeof CFGS[0]))
static const uint8_t  CLASSES[2][NTAB] = { { 0, 1, 1, 2, 7 }, { 1, 1, 1, 1, 1 } };
static const uint16_t CODES[NTAB]      = { 0x1000, 0x2310, 0x2320, 0x3110, 0xFF10 };
static Cfg C;
/* --opt layout=K: table rows of the five addressed errors (status bytes Err[idx >> 3]: neighbours across byte borders, particular bit positions) */
static const uint8_t LAYOUTS[4][NTAB] = { { 0, 1, 2, 3, 4 }, { 5, 10, 18, 9, 3 }, { 7, 8, 15, 16, 24 }, { 6, 13, 14, 22, 29 } };
static uint8_t IDXMAP[NTAB];
static int api_idx(int err) { return err < NTAB ? IDXMAP[err] : err; }
static uint32_t ENABLE_ID;                                       /* value the "enable" event writes to 1014h */

static const char *cfg_name(int c)
{
    static char b[96];
    snprintf(b, sizeof b, "classes=%s hist=%d emcy_n=%d%s%s", CFGS[c].tab ? "1,1,1,1,1" : "0,1,1,2,7", CFGS[c].hd, (int)CO_EMCY_N,
             CFGS[c].id_off ? " 1014h-initially-disabled" : "", CFGS[c].init ? " nmt-init" : "");
    return b;
}

/* ---- reference model (state: hashed, canonical) ---- */
static struct {
    uint8_t  active[NSLOT];
    uint8_t  nhist;
    uint8_t  nmt;                 /* CO_MODE */
    uint8_t  pad;
    uint32_t hist[MAXH];          /* newest first; entries >= nhist are zero */
    uint32_t cobid;               /* value of 1014h */
} M;
static struct { uint8_t cls; uint16_t code; uint8_t idx; } MT[NSLOT];   /* the emergency table as the model sees it (constant) */

static unsigned m_mask(void) { unsigned m = 0; for (int s = 0; s < NSLOT; s++) if (M.active[s]) m |= 1u << s; return m; }
static uint8_t m_reg_of(unsigned mask)
{
    uint8_t r = 0;
    for (int s = 0; s < NSLOT; s++) if (mask & (1u << s)) r |= (uint8_t)(1u << MT[s].cls);
    if (mask) r |= 1;
    return r;
}
static int m_cnt_of(unsigned mask) { int n = 0; for (int s = 0; s < NSLOT; s++) if (mask & (1u << s)) n++; return n; }
static int m_may_send(void) { return (M.cobid & ID_OFF) == 0 && (M.nmt == CO_PREOP || M.nmt == CO_OPERATIONAL); }
static int m_sdo_ok(void)   { return M.nmt == CO_PREOP || M.nmt == CO_OPERATIONAL; }
static void m_hist_push(uint32_t v)
{
    if (C.hd == 0) return;
    for (int i = C.hd - 1; i > 0; i--) M.hist[i] = M.hist[i - 1];
    M.hist[0] = v;
    if (M.nhist < C.hd) M.nhist++;
    for (int i = M.nhist; i < MAXH; i++) M.hist[i] = 0;
}
static const char *m_active_str(void)
{
    static char b[64]; int k = 0; b[0] = 0;
    for (int s = 0; s < NSLOT; s++) if (M.active[s]) k += snprintf(b + k, sizeof b - (size_t)k, "%s#%d(class %d)", k ? "," : "", MT[s].idx, MT[s].cls);
    if (!k) snprintf(b, sizeof b, "none");
    return b;
}

/* expectation for the EMCY frames of one step */
typedef struct {
    int      n;                   /* number of frames expected                                     */
    int      reset;               /* frames of a non-silent reset: register byte from the allowed set */
    uint16_t code; uint8_t reg; uint8_t usr;
    uint8_t  allowed[32];         /* bitmap over register values (reset only)                      */
} Expect;

/* ---- alphabet ---- */
enum { EV_SET, EV_CLR, EV_RESET, EV_HWR, EV_HRD, EV_RRD, EV_GET, EV_CNT, EV_NMT, EV_ID, EV_BURST, EV_START, EV_LONG };
typedef struct { uint8_t kind, a, b; } Ev;
static Ev  EVS[80];
static int NEV;
static void ev_add(int kind, int a, int b) { EVS[NEV].kind = (uint8_t)kind; EVS[NEV].a = (uint8_t)a; EVS[NEV].b = (uint8_t)b; NEV++; }

static const char *ev_name(int e)
{
    static char b[96];
    const Ev *E = &EVS[e];
    switch (E->kind) {
    case EV_SET:   snprintf(b, sizeof b, "set(err=%d,usr=%s)", E->a, E->b ? "pattern" : "none"); break;
    case EV_CLR:   snprintf(b, sizeof b, "clr(err=%d)", E->a); break;
    case EV_RESET: snprintf(b, sizeof b, "reset(silent=%d)", E->a); break;
    case EV_HWR:   snprintf(b, sizeof b, "sdo-write(1003h:00=%d)", E->a); break;
    case EV_HRD:   snprintf(b, sizeof b, "sdo-read(1003h:%02X)", E->a); break;
    case EV_RRD:   snprintf(b, sizeof b, "sdo-read(1001h:00)"); break;
    case EV_GET:   snprintf(b, sizeof b, "get(err=%d)", E->a); break;
    case EV_CNT:   snprintf(b, sizeof b, "cnt()"); break;
    case EV_NMT:   snprintf(b, sizeof b, "nmt(%s)", E->a == 1 ? "start" : E->a == 2 ? "stop" : E->a == 130 ? "reset communication" : E->a == 129 ? "reset node" : "pre-op"); break;
    case EV_START: snprintf(b, sizeof b, "node-start()"); break;
    case EV_LONG:  snprintf(b, sizeof b, "85 x burst (255 activations) on errors %d,%d", E->a, E->b); break;
    case EV_BURST: snprintf(b, sizeof b, "burst(clr %d,set %d,clr %d,set %d+usr,clr %d,set %d)", E->a, E->a, E->a, E->a, E->b, E->b); break;
    default:       snprintf(b, sizeof b, "sdo-write(1014h:00,%s)", E->a ? "enable" : "disable"); break;
    }
    return b;
}

/* the idle SDO server keeps the multiplexer, abort override and frame pointer of the last request; the next request
 * overwrites all of them before use (COSdoCheck), so they are dead while no transfer is open */
static struct { uint16_t idx; uint8_t sub; uint32_t abort; CO_IF_FRM *frm; int on; } SdoSave;
static void c15_prehash(int phase)
{
    CO_SDO *s = &Node.Sdo[0];
    if (phase == 0) {
        SdoSave.on = (s->Obj == 0 && s->Blk.State == BLK_IDLE);
        if (!SdoSave.on) return;
        SdoSave.idx = s->Idx; SdoSave.sub = s->Sub; SdoSave.abort = s->Abort; SdoSave.frm = s->Frm;
        s->Idx = 0; s->Sub = 0; s->Abort = 0; s->Frm = 0;
    } else if (SdoSave.on) {
        s->Idx = SdoSave.idx; s->Sub = SdoSave.sub; s->Abort = SdoSave.abort; s->Frm = SdoSave.frm;
    }
}

/* --opt cbemcy=1: the application reports (or withdraws) error 0 from inside its CONmtModeChange callback, i.e. while CONmtGetMode() still names the state the
 * node is leaving - whether a frame goes out is decided by that reported state */
static int CBEMCY, cb_armed, cb_fired, cb_done_ntx;
static void do_set(int err, int withusr, const char *what);
static void do_clr(int err, const char *what);
static int slot_of(int err);
static void c15_cb_hook(uint8_t kind, uint32_t a, uint32_t b, uint32_t c)
{
    (void)a; (void)b; (void)c;
    if (kind != CB_MODE_CHANGE || !cb_armed) return;
    cb_armed = 0; cb_fired = 1;
    if (M.active[slot_of(0)]) do_clr(0, "COEmcyClr(0) inside the mode-change callback"); else do_set(0, 0, "COEmcySet(0) inside the mode-change callback");
    cb_done_ntx = OBS.ntx;
}
static void nc_poll(void) { if (!mc_opt("nopoll", 0)) (void)CONodeGetErr(&Node); }     /* --opt nopoll=1: the application never reads the node error */
static int build(int cfg)
{
    OdB b; CO_NODE_SPEC spec; CO_ERR err; uint32_t id = 0;
    int nerr = mc_opt("nerr", NTAB), big = mc_opt("big", 1), idev = mc_opt("id", 1), nmtev = mc_opt("nmt", 1), query = mc_opt("query", 1), burst;
    if (nerr < 1) nerr = 1;
    if (nerr > NTAB) nerr = NTAB;
    C = CFGS[cfg];
    burst = mc_opt("burst", C.hd > 3);                            /* macro-step: three activations at once, so that a deep ring wraps within the depth bound */
    w_reset(1000);
    ASAN_UNPOISON_MEMORY_REGION(Hist, sizeof Hist);
    memset(&Node, 0, sizeof Node); memset(OD, 0, sizeof OD); memset(Hist, 0, sizeof Hist); memset(SdoBuf, 0, sizeof SdoBuf);
    memset(TMem, 0, sizeof TMem); memset(&M, 0, sizeof M); memset(&SdoSave, 0, sizeof SdoSave);
    ErrReg = 0; HistNum = 0;

    /* emergency table: CO_EMCY_N rows (the stack clamps indices to the last row) */
    for (int i = 0; i < CO_EMCY_N; i++) { Tbl[i].Reg = 0; Tbl[i].Code = (uint16_t)(0xFF00 + i); }
    { int lay = mc_opt("layout", 0); if (lay < 0 || lay > 3) lay = 0;
      for (int i = 0; i < NTAB; i++) { IDXMAP[i] = LAYOUTS[lay][i]; if (IDXMAP[i] >= CO_EMCY_N - 1) { fprintf(stderr, "c15: layout %d needs CO_EMCY_N > %d\n", lay, IDXMAP[i] + 1); exit(2); } } }
    for (int i = 0; i < NTAB; i++)      { Tbl[IDXMAP[i]].Reg = CLASSES[C.tab][i]; Tbl[IDXMAP[i]].Code = CODES[i]; }
    for (int s = 0; s < NSLOT; s++) {
        int idx = s < NTAB ? IDXMAP[s] : CO_EMCY_N - 1;
        MT[s].idx = (uint8_t)idx; MT[s].cls = Tbl[idx].Reg; MT[s].code = Tbl[idx].Code;
    }

    od_init(&b, OD, 40); od_mandatory(&b, &ErrReg); od_sdo_server0(&b);
    EmcyId = C.id_off ? (ID_OFF | 0x80u) : 0x80u;
    ENABLE_ID = C.id_off ? 0xA1u : (0x80u + NODEID);
    od_add(&b, CO_KEY(0x1014, 0, CO_OBJ__N__RW), CO_TEMCY_ID, (CO_DATA)&EmcyId);
    if (C.hd) {
        od_add(&b, CO_KEY(0x1003, 0, CO_OBJ_____RW), CO_TEMCY_HIST, (CO_DATA)&HistNum);
        for (int n = 1; n <= C.hd; n++) od_add(&b, CO_KEY(0x1003, n, CO_OBJ_____R_), CO_TEMCY_HIST, (CO_DATA)&Hist[n - 1]);
    }
    spec.NodeId = NODEID; spec.Baudrate = 250000; spec.Dict = OD; spec.DictLen = 40; spec.EmcyCode = Tbl;
    spec.TmrMem = TMem; spec.TmrNum = 4; spec.TmrFreq = 1000; spec.Drv = &W_IfDrv; spec.SdoBuf = SdoBuf;
    CONodeInit(&Node, &spec);
    err = CONodeGetErr(&Node);
    if (err != CO_ERR_NONE) { fprintf(stderr, "c15: node initialisation failed with error %d\n", (int)err); exit(2); }
    if (!C.init) CONodeStart(&Node);
    (void)CONodeGetErr(&Node);

    M.nmt = (uint8_t)CONmtGetMode(&Node.Nmt);
    M.cobid = (C.id_off ? ID_OFF : 0u) | (0x80u + NODEID);
    (void)CODictRdLong(&Node.Dict, CO_DEV(0x1014, 0), &id);
    if (id != M.cobid || M.nmt != (C.init ? CO_INIT : CO_PREOP)) { fprintf(stderr, "c15: unexpected start state (1014h=%08X, mode %d)\n", id, M.nmt); exit(2); }
    (void)CONodeGetErr(&Node);

    /* unused history cells are poisoned: a ring that runs past the configured depth is a memory error */
    {
        int used = (C.hd + 1) & ~1;                               /* poison granularity is 8 bytes */
        if (used < MAXH) ASAN_POISON_MEMORY_REGION(&Hist[used], sizeof(uint32_t) * (size_t)(MAXH - used));
        if (used) w_region(Hist, sizeof(uint32_t) * (size_t)used, 1);
    }
    W_REG(Node); W_REG(OD); W_REG(ErrReg); W_REG(EmcyId); W_REG(HistNum); W_REG(SdoBuf); W_REG(TMem); W_REG(Tbl); W_REG(M);
    w_prehash = c15_prehash;

    NEV = 0;
    for (int e = 0; e < nerr; e++) { ev_add(EV_SET, e, 0); ev_add(EV_SET, e, 1); }
    if (big) ev_add(EV_SET, BIGIDX, 0);
    for (int e = 0; e < nerr; e++) ev_add(EV_CLR, e, 0);
    if (big) ev_add(EV_CLR, BIGIDX, 0);
    ev_add(EV_RESET, 0, 0); ev_add(EV_RESET, 1, 0);
    if (burst) ev_add(EV_BURST, 0, nerr > 1 ? 1 : 0);
    if (mc_opt("long", 0)) ev_add(EV_LONG, 0, nerr > 1 ? 1 : 0);   /* --opt long=1: 255 activations in one event - histories longer than any 8-bit counter of activations */
    if (C.init) {                                                 /* no communication in INIT: API events only */
        if (query) { for (int e = 0; e < nerr; e++) ev_add(EV_GET, e, 0); if (big) ev_add(EV_GET, BIGIDX, 0); ev_add(EV_CNT, 0, 0); }
        ev_add(EV_START, 0, 0);
        return NEV;
    }
    ev_add(EV_HWR, 0, 0); ev_add(EV_HWR, 1, 0);
    if (query) {
        for (int n = 0; n <= C.hd + 1; n++) ev_add(EV_HRD, n, 0);
        ev_add(EV_RRD, 0, 0);
        for (int e = 0; e < nerr; e++) ev_add(EV_GET, e, 0);
        if (big) ev_add(EV_GET, BIGIDX, 0);
        ev_add(EV_CNT, 0, 0);
    }
    if (nmtev) { ev_add(EV_NMT, 2, 0); ev_add(EV_NMT, 1, 0); ev_add(EV_NMT, 128, 0); ev_add(EV_NMT, 130, 0); ev_add(EV_NMT, 129, 0); }
    if (idev)  { ev_add(EV_ID, 0, 0); ev_add(EV_ID, 1, 0); }
    return NEV;
}

/* ---- SDO helper: one expedited request, returns the number of response frames ---- */
enum { R_NONE, R_ABORT, R_UPLOAD, R_DLOK, R_OTHER };
typedef struct { int kind; int len; uint32_t val; uint32_t abort; WFrame f; int nresp; } SdoAns;
static void sdo_xfer(uint8_t cmd, uint16_t idx, uint8_t sub, uint32_t data, SdoAns *a)
{
    uint8_t d[8] = { cmd, (uint8_t)idx, (uint8_t)(idx >> 8), sub, 0, 0, 0, 0 };
    int first = OBS.ntx; char fr[64] = "-";
    w_put32(d + 4, data);
    if ((cmd & 0xE3) == 0x23) for (int k = 8 - ((cmd >> 2) & 3); k < 8; k++) d[k] = (uint8_t)(0xA5 + 0x1B * k);      /* the n bytes of an expedited download that carry no data are not zero */
    memset(a, 0, sizeof *a);
    w_rx(&Node, SDO_RXID, 8, d);
    for (int i = first; i < OBS.ntx && i < W_MAX_TX; i++) if (OBS.tx[i].id == SDO_TXID) { if (a->nresp == 0) a->f = OBS.tx[i]; a->nresp++; }
    a->kind = R_NONE;
    if (a->nresp >= 1) {
        const uint8_t *r = a->f.d;
        w_fmt_frame(fr, sizeof fr, &a->f);
        if (a->f.dlc != 8) a->kind = R_OTHER;
        else if (r[0] == 0x80) { a->kind = R_ABORT; a->abort = w_get32(r + 4); }
        else if (r[0] == 0x60) a->kind = R_DLOK;
        else if ((r[0] & 0xE2) == 0x42) {                         /* expedited upload response */
            a->kind = R_UPLOAD;
            a->len = (r[0] & 1) ? 4 - ((r[0] >> 2) & 3) : 0;      /* 0: size not indicated */
            a->val = w_get32(r + 4);
        } else a->kind = R_OTHER;
    }
    mc_log("    sdo %02X %04X:%02X %08X -> %d frame(s) %s\n", cmd, idx, sub, data, a->nresp, fr);
    if (a->nresp != 1 || a->kind == R_OTHER)
        mc_fail("emcy-sdo-response", "expedited request %02X to %04X:%02X got %d response frame(s), first %s: exactly one expedited answer or abort expected",
                cmd, idx, sub, a->nresp, fr);
}
static uint32_t ans_value(const SdoAns *a, int want_len)
{
    int len = a->len ? a->len : want_len;
    return len >= 4 ? a->val : (a->val & ((1u << (8 * len)) - 1u));
}

/* ---- comparison of the EMCY frames of the step ---- */
static void check_frames(const Expect *x, int first, const char *what)
{
    WFrame f[16]; int n = 0; char fr[64] = "-";
    for (int i = first; i < OBS.ntx && i < W_MAX_TX; i++) if (OBS.tx[i].id != SDO_TXID) { if (n < 16) f[n] = OBS.tx[i]; n++; }
    if (n > 0) w_fmt_frame(fr, sizeof fr, &f[0]);
    if (n > x->n) {
        mc_fail("emcy-frame-unexpected", "%s: %d frame(s) sent, %d expected (first %s; 1014h=%08X, NMT mode %d, active after the step: %s)",
                what, n, x->n, fr, M.cobid, M.nmt, m_active_str());
        return;
    }
    if (n < x->n) {
        mc_fail("emcy-frame-missing", "%s: %d frame(s) sent, %d expected (1014h=%08X, NMT mode %d, active after the step: %s)",
                what, n, x->n, M.cobid, M.nmt, m_active_str());
        return;
    }
    for (int i = 0; i < n && i < 16; i++) {
        const WFrame *g = &f[i]; int bad = 0;
        w_fmt_frame(fr, sizeof fr, g);
        if (g->id != (M.cobid & 0x7FFu) || g->dlc != 8) bad = 1;
        if (x->reset) {
            if (g->d[0] || g->d[1] || g->d[3] || g->d[4] || g->d[5] || g->d[6] || g->d[7]) bad = 1;
            if (!(x->allowed[g->d[2] >> 3] & (1u << (g->d[2] & 7)))) bad = 1;
            if (bad) { mc_fail("emcy-frame-content", "%s: frame %d of %d is %s; expected %03X#0000rr0000000000 with rr a register value reachable while clearing", what, i + 1, n, fr, M.cobid & 0x7FFu); return; }
        } else {
            uint8_t e[8] = { (uint8_t)x->code, (uint8_t)(x->code >> 8), x->reg, 0, 0, 0, 0, 0 };
            if (x->usr) for (int k = 0; k < 5; k++) e[3 + k] = (uint8_t)(k + 1);
            if (memcmp(e, g->d, 8) != 0) bad = 1;
            if (bad) { mc_fail("emcy-frame-content", "%s: frame is %s; expected %03X#%02X%02X%02X%02X%02X%02X%02X%02X (code LE, register after the update, manufacturer bytes)",
                               what, fr, M.cobid & 0x7FFu, e[0], e[1], e[2], e[3], e[4], e[5], e[6], e[7]); return; }
        }
    }
}

/* ---- complete observable state against the model (after every step) ---- */
static void check_state(void)
{
    unsigned mask = m_mask(); uint8_t reg = m_reg_of(mask); int cnt = m_cnt_of(mask);
    uint8_t v8 = 0xEE; CO_ERR er; int16_t c;
    if (ErrReg != reg) { mc_fail("emcy-register", "error register variable is %02X, expected %02X (active: %s)", ErrReg, reg, m_active_str()); return; }
    er = CODictRdByte(&Node.Dict, CO_DEV(0x1001, 0), &v8);
    if (er != CO_ERR_NONE || v8 != reg) { mc_fail("emcy-register", "1001h reads %02X (err %d), expected %02X (active: %s)", v8, (int)er, reg, m_active_str()); return; }
    c = COEmcyCnt(&Node.Emcy);
    if (c != cnt) { mc_fail("emcy-count", "COEmcyCnt returns %d, %d error(s) are active (%s)", c, cnt, m_active_str()); return; }
    for (int s = 0; s < NSLOT; s++) {
        int16_t g = COEmcyGet(&Node.Emcy, MT[s].idx);
        if (g != M.active[s]) { mc_fail("emcy-get", "COEmcyGet(%d) returns %d, model says %d (active: %s)", MT[s].idx, g, M.active[s], m_active_str()); return; }
    }
    if (C.hd) {
        v8 = 0xEE;
        er = CODictRdByte(&Node.Dict, CO_DEV(0x1003, 0), &v8);
        if (er != CO_ERR_NONE || v8 != M.nhist) { mc_fail("emcy-history", "1003h:00 reads %u (err %d), expected %u entries", v8, (int)er, M.nhist); return; }
        for (int k = 1; k <= C.hd; k++) {
            uint32_t v = 0xEEEEEEEEu;
            er = CODictRdLong(&Node.Dict, CO_DEV(0x1003, k), &v);
            if (k <= M.nhist && (er != CO_ERR_NONE || v != M.hist[k - 1])) {
                mc_fail("emcy-history", "1003h:%02X reads %08X (err %d), expected %08X (history of %u, newest first: %08X %08X %08X ...)",
                        k, v, (int)er, M.hist[k - 1], M.nhist, M.hist[0], M.hist[1], M.hist[2]);
                return;
            }
        }
    }
}

static int slot_of(int err) { return err < NTAB ? err : SLOT_LAST; }

static void do_set(int err, int withusr, const char *what)
{
    CO_EMCY_USR usr = { 0xABCD, { 1, 2, 3, 4, 5 } };
    Expect x; int first = OBS.ntx;
    int s = slot_of(err), apply = 1;
    int16_t before = COEmcyGet(&Node.Emcy, MT[s].idx);
    memset(&x, 0, sizeof x);
    COEmcySet(&Node.Emcy, (uint8_t)api_idx(err), withusr ? &usr : 0);
    if (err >= CO_EMCY_N) {                                       /* not defined by the statement: ignored or last row */
        int16_t after = COEmcyGet(&Node.Emcy, MT[s].idx);
        apply = (before == 0 && after == 1) || OBS.ntx > first;
        mc_log("    out-of-range index %d: implementation %s\n", err, apply ? "used the last table row" : "changed nothing");
    }
    if (apply && !M.active[s]) {
        M.active[s] = 1;
        m_hist_push((uint32_t)MT[s].code | (withusr ? 0xABCD0000u : 0u));
        if (m_may_send()) { x.n = 1; x.code = MT[s].code; x.reg = m_reg_of(m_mask()); x.usr = (uint8_t)withusr; }
    }
    check_frames(&x, first, what);
}

static void do_clr(int err, const char *what)
{
    Expect x; int first = OBS.ntx;
    int s = slot_of(err), apply = 1;
    int16_t before = COEmcyGet(&Node.Emcy, MT[s].idx);
    memset(&x, 0, sizeof x);
    COEmcyClr(&Node.Emcy, (uint8_t)api_idx(err));
    if (err >= CO_EMCY_N) {
        int16_t after = COEmcyGet(&Node.Emcy, MT[s].idx);
        apply = (before == 1 && after == 0) || OBS.ntx > first;
        mc_log("    out-of-range index %d: implementation %s\n", err, apply ? "used the last table row" : "changed nothing");
    }
    if (apply && M.active[s]) {
        M.active[s] = 0;
        if (m_may_send()) { x.n = 1; x.code = 0; x.reg = m_reg_of(m_mask()); x.usr = 0; }
    }
    check_frames(&x, first, what);
}

static int step(int ev)
{
    const Ev *E = &EVS[ev];
    Expect x; SdoAns a; char what[96];
    memset(&x, 0, sizeof x);
    snprintf(what, sizeof what, "%s", ev_name(ev));

    switch (E->kind) {
    case EV_SET: do_set(E->a, E->b, what); break;
    case EV_CLR: do_clr(E->a, what); break;
    case EV_BURST:                                                /* three activations whatever the state is; every sub-step is judged */
        do_clr(E->a, what); check_state();
        do_set(E->a, 0, what); check_state();
        do_clr(E->a, what); check_state();
        do_set(E->a, 1, what); check_state();
        do_clr(E->b, what); check_state();
        do_set(E->b, 0, what);
        break;
    case EV_LONG:
        for (int r = 0; r < 85; r++) {
            w_obs_clear();                                        /* the frames of the previous round have been judged */
            do_clr(E->a, what); check_state(); do_set(E->a, 0, what); check_state(); do_clr(E->a, what); check_state();
            do_set(E->a, 1, what); check_state(); do_clr(E->b, what); check_state(); do_set(E->b, 0, what); if (r < 84) check_state();
        }
        break;
    case EV_RESET: {
        unsigned pre = m_mask();
        COEmcyReset(&Node.Emcy, E->a);
        memset(M.active, 0, sizeof M.active);
        if (E->a == 0 && m_may_send()) {
            x.n = m_cnt_of(pre); x.reset = 1;
            for (unsigned r = 0; r < (1u << NSLOT); r++)          /* register while the errors r (a proper subset) are still active */
                if ((r & ~pre) == 0 && r != pre) { uint8_t v = m_reg_of(r); x.allowed[v >> 3] |= (uint8_t)(1u << (v & 7)); }
        }
        check_frames(&x, 0, what);
        break; }
    case EV_HWR:
        if (!m_sdo_ok()) return MC_SKIP;
        sdo_xfer(0x2F, 0x1003, 0, E->a, &a);
        check_frames(&x, 0, what);
        if (C.hd == 0) break;                                     /* object absent: verdict is C04's business */
        if (E->a == 0) {
            if (a.kind == R_DLOK) { M.nhist = 0; memset(M.hist, 0, sizeof M.hist); }
            else if (a.kind == R_ABORT) mc_fail("emcy-hist-write-verdict", "writing 0 to 1003h:00 was refused with abort %08X; it must clear the history", a.abort);
        } else {
            if (a.kind == R_DLOK) mc_fail("emcy-hist-write-verdict", "writing %d to 1003h:00 was confirmed; only 0 may be written", E->a);
        }
        break;
    case EV_HRD:
        if (!m_sdo_ok()) return MC_SKIP;
        sdo_xfer(0x40, 0x1003, E->a, 0, &a);
        check_frames(&x, 0, what);
        if (C.hd == 0 || E->a > M.nhist) break;                   /* nothing stored there: 0, abort, ... all admissible */
        if (E->a == 0) {
            if (a.kind != R_UPLOAD || (a.len && a.len != 1) || ans_value(&a, 1) != M.nhist)
                mc_fail("emcy-history", "SDO read of 1003h:00 answers kind %d len %d value %08X abort %08X, expected the count %u", a.kind, a.len, a.val, a.abort, M.nhist);
        } else {
            if (a.kind != R_UPLOAD || (a.len && a.len != 4) || a.val != M.hist[E->a - 1])
                mc_fail("emcy-history", "SDO read of 1003h:%02X answers kind %d len %d value %08X abort %08X, expected %08X (history of %u, newest first)",
                        E->a, a.kind, a.len, a.val, a.abort, M.hist[E->a - 1], M.nhist);
        }
        break;
    case EV_RRD: {
        uint8_t reg = m_reg_of(m_mask());
        if (!m_sdo_ok()) return MC_SKIP;
        sdo_xfer(0x40, 0x1001, 0, 0, &a);
        check_frames(&x, 0, what);
        if (a.kind != R_UPLOAD || (a.len && a.len != 1) || ans_value(&a, 1) != reg)
            mc_fail("emcy-register", "SDO read of 1001h answers kind %d len %d value %08X abort %08X, expected %02X (active: %s)", a.kind, a.len, a.val, a.abort, reg, m_active_str());
        break; }
    case EV_GET: {
        int s = slot_of(E->a);
        int16_t g = COEmcyGet(&Node.Emcy, (uint8_t)api_idx(E->a));
        mc_log("    COEmcyGet(%d) -> %d\n", E->a, g);
        w_cb(CB_USER, EV_GET, (uint32_t)g, 0);                    /* the return value is an observation of the step */
        check_frames(&x, 0, what);
        if (E->a >= CO_EMCY_N) { if (g > 0 && g != M.active[s]) mc_fail("emcy-get", "COEmcyGet(%d) (out of range) returns %d while the last table row is %s", E->a, g, M.active[s] ? "active" : "inactive"); }
        else if (g != M.active[s]) mc_fail("emcy-get", "COEmcyGet(%d) returns %d, model says %d (active: %s)", E->a, g, M.active[s], m_active_str());
        break; }
    case EV_CNT: {
        int16_t c = COEmcyCnt(&Node.Emcy);
        mc_log("    COEmcyCnt() -> %d\n", c);
        w_cb(CB_USER, EV_CNT, (uint32_t)c, 0);
        check_frames(&x, 0, what);
        if (c != m_cnt_of(m_mask())) mc_fail("emcy-count", "COEmcyCnt returns %d, %d error(s) are active (%s)", c, m_cnt_of(m_mask()), m_active_str());
        break; }
    case EV_NMT: {
        uint8_t d[2] = { E->a, NODEID };
        CBEMCY = mc_opt("cbemcy", 0); cb_fired = 0; cb_done_ntx = 0;
        if (CBEMCY && E->a != 129 && E->a != 130) { cb_armed = 1; w_cb_hook = c15_cb_hook; }
        w_rx(&Node, 0x000, 2, d);
        cb_armed = 0; w_cb_hook = 0;
        M.nmt = (uint8_t)CONmtGetMode(&Node.Nmt);                 /* the NMT machine itself is C09's subject: follow it */
        if (E->a == 129 || E->a == 130) {
            /* an NMT reset clears every error without an emergency frame (C20: "emergencies cleared"); register, count and the frames of
             * later activations follow from that, and the history still lists the most recent activations.  The boot-up frame is not ours. */
            int k = 0;
            for (int i = 0; i < OBS.ntx && i < W_MAX_TX; i++) if (!(OBS.tx[i].id == 0x700u + NODEID && OBS.tx[i].dlc == 1 && OBS.tx[i].d[0] == 0)) OBS.tx[k++] = OBS.tx[i];
            if (OBS.ntx <= W_MAX_TX) OBS.ntx = k;
            memset(M.active, 0, sizeof M.active);
        }
        mc_log("    NMT command %d -> mode %d\n", E->a, M.nmt);
        check_frames(&x, cb_fired ? cb_done_ntx : 0, what);
        break; }
    case EV_START:                                                /* INIT -> PRE-OPERATIONAL (boot-up message), only in the INIT configuration */
        if (M.nmt != CO_INIT) return MC_SKIP;
        CONodeStart(&Node);
        M.nmt = (uint8_t)CONmtGetMode(&Node.Nmt);
        mc_log("    CONodeStart -> mode %d\n", M.nmt);
        for (int i = 0; i < OBS.ntx && i < W_MAX_TX; i++)
            if (OBS.tx[i].id != 0x700u + NODEID) mc_fail("emcy-frame-unexpected", "node start sent a frame with identifier %03X", OBS.tx[i].id);
        break;
    default: {                                                    /* EV_ID */
        uint32_t v = E->a ? ENABLE_ID : (M.cobid | ID_OFF);
        if (!m_sdo_ok()) return MC_SKIP;
        sdo_xfer(0x23, 0x1014, 0, v, &a);
        if (a.kind == R_DLOK) M.cobid = v;                        /* a refused write changes nothing; the verdict is not C15's subject */
        mc_log("    1014h <- %08X %s; model 1014h=%08X\n", v, a.kind == R_DLOK ? "confirmed" : "refused", M.cobid);
        check_frames(&x, 0, what);
        break; }
    }

    check_state();
    nc_poll();                                                       /* the application reads (and thereby clears) the node error */
    return MC_OK;
}

static const mc_harness H = { "C15", "c15", NCFG, cfg_name, build, ev_name, step, 12, 6 };
int main(int argc, char **argv) { return mc_main(argc, argv, &H); }
