/* C16 - SYNC is recognised and produced exactly as 1005h/1006h say.
 * BFS over SDO writes to 1005h/1006h, SYNC and near-miss frames, NMT commands, ticks and the application
 * reading the node error; reference model {id, producing, period, phase}; a type-1 TPDO and a synchronous
 * RPDO are the reaction probes. */
#include "node_common.h"

enum { M_INIT = 1, M_PREOP = 2, M_OP = 3, M_STOP = 4 };       /* M_INIT: cfg 7, the node is initialised but not started - time passes, nothing may be produced */
static struct { uint8_t mode, producing, pending_rx, pend_val, p8, cnt2 /* SYNCs counted by the type-2 TPDO #3 */; uint32_t cobid /* stored 1005h */, cycle /* stored 1006h in ticks*1000 us */; uint16_t rem; } M;
static uint32_t USPT;   /* microseconds per tick */
static int INH;

static const uint32_t ID_VALS[] = { 0x80u, 0x81u, 0x40000080u, 0x40000081u };
static const uint32_t CY_TICKS_X2[] = { 0, 2, 4, 6, 1 };   /* period in half ticks: 0, 1, 2, 3 ticks and half a tick (below resolution) */
enum { E_ID0 = 0, E_CY0 = 4, E_F80 = 9, E_F81, E_F7F, E_START, E_STOP, E_PREOP, E_RESET, E_TICK, E_GETERR, E_RPDO_A, E_RPDO_B, E_LOCAL, E_NODESTART, E_N };

static const char *cfg_name(int c) { static const char *const n[] = { "1kHz 1005h=80h 1006h=0", "1kHz 80h/2 ticks", "1kHz producer 40000080h/2 ticks", "1kHz producer 40000081h/3 ticks", "10kHz producer 40000080h/2 ticks", "1kHz producer bit set, 1006h=0 at start-up", "1kHz 80h/2 ticks, synchronous TPDOs with an inhibit time of 2 ms", "1kHz producer 40000080h/2 ticks, node initialised but not started" }; return n[c]; }

static int build(int cfg)
{
    static const uint32_t ID0[] = { 0x80u, 0x80u, 0x40000080u, 0x40000081u, 0x40000080u, 0x40000080u, 0x80u, 0x40000080u }; static const uint32_t CYT[] = { 0, 2, 2, 3, 2, 0, 2, 2 };   /* cfg 5: the usual EDS default - producer bit set, period 0: production has to start with the first valid 1006h write */
    nc_defaults();
    NC.freq = cfg == 4 ? 10000 : 1000; USPT = 1000000u / NC.freq;
    NC.sync = 1; NC.sync_id = ID0[cfg]; NC.sync_cycle = CYT[cfg] * USPT;
    /* --opt rnum=K / tlast=K: number of the synchronous RPDO / of the second synchronous TPDO (builds with CO_RPDO_N != CO_TPDO_N: the highest RPDO number lies
     * above the TPDO count and vice versa) */
    int rn = mc_opt("rnum", 0), tl = mc_opt("tlast", 3);
    NC.n_rpdo = rn + 1; NC.rpdo[rn].present = 1; NC.rpdo[rn].cobid = 0x201; NC.rpdo[rn].type = 1; NC.rpdo[rn].nmap = 1; NC.rpdo[rn].map[0] = NC_MAP(0x2110, 0, 8);
    NC.n_tpdo = tl + 1; NC.tpdo[0].present = 1; NC.tpdo[0].cobid = 0x40000181u; NC.tpdo[0].type = 1; NC.tpdo[0].nmap = 1; NC.tpdo[0].map[0] = NC_MAP(0x2111, 0, 16);
    /* a second synchronous TPDO, number 3 and type 2: "every SYNC advances EACH synchronous PDO's schedule exactly once" */
    NC.tpdo[tl].present = 1; NC.tpdo[tl].cobid = 0x40000481u; NC.tpdo[tl].type = 2; NC.tpdo[tl].nmap = 1; NC.tpdo[tl].map[0] = NC_MAP(0x2110, 0, 8);
    /* cfg 6: the synchronous TPDOs own inhibit timers - one-shot timers that come and go next to the producer's cyclic one (timer ids are re-used); how the
     * inhibit time interacts with SYNC-driven transmission is not C16's business: at most one frame per TPDO and step is demanded there */
    INH = (cfg == 6);
    NC.no_start = (cfg == 7);       /* cfg 7: producer configured, node initialised but not started: the producer's timer runs, the bus stays silent until CONodeStart */
    if (INH) { NC.tpdo[0].inhibit = 20; NC.tpdo[tl].inhibit = 20; }
    nc_build();
    (void)CONodeGetErr(&Node);
    memset(&M, 0, sizeof M);
    M.mode = (uint8_t)(cfg == 7 ? M_INIT : M_PREOP); M.cobid = ID0[cfg]; M.cycle = CYT[cfg] * 2; M.producing = (ID0[cfg] >> 30) & 1; M.rem = (uint16_t)CYT[cfg]; M.p8 = P8;
    W_REG(M);
    return cfg == 7 ? E_N : E_N - 1;
}

static const char *ev_name(int e)
{
    static char b[64];
    static const char *const N[] = { "frame 80h", "frame 81h", "frame 7Fh", "NMT start", "NMT stop", "NMT pre-op", "NMT reset communication", "tick", "CONodeGetErr", "RPDO frame A", "RPDO frame B", "local write of the mapped object", "application: CONodeStart" };
    if (e < E_CY0) snprintf(b, sizeof b, "SDO 1005h=%08X", ID_VALS[e]);
    else if (e < E_F80) snprintf(b, sizeof b, "SDO 1006h=%u.%u tick(s)", CY_TICKS_X2[e - E_CY0] / 2, (CY_TICKS_X2[e - E_CY0] & 1) * 5);
    else snprintf(b, sizeof b, "%s", N[e - E_F80]);
    return b;
}

static int resolvable(uint32_t half_ticks) { return half_ticks >= 2 && (half_ticks & 1) == 0; }

static int step(int e)
{
    int expect_sync = 0, expect_tpdo = 0, expect_tpdo3 = 0; uint8_t d[8] = { 0 }; uint32_t r, back;
    if (M.mode == M_INIT && e != E_TICK && e != E_NODESTART && e != E_GETERR) return MC_SKIP;      /* no NMT, SDO or PDO service before the node is started */
    if (e == E_NODESTART) { if (M.mode != M_INIT) return MC_SKIP; M.mode = M_PREOP; CONodeStart(&Node); }
    if (e < E_CY0) {                                           /* ---- write 1005h ---- */
        uint32_t nv = ID_VALS[e]; int verdict = 0;             /* 0 accept, 1 refuse 0609 0030, 2 either */
        if (M.mode == M_STOP) return MC_SKIP;
        if (M.producing) { if ((nv & 0x1FFFFFFF) != (M.cobid & 0x1FFFFFFF)) verdict = 1; }
        else if ((nv >> 30) & 1) { if (!resolvable(M.cycle)) verdict = 2; }
        r = nc_sdo_write(0x1005, 0, nv, 4);
        if (verdict == 1 && r != CO_SDO_ERR_RANGE) mc_fail("sync-id-verdict", "changing the CAN-ID of 1005h (%08X -> %08X) while producing must be refused with 0609 0030h, got %08X", M.cobid, nv, r);
        else if (verdict == 0 && r != 0) mc_fail("sync-id-verdict", "write of %08X to 1005h (old %08X, period %u half ticks) refused with %08X", nv, M.cobid, M.cycle, r);
        else if (verdict == 2 && r != 0 && r != CO_SDO_ERR_RANGE) mc_fail("sync-id-verdict", "write of %08X to 1005h answered with %08X", nv, r);
        if (r == 0) {
            int was = M.producing; M.cobid = nv; M.producing = (nv >> 30) & 1;
            if (M.producing && !was) M.rem = (uint16_t)(M.cycle / 2);          /* production starts at the write */
            if (M.producing && !resolvable(M.cycle)) M.rem = 0;                 /* accepted without a usable period: nothing can be emitted */
        }
        OBS.ntx = 0; OBS.ncb = 0;
        if (nc_sdo_read(0x1005, 0, &back) != 0 || back != M.cobid) mc_fail("sync-id-readback", "1005h reads back %08X, expected %08X", back, M.cobid);
    } else if (e < E_F80) {                                    /* ---- write 1006h ---- */
        uint32_t half = CY_TICKS_X2[e - E_CY0], us = half * USPT / 2; int verdict = 0;
        if (M.mode == M_STOP) return MC_SKIP;
        if (M.producing) { if (half == 0) verdict = 2; else if (!resolvable(half)) verdict = 1; }
        r = nc_sdo_write(0x1006, 0, us, 4);
        if (verdict == 1 && r != CO_SDO_ERR_RANGE) mc_fail("sync-cycle-verdict", "period %u us (below the timer resolution) must be refused with 0609 0030h while producing, got %08X", us, r);
        else if (verdict == 0 && r != 0) mc_fail("sync-cycle-verdict", "write of %u us to 1006h refused with %08X (producing=%d)", us, r, M.producing);
        else if (verdict == 2 && r != 0 && r != CO_SDO_ERR_RANGE) mc_fail("sync-cycle-verdict", "write of 0 to 1006h answered with %08X", r);
        if (r == 0) { M.cycle = half; if (M.producing) M.rem = (uint16_t)(resolvable(half) ? half / 2 : 0); }
        OBS.ntx = 0; OBS.ncb = 0;
        if (nc_sdo_read(0x1006, 0, &back) != 0 || back != M.cycle * USPT / 2) mc_fail("sync-cycle-readback", "1006h reads back %u, expected %u", back, M.cycle * USPT / 2);
    } else switch (e) {
    case E_F80: case E_F81: case E_F7F: {
        uint32_t id = e == E_F80 ? 0x80 : e == E_F81 ? 0x81 : 0x7F;
        int recognised = (id == (M.cobid & 0x7FF)) && (M.mode == M_PREOP || M.mode == M_OP);
        if (recognised && M.mode == M_OP) { expect_tpdo = 1; if (++M.cnt2 == 2) { M.cnt2 = 0; expect_tpdo3 = 1; } if (M.pending_rx == 1) { M.p8 = M.pend_val; } M.pending_rx = 0; }
        w_rx(&Node, id, 0, d);
        if (nc_count_cb(CB_IF_RECEIVE) != (recognised || M.mode == M_STOP ? nc_count_cb(CB_IF_RECEIVE) * (M.mode == M_STOP) : 1))
            mc_fail("sync-recognition", "frame %03X with 1005h=%08X in mode %d: handed to the application %d time(s)", id, M.cobid, M.mode, nc_count_cb(CB_IF_RECEIVE));
        break; }
    case E_START: if (M.mode != M_OP) { M.pending_rx = M.pending_rx ? 2 : 0; M.cnt2 = 0; } M.mode = M_OP; nc_nmt(1, 0); break;   /* entering OPERATIONAL restarts the schedule */
    case E_STOP:  M.mode = M_STOP; M.cnt2 = 0; if (M.pending_rx) M.pending_rx = 2; nc_nmt(2, 0); break;
    case E_PREOP: M.mode = M_PREOP; M.cnt2 = 0; if (M.pending_rx) M.pending_rx = 2; nc_nmt(128, 0); break;
    case E_RESET: M.mode = M_PREOP; M.cnt2 = 0; M.pending_rx = 0; M.producing = (M.cobid >> 30) & 1; M.rem = (uint16_t)(M.producing && resolvable(M.cycle) ? M.cycle / 2 : 0); nc_nmt(130, 0); break;
    case E_TICK:
        if (M.producing && M.rem > 0) { if (--M.rem == 0) { M.rem = (uint16_t)(M.cycle / 2); if (M.mode == M_PREOP || M.mode == M_OP) expect_sync = 1; } }
        w_tick(&Node, 1); break;
    case E_GETERR: (void)CONodeGetErr(&Node); break;
    case E_RPDO_A: case E_RPDO_B:
        if (M.mode == M_OP) { M.pending_rx = 1; M.pend_val = (uint8_t)(e == E_RPDO_A ? 0xA5 : 0x5B); }
        d[0] = (uint8_t)(e == E_RPDO_A ? 0xA5 : 0x5B); w_rx(&Node, 0x201, 1, d); break;
    case E_LOCAL: P8 = 0x77; M.p8 = 0x77; break;
    default: break;
    }
    /* ---- SYNC emissions and synchronous PDO reactions of the step ---- */
    {
        int nsync = 0, ntp = nc_count_tx(0x181), ntp3 = nc_count_tx(0x481);
        for (int i = 0; i < OBS.ntx; i++) {
            const WFrame *f = &OBS.tx[i];
            if (f->id == 0x181 || f->id == 0x481 || f->id == 0x581 || (f->id == 0x701 && (e == E_RESET || e == E_NODESTART))) continue;
            if (f->id == (M.cobid & 0x7FF) && f->dlc == 0) { nsync++; continue; }
            mc_fail("sync-unexpected-frame", "frame %03X (DLC %d) sent on '%s' with 1005h=%08X", f->id, f->dlc, ev_name(e), M.cobid); return MC_OK;
        }
        if (nsync != expect_sync) { mc_fail(nsync < expect_sync ? "sync-missing" : "sync-unexpected", "%d SYNC frame(s) produced on '%s', expected %d (producing=%d period=%u half ticks, %u tick(s) to go, mode %d)", nsync, ev_name(e), expect_sync, M.producing, M.cycle, M.rem, M.mode); return MC_OK; }
        if (INH) { if (ntp > 1 || ntp3 > 1) { mc_fail("sync-tpdo-reaction", "%d / %d frames of the synchronous TPDOs in one step", ntp, ntp3); return MC_OK; } }
        else if (ntp3 != expect_tpdo3) { mc_fail("sync-tpdo-reaction", "%d frame(s) of the type-2 TPDO #3 on '%s', expected %d (SYNC count %d, mode %d, 1005h=%08X)", ntp3, ev_name(e), expect_tpdo3, M.cnt2, M.mode, M.cobid); return MC_OK; }
        if (!INH && ntp != expect_tpdo) { mc_fail("sync-tpdo-reaction", "%d synchronous TPDO frame(s) on '%s', expected %d (mode %d, 1005h=%08X)", ntp, ev_name(e), expect_tpdo, M.mode, M.cobid); return MC_OK; }
    }
    if (M.pending_rx == 2) {               /* a frame buffered before an NMT change: applying it at the next SYNC in OPERATIONAL or dropping it are both admissible */
        if (P8 != M.p8 && P8 == M.pend_val) { M.p8 = P8; M.pending_rx = 0; }
    }
    if (P8 != M.p8) { mc_fail("sync-rpdo-reaction", "object mapped into the synchronous RPDO is %02X, expected %02X (buffered=%d)", P8, M.p8, M.pending_rx); return MC_OK; }
    if (M.pending_rx != 1) M.pend_val = 0;
    return MC_OK;
}

static const mc_harness H = { "C16", "c16", 8, cfg_name, build, ev_name, step, 6, 8 };
int main(int argc, char **argv) { return mc_main(argc, argv, &H); }
