/* C14 - PDO reconfiguration keeps every accepted configuration valid.
 * BFS over expedited SDO write histories to 1400h/1600h/1800h/1A00h + NMT start/pre-op; reference model of the
 * CiA 301 preconditions; at every activation the PDO must behave exactly as stored. */
#include "node_common.h"

#define M8      0x21100008u
#define M16     0x21110010u
#define M32     0x21120020u
#define NONMAP  0x21200020u
#define RO32    0x21210020u
#define WO32    0x21220020u
#define MISSING 0x2FFF0008u
#define LEN64   0x21120040u
#define LENMIS  0x21100010u
static const uint32_t MAPV[] = { M8, M16, M32, NONMAP, RO32, WO32, MISSING, LEN64, LENMIS };
#define NMAPV 9
static const uint8_t  CNTV[] = { 0, 1, 2, 8, 9, 4, 5 };
#define NCNT 7
static const uint8_t  TYPV[] = { 1, 254, 255 };
static const uint8_t  SUBK[] = { 1, 2, 8 };

typedef struct { uint32_t cob; uint8_t type, count; uint32_t map[8]; } MP;       /* map[k-1] for sub k */
static struct { uint8_t op, stopped; MP p[2]; } M;                                         /* p[0] RPDO #PN, p[1] TPDO #PN */
/* cfg selects the number PN of the RPDO/TPDO pair under reconfiguration; the other three pairs are valid bystanders (one 16-bit object
 * each) that must keep working as configured whatever is written to pair PN - index arithmetic 14xxh/16xxh/18xxh/1Axxh + n */
static int PN, INHIBIT_CFG;
#define STOPPED M.stopped
static const uint32_t COBASE[2] = { 0x00000201u, 0x40000181u };
#define COB0(pdo) (COBASE[pdo] + 0x100u * (uint32_t)PN)

/* events per PDO: 6 id values, 3 types, 7 counts, 3*9 map writes (subs 1,2,8), 3 fill macros (all 8 entries := 32-bit / 64-bit / 8-bit object) = 46 */
#define EPP (6 + 3 + NCNT + 3 * NMAPV + 3)
#define K_CNT0 9
#define K_MAP0 (K_CNT0 + NCNT)
#define K_FILL0 (K_MAP0 + 3 * NMAPV)
enum { E_START = 2 * EPP, E_PREOP, E_STOP, E_SYNC, E_EVT3, E_TICKS, E_N };      /* E_SYNC, E_EVT3: cfg 8..11; E_TICKS: cfg 10, 11 */
static uint32_t idval(int pdo, int k)
{
    uint32_t base = COB0(pdo);
    switch (k) { case 0: return base; case 1: return base | 0x80000000u; case 2: return base + 0x010; case 3: return (base + 0x010) | 0x80000000u; case 4: return base | 0x20000000u | 0x80000000u; default: return (base & ~0x40000000u) | 0x80000000u | (pdo ? 0 : 0x20000000u); }
}
static const char *cfg_name(int c) { static char b[64]; snprintf(b, sizeof b, "PDO pair #%d%s, %s", c < 2 ? 0 : c < 4 ? 1 : c < 6 ? 3 : 1, c >= 10 ? " (event-driven TPDO; SYNC, 18xxh:5 writes and time in the histories)" : c >= 8 ? " (both synchronous, TPDO with inhibit time; SYNC and 18xxh:5 writes in the histories)" : c >= 6 ? " (both synchronous)" : "", c & 1 ? "started OPERATIONAL" : "PRE-OPERATIONAL"); return b; }

static int build(int cfg)
{
    nc_defaults();
    NC.sync = 1; NC.sync_id = 0x80;
    int sync0 = cfg >= 6 && cfg < 10;          /* cfg 6, 7: the pair under reconfiguration (#1) starts with both PDOs synchronous (type 1): they share one SYNC table */
    PN = cfg < 2 ? 0 : cfg < 4 ? 1 : cfg < 6 ? 3 : 1;
    NC.n_rpdo = 4; NC.n_tpdo = 4;
    for (int i = 0; i < 4; i++) {
        NC.rpdo[i].present = 1; NC.rpdo[i].cobid = COBASE[0] + 0x100u * (uint32_t)i; NC.rpdo[i].type = 255; NC.rpdo[i].nmap = 1; NC.rpdo[i].map[0] = i == PN ? M8 : M16;
        NC.tpdo[i].present = 1; NC.tpdo[i].cobid = COBASE[1] + 0x100u * (uint32_t)i; NC.tpdo[i].type = 254; NC.tpdo[i].nmap = 1; NC.tpdo[i].map[0] = i == PN ? M8 : M16;
    }
    NC.tpdo[PN].event = 2;
    if (sync0) { NC.rpdo[PN].type = 1; NC.tpdo[PN].type = 1; }
    INHIBIT_CFG = cfg >= 8 && cfg < 10;
    if (INHIBIT_CFG) NC.tpdo[PN].inhibit = 20;     /* 2 ms: every transmission of the TPDO under reconfiguration opens an inhibit window, and the histories write 18xxh:5 inside it */
    NC.operational = cfg & 1;
    nc_build();
    (void)CONodeGetErr(&Node);
    memset(&M, 0, sizeof M);
    M.op = (uint8_t)(cfg & 1);
    for (int i = 0; i < 2; i++) { M.p[i].cob = COB0(i); M.p[i].type = (uint8_t)(sync0 ? 1 : i ? 254 : 255); M.p[i].count = 1; M.p[i].map[0] = M8; }
    W_REG(M);
    return cfg >= 10 ? E_N : cfg >= 8 ? E_N - 1 : E_N - 3;
}

static const char *ev_name(int e)
{
    static char b[64];
    if (e >= E_START) return e == E_START ? "NMT start" : e == E_PREOP ? "NMT pre-op" : e == E_STOP ? "NMT stop" : e == E_SYNC ? "SYNC" : e == E_EVT3 ? "SDO 18xxh:5=3 (accepted at any time)" : "3 ticks pass";
    int pdo = e / EPP, k = e % EPP; uint16_t com = (uint16_t)((pdo ? 0x1800 : 0x1400) + PN), map = (uint16_t)((pdo ? 0x1A00 : 0x1600) + PN);
    if (k < 6) snprintf(b, sizeof b, "SDO %04Xh:1=%08X", com, idval(pdo, k));
    else if (k < 9) snprintf(b, sizeof b, "SDO %04Xh:2=%d", com, TYPV[k - 6]);
    else if (k < K_MAP0) snprintf(b, sizeof b, "SDO %04Xh:0=%d", map, CNTV[k - K_CNT0]);
    else if (k < K_FILL0) snprintf(b, sizeof b, "SDO %04Xh:%d=%08X", map, SUBK[(k - K_MAP0) / NMAPV], MAPV[(k - K_MAP0) % NMAPV]);
    else snprintf(b, sizeof b, "SDO %04Xh:1..8 all = %s", map, k == K_FILL0 ? "32-bit object" : k == K_FILL0 + 1 ? "64 bits" : "8-bit object");
    return b;
}

static int valid(const MP *p) { return !(p->cob >> 31); }
static uint32_t entry(const MP *p, int sub) { return (sub >= 1 && sub <= 8) ? p->map[sub - 1] : 0; }
static int clean(const MP *p)              /* configuration whose meaning the statement defines: every counted entry names a mappable object with its own width */
{
    for (int s = 1; s <= p->count; s++) { uint32_t m = entry(p, s); if (m != M8 && m != M16 && m != M32 && m != RO32 && m != WO32) return 0; }
    return 1;
}
static int bytes(const MP *p) { int n = 0; for (int s = 1; s <= p->count && s <= 8; s++) n += (int)(entry(p, s) & 0xFF) >> 3; return n; }

#define V_ACCEPT 0
#define V_REFUSE 1      /* with code (0 = any abort code) */
#define V_EITHER 2

/* objects touched by RPDO probes are restored afterwards */
static void restore_objects(void) { P8 = 0x22; P16 = 0x5566; P32 = 0xBBCCDDEE; W32 = 0x0E0F1011; R32 = 0x0A0B0C0D; N32 = 0x01020304; }

/* the three other PDO pairs work as configured (OPERATIONAL only) */
static int probe_bystanders(const char *when)
{
    static const uint8_t pay[8] = { 0xA1, 0xA2, 0xA3, 0xA4, 0xA5, 0xA6, 0xA7, 0xA8 };
    if (!M.op) return 0;
    for (int m = 0; m < 4; m++) {
        if (m == PN) continue;
        OBS.ntx = 0; OBS.ncb = 0;
        COTPdoTrigPdo(Node.TPdo, (uint16_t)m);
        if (OBS.ntx != 1 || OBS.tx[0].id != 0x181u + 0x100u * (uint32_t)m || OBS.tx[0].dlc != 2 || OBS.tx[0].d[0] != (uint8_t)P16 || OBS.tx[0].d[1] != (uint8_t)(P16 >> 8)) {
            char a[40] = "-"; if (OBS.ntx) w_fmt_frame(a, sizeof a, &OBS.tx[0]);
            mc_fail("pdo-bystander-disturbed", "%s: trigger of the untouched TPDO #%d gives %d frame(s), first %s; expected %03X with the 16-bit object", when, m, OBS.ntx, a, 0x181 + 0x100 * m); return 1; }
        restore_objects(); OBS.ntx = 0; OBS.ncb = 0;
        w_rx(&Node, 0x201u + 0x100u * (uint32_t)m, 8, pay);
        if (P16 != 0xA2A1 || P8 != 0x22 || P32 != 0xBBCCDDEE || W32 != 0x0E0F1011) {
            mc_fail("pdo-bystander-disturbed", "%s: a frame for the untouched RPDO #%d gives P16=%04X P8=%02X P32=%08X W32=%08X, expected only P16=A2A1", when, m, P16, P8, P32, W32); restore_objects(); return 1; }
        restore_objects();
    }
    OBS.ntx = 0; OBS.ncb = 0;
    return 0;
}
/* a PDO that is stored invalid neither transmits nor receives (any NMT state) */
static int probe_invalid(int pdo, const char *when, uint32_t old_id)
{
    static const uint8_t pay[8] = { 0xB1, 0xB2, 0xB3, 0xB4, 0xB5, 0xB6, 0xB7, 0xB8 };
    OBS.ntx = 0; OBS.ncb = 0;
    if (pdo) {
        COTPdoTrigPdo(Node.TPdo, (uint16_t)PN);
        if (OBS.ntx != 0) { char a[40]; w_fmt_frame(a, sizeof a, &OBS.tx[0]); mc_fail("pdo-invalid-still-active", "%s: TPDO #%d is stored invalid but a trigger sends %s", when, PN, a); return 1; }
    } else {
        restore_objects();
        w_rx(&Node, old_id & 0x7FF, 8, pay);
        if (P8 != 0x22 || P16 != 0x5566 || P32 != 0xBBCCDDEE || W32 != 0x0E0F1011) { mc_fail("pdo-invalid-still-active", "%s: RPDO #%d is stored invalid but a frame on %03X changed a mapped object", when, PN, old_id & 0x7FF); restore_objects(); return 1; }
        restore_objects();
    }
    OBS.ntx = 0; OBS.ncb = 0;
    return 0;
}

static void probe_tpdo(const char *when)
{
    const MP *p = &M.p[1]; int want = bytes(p), pos = 0; uint8_t d[8] = { 0 };
    OBS.ntx = 0; OBS.ncb = 0;
    COTPdoTrigPdo(Node.TPdo, (uint16_t)PN);
    if (Node.TPdo[PN].ObjNum > 8) { mc_fail("pdo-activated-too-many", "%s: activated TPDO has %d mapped objects", when, Node.TPdo[PN].ObjNum); return; }
    { int s = 0; for (int i = 0; i < Node.TPdo[PN].ObjNum && i < 8; i++) s += Node.TPdo[PN].Size[i]; if (s > 8) { mc_fail("pdo-activated-too-long", "%s: activated TPDO maps %d bytes", when, s); return; } }
    for (int i = 0; i < OBS.ntx; i++) if (OBS.tx[i].dlc > 8) { mc_fail("pdo-activated-too-long", "%s: TPDO frame with DLC %d", when, OBS.tx[i].dlc); return; }
    if (!clean(p)) return;
    if (OBS.ntx != 1 || OBS.tx[0].id != (p->cob & 0x7FF)) { mc_fail("pdo-activation-differs", "%s: trigger of the valid TPDO produced %d frame(s) (first id %03X), expected one on %03X", when, OBS.ntx, OBS.ntx ? OBS.tx[0].id : 0, p->cob & 0x7FF); return; }
    for (int s = 1; s <= p->count; s++) { uint32_t m = entry(p, s), v = m == M8 ? P8 : m == M16 ? P16 : m == M32 ? P32 : m == RO32 ? R32 : W32; int w = (int)(m & 0xFF) >> 3; for (int b = 0; b < w; b++) d[pos++] = (uint8_t)(v >> (8 * b)); }
    if (OBS.tx[0].dlc != want || memcmp(OBS.tx[0].d, d, (size_t)want)) { char a[40]; w_fmt_frame(a, sizeof a, &OBS.tx[0]); mc_fail("pdo-activation-differs", "%s: TPDO frame %s does not carry the stored mapping (%d bytes: %02X %02X %02X %02X ...)", when, a, want, d[0], d[1], d[2], d[3]); return; }
    /* the application's object trigger follows the stored mapping, too: an object that an EARLIER mapping of this TPDO held no longer sends it */
    if (INHIBIT_CFG) return;
    {
        static const uint32_t OB[] = { M8, M32, RO32, WO32 };
        for (unsigned k = 0; k < sizeof OB / sizeof OB[0]; k++) {
            CO_OBJ *o = CODictFind(&Node.Dict, CO_DEV(OB[k] >> 16, (OB[k] >> 8) & 0xFF)); int mapped = 0, n;
            if (!o) continue;
            for (int sx = 1; sx <= p->count; sx++) if (entry(p, sx) == OB[k]) mapped++;       /* an object mapped k times: one transmission per link is tolerated (C12 decides the trigger rules) */
            OBS.ntx = 0; OBS.ncb = 0;
            COTPdoTrigObj(Node.TPdo, o);
            n = nc_count_tx(p->cob & 0x7FF);
            if (OBS.ntx != n) { mc_fail("pdo-activation-differs", "%s: COTPdoTrigObj(%04X:00) sends %d frame(s) of other PDOs", when, OB[k] >> 16, OBS.ntx - n); return; }
            if ((mapped == 0 && n != 0) || (mapped > 0 && (n < 1 || n > mapped))) { mc_fail("pdo-activation-differs", "%s: COTPdoTrigObj(%04X:00) sends %d frame(s) of TPDO #%d, the stored mapping %s this object", when, OB[k] >> 16, n, PN, mapped ? "contains" : "does not contain"); return; }
        }
        OBS.ntx = 0; OBS.ncb = 0;
    }
}

/* time passes after an activation (on a copy of the state): a TPDO activated with a synchronous type stays silent without SYNC, one
 * activated as event-driven (event time 2 ms, fixed) sends - what an earlier activation with another type left behind must not survive */
static void probe_time(const char *when)
{
    static uint8_t *snap; const MP *p = &M.p[1]; int n;
    if (!clean(p) || p->count == 0) return;
    if (!snap) snap = malloc(w_snap_size());
    w_save(snap);
    if (INHIBIT_CFG) for (int k = 0; k < 3; k++) w_tick(&Node, 1);     /* a transmission that waits for the end of a running inhibit time (2 ms) is not judged */
    OBS.ntx = 0; OBS.ncb = 0;
    for (int k = 0; k < 8; k++) w_tick(&Node, 1);
    n = nc_count_tx(p->cob & 0x7FF);
    if (p->type <= 240 && n != 0) mc_fail("pdo-activation-differs", "%s: TPDO #%d is stored with the synchronous type %d but sent %d frame(s) within 8 ticks without any SYNC", when, PN, p->type, n);
    else if (p->type >= 254 && n == 0) mc_fail("pdo-activation-differs", "%s: TPDO #%d is stored as event-driven (type %d, event time 2 ms) but stayed silent for 8 ticks", when, PN, p->type);
    else if (p->type == 1) {                       /* ... and a SYNC must produce exactly one frame of a type-1 TPDO (the SYNC table is shared with the RPDO of the same number) */
        uint8_t none[8] = { 0 };
        OBS.ntx = 0; OBS.ncb = 0;
        w_rx(&Node, 0x80, 0, none);
        n = nc_count_tx(p->cob & 0x7FF);
        if (n != 1) mc_fail("pdo-activation-differs", "%s: TPDO #%d is stored valid with type 1 but a SYNC produces %d frame(s) of it", when, PN, n);
    } else if (p->type >= 254) {                   /* ... and an event-driven TPDO has no business with SYNC: a slot of the SYNC table that an earlier synchronous activation left behind shows here */
        uint8_t none[8] = { 0 };
        OBS.ntx = 0; OBS.ncb = 0;
        w_rx(&Node, 0x80, 0, none);
        n = nc_count_tx(p->cob & 0x7FF);
        if (n != 0) mc_fail("pdo-activation-differs", "%s: TPDO #%d is stored as event-driven (type %d) but a SYNC produces %d frame(s) of it", when, PN, p->type, n);
    }
    w_restore(snap);
    OBS.ntx = 0; OBS.ncb = 0;
}

static void probe_rpdo(const char *when)
{
    const MP *p = &M.p[0]; static const uint8_t pay[8] = { 0x91, 0x92, 0x93, 0x94, 0x95, 0x96, 0x97, 0x98 }; uint8_t none[8] = { 0 }; int pos = 0;
    uint8_t w8 = 0x22; uint16_t w16 = 0x5566; uint32_t w32 = 0xBBCCDDEE, ww = 0x0E0F1011;
    restore_objects();
    OBS.ntx = 0; OBS.ncb = 0;
    w_rx(&Node, p->cob & 0x7FF, 8, pay);
    if (p->type <= 240) w_rx(&Node, 0x80, 0, none);
    if (Node.RPdo[PN].ObjNum > 8) { mc_fail("pdo-activated-too-many", "%s: activated RPDO has %d mapped objects", when, Node.RPdo[PN].ObjNum); return; }
    if (clean(p)) {
        for (int s = 1; s <= p->count; s++) {
            uint32_t m = entry(p, s), v = 0; int w = (int)(m & 0xFF) >> 3;
            for (int b = 0; b < w; b++) v |= (uint32_t)pay[pos + b] << (8 * b);
            pos += w;
            if (m == M8) w8 = (uint8_t)v; else if (m == M16) w16 = (uint16_t)v; else if (m == M32) w32 = v; else if (m == WO32) ww = v;
        }
        if (P8 != w8 || P16 != w16 || P32 != w32 || W32 != ww || R32 != 0x0A0B0C0D || N32 != 0x01020304 || A8 != 0x11)
            mc_fail("pdo-activation-differs", "%s: RPDO frame gives P8=%02X P16=%04X P32=%08X W32=%08X, the stored mapping says P8=%02X P16=%04X P32=%08X W32=%08X", when, P8, P16, P32, W32, w8, w16, w32, ww);
    }
    restore_objects();
}

/* one SDO write to a PDO parameter: kind 0 COB-ID, 1 type, 2 count, 3 mapping entry `sub`; returns 1 if a violation was recorded */
static int one_write(int e, int pdo, int kind, int sub, uint32_t val)
{
    MP *p = &M.p[pdo]; uint16_t com = (uint16_t)((pdo ? 0x1800 : 0x1400) + PN), map = (uint16_t)((pdo ? 0x1A00 : 0x1600) + PN);
    int verdict = V_ACCEPT; uint32_t code = 0, r; MP next = *p; int revalidated = 0;
    if (kind == 0) {
        uint32_t nv = val;
        if (nv & 0x20000000u) { verdict = V_REFUSE; code = CO_SDO_ERR_RANGE; }
        else if (pdo && !(nv & 0x40000000u)) { verdict = V_REFUSE; code = CO_SDO_ERR_RANGE; }
        else if (valid(p)) {
            if (nv >> 31) verdict = ((nv & 0x3FFFFFFFu) == (p->cob & 0x3FFFFFFFu)) ? V_ACCEPT : V_EITHER;
            else verdict = (nv == p->cob) ? V_EITHER : V_REFUSE;
        }
        next.cob = nv; revalidated = !valid(p) && !(nv >> 31);
        r = nc_sdo_write(com, 1, nv, 4);
    } else if (kind == 1) {
        if (valid(p)) verdict = V_REFUSE;
        next.type = (uint8_t)val;
        r = nc_sdo_write(com, 2, val, 1);
    } else if (kind == 2) {
        uint8_t v = (uint8_t)val; MP t = *p; t.count = v;
        if (valid(p)) verdict = V_REFUSE;
        else if (v > 8 || bytes(&t) > 8) { verdict = V_REFUSE; code = CO_SDO_ERR_OBJ_MAP_N; }
        else { for (int s = 1; s <= v; s++) if (entry(p, s) == 0) verdict = V_EITHER; }
        next.count = v;
        r = nc_sdo_write(map, 0, v, 1);
    } else {
        uint32_t mv = val;
        if (valid(p) || p->count != 0) verdict = V_REFUSE;
        else if (mv == MISSING || mv == NONMAP || (pdo == 0 && mv == RO32) || (pdo == 1 && mv == WO32)) { verdict = V_REFUSE; code = CO_SDO_ERR_OBJ_MAP; }
        else if (mv == LEN64 || mv == LENMIS) verdict = V_EITHER;
        next.map[sub - 1] = mv;
        r = nc_sdo_write(map, (uint8_t)sub, mv, 4);
    }
    if (r == 0xFFFFFFFFu) { mc_fail("pdo-write-no-answer", "'%s' not answered", ev_name(e)); return 1; }
    if (verdict == V_ACCEPT && r != 0) { mc_fail("pdo-write-refused", "'%s' (sub %d) refused with %08X although the CiA 301 preconditions hold (PDO %s, count %d)", ev_name(e), sub, r, valid(p) ? "valid" : "invalid", p->count); return 1; }
    if (verdict == V_REFUSE && r == 0) { mc_fail("pdo-write-accepted", "'%s' (sub %d) accepted although it must be refused (PDO %s, count %d, the counted entries would map %d bytes)", ev_name(e), sub, valid(p) ? "valid" : "invalid", p->count, kind == 2 ? bytes(&next) : bytes(p)); return 1; }
    if (verdict == V_REFUSE && code && r != code) { mc_fail("pdo-write-abort-code", "'%s' refused with %08X, expected %08X", ev_name(e), r, code); return 1; }
    { uint32_t old_id = p->cob;
      if (r == 0) *p = next;
      if (r == 0 && revalidated && M.op) { if (pdo) { probe_tpdo("re-validation while OPERATIONAL"); probe_time("re-validation while OPERATIONAL"); } else probe_rpdo("re-validation while OPERATIONAL"); }
      if (r == 0 && kind == 0 && !valid(p) && M.op) { if (probe_invalid(pdo, "invalidation while OPERATIONAL", old_id)) return 1; }
      if (kind == 0 && M.op) { if (probe_bystanders(r == 0 ? "after an accepted COB-ID write" : "after a refused COB-ID write")) return 1; }
      if (r == 0 && kind == 0 && pdo == 0 && M.op && valid(&M.p[1])) probe_time("after a COB-ID write of the RPDO with the same number");
      if (r == 0 && kind == 0 && pdo == 1 && M.op && valid(&M.p[0])) probe_rpdo("after a COB-ID write of the TPDO with the same number"); }
    return 0;
}

static int step(int e)
{
    if (e == E_START) { int was = M.op; M.op = 1; STOPPED = 0; nc_nmt(1, 0); if (!was) { if (valid(&M.p[1])) { probe_tpdo("entering OPERATIONAL"); probe_time("entering OPERATIONAL"); } if (valid(&M.p[0])) probe_rpdo("entering OPERATIONAL"); (void)probe_bystanders("entering OPERATIONAL"); }
        else if (valid(&M.p[1])) probe_time("NMT start while OPERATIONAL"); }
    else if (e == E_PREOP) { M.op = 0; STOPPED = 0; nc_nmt(128, 0); }
    else if (e == E_STOP) { M.op = 0; STOPPED = 1; nc_nmt(2, 0); }        /* entering OPERATIONAL from STOPPED activates the stored configuration like any other entry */
    else if (e == E_SYNC) { uint8_t none[8] = { 0 }; w_rx(&Node, 0x80, 0, none); }                 /* what is sent on it is C12's business; here it opens the inhibit window */
    else if (e == E_TICKS) { for (int k = 0; k < 3; k++) w_tick(&Node, 1); }                         /* time passes in whatever NMT state the node is: event timers elapse also where nothing is sent */
    else if (STOPPED) return MC_SKIP;                                    /* no SDO service in STOPPED */
    else if (e == E_EVT3) { uint32_t r = nc_sdo_write((uint16_t)(0x1800 + PN), 5, 3, 2); if (r != 0) mc_fail("pdo-write-refused", "write of the event time 18%02Xh:5 refused with %08X", PN, r); }
    else {
        int pdo = e / EPP, k = e % EPP;
        if (k >= K_FILL0) {                               /* macro: the eight entry writes one after the other, each judged */
            uint32_t mv = k == K_FILL0 ? M32 : k == K_FILL0 + 1 ? LEN64 : M8;
            for (int sub = 1; sub <= 8; sub++) if (one_write(e, pdo, 3, sub, mv)) return MC_OK;
        } else if (k < 6) { if (one_write(e, pdo, 0, 0, idval(pdo, k))) return MC_OK; }
        else if (k < 9) { if (one_write(e, pdo, 1, 0, TYPV[k - 6])) return MC_OK; }
        else if (k < K_MAP0) { if (one_write(e, pdo, 2, 0, CNTV[k - K_CNT0])) return MC_OK; }
        else { if (one_write(e, pdo, 3, SUBK[(k - K_MAP0) / NMAPV], MAPV[(k - K_MAP0) % NMAPV])) return MC_OK; }
    }
    nc_poll();                   
    /* stored configuration == model (a refused write changes nothing) */
    {
        const MP *r = &M.p[0], *t = &M.p[1];
        if (RpCob[PN] != r->cob || RpType[PN] != r->type || RpNum[PN] != r->count || memcmp(RpMap[PN], r->map, sizeof r->map))
            { mc_fail("pdo-stored-value", "after '%s' RPDO parameters are cob=%08X type=%d count=%d map=%08X,%08X,..,%08X; expected cob=%08X type=%d count=%d map=%08X,%08X,..,%08X", ev_name(e), RpCob[PN], RpType[PN], RpNum[PN], RpMap[PN][0], RpMap[PN][1], RpMap[PN][7], r->cob, r->type, r->count, r->map[0], r->map[1], r->map[7]); return MC_OK; }
        if (TpCob[PN] != t->cob || TpType[PN] != t->type || TpNum[PN] != t->count || memcmp(TpMap[PN], t->map, sizeof t->map))
            { mc_fail("pdo-stored-value", "after '%s' TPDO parameters are cob=%08X type=%d count=%d map=%08X,%08X,..,%08X; expected cob=%08X type=%d count=%d map=%08X,%08X,..,%08X", ev_name(e), TpCob[PN], TpType[PN], TpNum[PN], TpMap[PN][0], TpMap[PN][1], TpMap[PN][7], t->cob, t->type, t->count, t->map[0], t->map[1], t->map[7]); return MC_OK; }
    }
    restore_objects();
    return MC_OK;
}

static const mc_harness H = { "C14", "c14", 12, cfg_name, build, ev_name, step, 12, 5 };
int main(int argc, char **argv) { return mc_main(argc, argv, &H); }
