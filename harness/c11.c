/* C11 - heartbeat consumer signals exactly the missed heartbeats.
 * BFS over heartbeat frames, 1016h writes, counter/state queries, ticks; reference monitor per entry. */
#include "node_common.h"

static uint8_t NX = 9, NY = 10, NZ = 11, NW = 12;      /* monitored node ids; --opt edge=1: 127, 126, 2, 3 (the ends of the node id range) */
typedef struct { uint8_t node, armed, events, last; uint16_t time, rem; } MEnt;
static struct { MEnt e[4]; int n; int stopped; } M;
static int NENT;
static uint32_t MSPT = 1;     /* --opt slow=1: 100 Hz timer, i.e. 10 ms per tick; every time of the alphabet is then given in units of 10 ms */

static uint8_t HB_NODE[4]; static uint8_t HB_STATE[] = { 0, 4, 5, 127 };     /* --opt odd=1: { 85h, FFh, 5, 127 } - state bytes CiA 301 does not define (reserved bit set): they are one "unknown" state, different from every defined one */
static int WIDE4;    /* cfg 6: four entries with four distinct times (2, 3, 4, 6 ticks), alphabet reduced to the four heartbeats and the tick, so that
                        histories of ten events are explored: four consumer timers pending at once, a restarted one queued between any two others */
static uint8_t WR_NODE[7];  static const uint16_t WR_TIME[] = { 0, 2, 3, 0, 2, 3, 0 };
#define NWR 7
static int ev_write0, ev_getev0, ev_last0, ev_tick, ev_sat, ev_stop, ev_start, ev_reset, n_ev;

static const char *cfg_name(int c) { static const char *const n[] = { "1 entry {X}", "2 entries {X,Y}", "2 entries {X,-}", "3 entries {X,Y,-}", "3 entries empty", "4 entries {X,Y,-,-}", "4 entries {X/2,Y/3,Z/4,W/6}, heartbeats and ticks only" }; return n[c]; }

static int build(int cfg)
{
    if (mc_opt("edge", 0)) { NX = 127; NY = 126; NZ = 2; NW = 3; }
    if (mc_opt("odd", 0)) { HB_STATE[0] = 0x85; HB_STATE[1] = 0xFF; }
    HB_NODE[0] = NX; HB_NODE[1] = NY; HB_NODE[2] = NZ; HB_NODE[3] = NW;
    WR_NODE[0] = WR_NODE[1] = WR_NODE[2] = NX; WR_NODE[3] = WR_NODE[4] = WR_NODE[5] = NY; WR_NODE[6] = 0;
    const struct { int n; uint8_t node[4]; uint16_t time[4]; } C[] = {
        { 1, { NX }, { 2 } }, { 2, { NX, NY }, { 2, 3 } }, { 2, { NX, 0 }, { 2, 0 } }, { 3, { NX, NY, 0 }, { 2, 3, 0 } }, { 3, { 0, 0, 0 }, { 0, 0, 0 } }, { 4, { NX, NY, 0, 0 }, { 3, 2, 0, 0 } }, { 4, { NX, NY, NZ, NW }, { 2, 3, 4, 6 } } };
    WIDE4 = (cfg == 6);
    nc_defaults();
    MSPT = mc_opt("slow", 0) ? 10 : 1; NC.freq = 1000 / MSPT;
    NENT = C[cfg].n; NC.n_hbc = NENT;
    if (mc_opt("pool", 0)) NC.tmr_n = NENT;      /* --opt pool=1: exactly one timer per entry, no spare - a consumer that needs a second timer while it re-arms goes dead */
    for (int i = 0; i < NENT; i++) { NC.hbc[i].node = C[cfg].node[i]; NC.hbc[i].time = (uint16_t)(C[cfg].time[i] * MSPT); }
    nc_build();
    (void)CONodeGetErr(&Node);
    memset(&M, 0, sizeof M); M.n = NENT;
    for (int i = 0; i < NENT; i++) { M.e[i].node = C[cfg].node[i]; M.e[i].time = C[cfg].time[i]; }
    W_REG(M);
    ev_write0 = WIDE4 ? 16 : 12; ev_getev0 = ev_write0 + NWR * NENT; ev_last0 = ev_getev0 + 3; ev_tick = ev_last0 + 2; ev_sat = ev_tick + 1; ev_stop = ev_sat + 1; ev_start = ev_stop + 1; ev_reset = ev_start + 1; n_ev = ev_reset + 1;
    return n_ev;
}

static const char *ev_name(int e)
{
    static char b[64];
    if (e < ev_write0) snprintf(b, sizeof b, "heartbeat node %d state %d", HB_NODE[e / 4], HB_STATE[e % 4]);
    else if (e < ev_getev0) { int k = (e - ev_write0) / NWR, r = (e - ev_write0) % NWR; snprintf(b, sizeof b, "SDO 1016h:%d = {node %d, time %d}", k + 1, WR_NODE[r], WR_TIME[r]); }
    else if (e < ev_last0) snprintf(b, sizeof b, "CONmtGetHbEvents(%d)", HB_NODE[e - ev_getev0]);
    else if (e < ev_tick) snprintf(b, sizeof b, "CONmtLastHbState(%d)", HB_NODE[e - ev_last0]);
    else snprintf(b, sizeof b, "%s", e == ev_tick ? "tick" : e == ev_sat ? "255 periods of silence" : e == ev_stop ? "NMT stop" : e == ev_start ? "NMT start" : "NMT reset communication");
    return b;
}

static int mon(uint8_t node) { for (int i = 0; i < M.n; i++) if (M.e[i].time > 0 && M.e[i].node == node) return i; return -1; }
static CO_MODE decode(uint8_t s) { return s == 0 ? CO_INIT : s == 127 ? CO_PREOP : s == 5 ? CO_OPERATIONAL : s == 4 ? CO_STOP : CO_INVALID; }

/* compare the heartbeat callbacks of the step with the expected multiset: ev[node] events, chg_node/chg_mode (at most one change) */
static void check_cbs(const int *ev_expect, int chg_node, int chg_mode)
{
    int ev_seen[256] = { 0 }, chg = 0;
    for (int i = 0; i < OBS.ncb; i++) {
        if (OBS.cb[i].kind == CB_HB_EVENT) ev_seen[OBS.cb[i].a & 0xFF]++;
        if (OBS.cb[i].kind == CB_HB_CHANGE) {
            chg++;
            if (chg_node < 0 || OBS.cb[i].a != (uint32_t)chg_node || OBS.cb[i].b != (uint32_t)chg_mode) { mc_fail("hbc-change-unexpected", "state-change callback (node %u, mode %u) not expected", OBS.cb[i].a, OBS.cb[i].b); return; }
        }
    }
    if (chg != (chg_node >= 0 ? 1 : 0)) { mc_fail("hbc-change-missing", "%d state-change callback(s), expected %d (node %d mode %d)", chg, chg_node >= 0 ? 1 : 0, chg_node, chg_mode); return; }
    for (int n = 0; n < 256; n++) if (ev_seen[n] != ev_expect[n]) {
        mc_fail(ev_seen[n] > ev_expect[n] ? "hbc-event-unexpected" : "hbc-event-missing", "%d heartbeat event(s) for node %d, expected %d", ev_seen[n], n, ev_expect[n]); return; }
}

static void model_tick(int *ev_expect)
{
    for (int i = 0; i < M.n; i++) if (M.e[i].time > 0 && M.e[i].armed) {
        if (--M.e[i].rem == 0) { ev_expect[M.e[i].node]++; if (M.e[i].events < 255) M.e[i].events++; M.e[i].rem = M.e[i].time; }
    }
}

static int step(int e)
{
    if (WIDE4 && !(e < ev_write0 && e % 4 == 2) && e != ev_tick) return MC_SKIP;
    int ev_expect[256] = { 0 }, chg_node = -1, chg_mode = 0;
    if (e < ev_write0) {
        uint8_t node = HB_NODE[e / 4], st = HB_STATE[e % 4], d[1]; int k = mon(node);
        if (k >= 0) { M.e[k].armed = 1; M.e[k].rem = M.e[k].time; if (M.e[k].last != (uint8_t)decode(st)) { chg_node = node; chg_mode = decode(st); } M.e[k].last = (uint8_t)decode(st); }
        d[0] = st; w_rx(&Node, 0x700u + node, 1, d);
        check_cbs(ev_expect, chg_node, chg_mode);
    } else if (e < ev_getev0) {
        int k = (e - ev_write0) / NWR, r = (e - ev_write0) % NWR; uint8_t node = WR_NODE[r]; uint16_t time = WR_TIME[r];
        uint32_t val = ((uint32_t)node << 16) | (time * MSPT), back = 0, res;
        if (M.stopped) return MC_SKIP;                      /* no SDO service in STOPPED */
        res = nc_sdo_write(0x1016, (uint8_t)(k + 1), val, 4);
        if (time > 0 && mon(node) >= 0) {
            if (res != CO_SDO_ERR_PARA_INCOMP) mc_fail("hbc-write-verdict", "write {node %d, time %d} to entry %d while node %d is monitored by entry %d: expected abort 0604 0043h, got %08X", node, time, k + 1, node, mon(node) + 1, res);
        } else {
            if (res != 0) mc_fail("hbc-write-verdict", "write {node %d, time %d} to entry %d refused with %08X", node, time, k + 1, res);
            else { memset(&M.e[k], 0, sizeof M.e[k]); M.e[k].node = node; M.e[k].time = time; }
        }
        check_cbs(ev_expect, -1, 0);
        OBS.ntx = 0;
        if (nc_sdo_read(0x1016, (uint8_t)(k + 1), &back) != 0 || back != (((uint32_t)M.e[k].node << 16) | (M.e[k].time * MSPT)))
            mc_fail("hbc-readback", "entry %d reads back %08X, expected node %d time %d", k + 1, back, M.e[k].node, M.e[k].time);
    } else if (e < ev_last0) {
        uint8_t node = HB_NODE[e - ev_getev0]; int k = mon(node);
        int16_t r = CONmtGetHbEvents(&Node.Nmt, node), want = (int16_t)(k >= 0 ? M.e[k].events : -1);
        if (r != want) mc_fail("hbc-event-counter", "CONmtGetHbEvents(%d) returns %d, expected %d", node, r, want);
        if (k >= 0) M.e[k].events = 0;
    } else if (e < ev_tick) {
        uint8_t node = HB_NODE[e - ev_last0]; int k = mon(node);
        CO_MODE r = CONmtLastHbState(&Node.Nmt, node), want = k >= 0 ? (CO_MODE)M.e[k].last : CO_INVALID;
        if (r != want) mc_fail("hbc-last-state", "CONmtLastHbState(%d) returns %d, expected %d", node, r, want);
    } else if (e == ev_tick) {
        model_tick(ev_expect); w_tick(&Node, 1); check_cbs(ev_expect, -1, 0);
    } else if (e == ev_sat) {
        int any = 0; for (int i = 0; i < M.n; i++) if (M.e[i].time > 0 && M.e[i].armed) any = 1;
        if (!any) return MC_SKIP;
        for (int t = 0; t < 255 * 3; t++) { memset(ev_expect, 0, sizeof ev_expect); model_tick(ev_expect); w_obs_clear(); w_tick(&Node, 1); check_cbs(ev_expect, -1, 0); }
    } else if (e == ev_stop) { M.stopped = 1; nc_nmt(2, 0); check_cbs(ev_expect, -1, 0); }
    else if (e == ev_start) { M.stopped = 0; nc_nmt(1, 0); check_cbs(ev_expect, -1, 0); }
    else { M.stopped = 0; nc_nmt(130, 0); for (int i = 0; i < M.n; i++) { M.e[i].armed = 0; M.e[i].events = 0; M.e[i].last = 0; M.e[i].rem = 0; } check_cbs(ev_expect, -1, 0); }
    nc_poll();                   
    for (int i = 0; i < M.n; i++) if (!M.e[i].armed) M.e[i].rem = 0;
    return MC_OK;
}

static const mc_harness H = { "C11", "c11", 7, cfg_name, build, ev_name, step, 6, 7 };
int main(int argc, char **argv) { return mc_main(argc, argv, &H); }
