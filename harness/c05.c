/* C05 - no history can wedge an SDO server: the C04 exploration plus recovery probes in every state */
#define C05_PROBE 1
#include "c04.c"
