/* C13 (b) - every RPDO mapping composed of objects of width 1/2/3/4 bytes and dummy entries (0002h..0007h, width 1/2/4)
 * totalling <= 8 bytes: each object receives exactly its little-endian field, dummies consume their width, nothing else changes. */
#include "node_common.h"

/* element codes: 1,2,3,4 = object of that width; 5,6,7 = dummy of width 1,2,4 */
static const int WIDTH[] = { 0, 1, 2, 3, 4, 1, 2, 4 };
static const uint16_t DUMMY_IDX[3][2] = { { 0x0002, 0x0005 }, { 0x0003, 0x0006 }, { 0x0004, 0x0007 } };
static const uint8_t PAY[2][8] = { { 0x11, 0x22, 0x33, 0x44, 0x55, 0x66, 0x77, 0x88 }, { 0xFE, 0x01, 0x80, 0x7F, 0xAA, 0x55, 0xC3, 0x3C } };

static void one(const int *comp, int n, int pat)
{
    int i8 = 0, i16 = 0, i32 = 0, pos = 0, nd = 0; char cs[40] = "", smp[120];
    uint8_t want8[8]; uint16_t want16[4]; uint32_t want32[2];
    w_regions_clear();
    nc_defaults();
    NC.n_rpdo = 1; NC.rpdo[0].present = 1; NC.rpdo[0].cobid = 0x201; NC.rpdo[0].type = 255; NC.rpdo[0].nmap = (uint8_t)n;
    for (int k = 0; k < n; k++) {
        int c = comp[k], w = WIDTH[c]; snprintf(cs + strlen(cs), sizeof cs - strlen(cs), "%c", c <= 4 ? '0' + c : (c == 5 ? 'a' : c == 6 ? 'b' : 'd'));
        if (c >= 5) { NC.rpdo[0].map[k] = NC_MAP(DUMMY_IDX[c - 5][nd++ & 1], 0, w * 8); }
        else if (w == 1) { NC.rpdo[0].map[k] = i8 == 0 ? NC_MAP(0xF100, 0, 8) : NC_MAP(0x2113, i8, 8); i8++; }      /* the first 8-bit object lives at F100h, the others at 2113h:1..7 */
        else if (w == 2) NC.rpdo[0].map[k] = NC_MAP(0x2114, 1 + i16++, 16);
        else { NC.rpdo[0].map[k] = i32 == 0 ? NC_MAP(0x2102, 0, w * 8) : NC_MAP(0x2112, 0, w * 8); i32++; }
    }
    NC.operational = 1;
    nc_build();
    want8[0] = H8; for (int i = 1; i < 8; i++) want8[i] = B8[i - 1];
    for (int i = 0; i < 4; i++) want16[i] = W16[i];
    want32[0] = A32; want32[1] = P32;
    i8 = i16 = i32 = 0;
    for (int k = 0; k < n; k++) {
        int c = comp[k], w = WIDTH[c]; uint32_t v = 0;
        for (int b = 0; b < w; b++) v |= (uint32_t)PAY[pat][pos + b] << (8 * b);
        if (c <= 4) { if (w == 1) want8[i8++] = (uint8_t)v; else if (w == 2) want16[i16++] = (uint16_t)v; else want32[i32++] = v; }
        pos += w;
    }
    w_obs_clear();
    w_rx(&Node, 0x201, 8, PAY[pat]); mc_steps++;
    for (int i = 0; i < 8; i++) { uint8_t have = i ? B8[i - 1] : H8; if (have != want8[i]) { mc_fail("rpdo-map-data", "mapping %s payload %d: 8-bit object #%d (%s) is %02X, expected %02X", cs, pat, i, i ? "2113h" : "F100h", have, want8[i]); break; } }
    if (B8[7] != 0xC7) mc_fail("rpdo-foreign-object", "mapping %s: an object that is not mapped changed", cs);
    for (int i = 0; i < 4; i++) if (W16[i] != want16[i]) { mc_fail("rpdo-map-data", "mapping %s payload %d: 16-bit object #%d is %04X, expected %04X", cs, pat, i, W16[i], want16[i]); break; }
    if (A32 != want32[0] || P32 != want32[1]) mc_fail("rpdo-map-data", "mapping %s payload %d: 32-bit objects are %08X %08X, expected %08X %08X", cs, pat, A32, P32, want32[0], want32[1]);
    if (A8 != 0x11 || P8 != 0x22 || A16 != 0x3344 || P16 != 0x5566 || N32 != 0x01020304 || W32 != 0x0E0F1011) mc_fail("rpdo-foreign-object", "mapping %s: an object that is not mapped changed", cs);
    if (OBS.ntx) mc_fail("rpdo-transmission", "mapping %s: %d frame(s) sent", cs, OBS.ntx);
    snprintf(smp, sizeof smp, "mapping %s (1-4 object widths, a/b/d dummies of 1/2/4 bytes) payload %d", cs, pat);
    mc_case_end(((uint64_t)H8 << 40) ^ ((uint64_t)W16[0] << 16) ^ A32 ^ ((uint64_t)n << 60) ^ ((uint64_t)pos << 52), 1, smp);
}

static void rec(int *comp, int n, int sum)
{
    if (n > 0) for (int pat = 0; pat < 2; pat++) { int v[10]; v[0] = n; v[1] = pat; for (int k = 0; k < n; k++) v[2 + k] = comp[k]; mc_case_v(v, n + 2); one(comp, n, pat); }
    if (n == 8) return;
    for (int c = 1; c <= 7; c++) {
        int n32 = 0; for (int k = 0; k < n; k++) if (comp[k] == 3 || comp[k] == 4) n32++;
        if (sum + WIDTH[c] > 8 || ((c == 3 || c == 4) && n32 >= 2)) continue;
        comp[n] = c; rec(comp, n + 1, sum + WIDTH[c]);
    }
}
static void run_cfg(int cfg, int tier) { int comp[8]; (void)cfg; (void)tier; rec(comp, 0, 0); }
static void run_case(const int *c, int n) { if (n < 4) return; mc_case_v(c + 1, n - 1); one(c + 3, c[1], c[2]); }
static const char *cfg_name(int c) { (void)c; return "all compositions"; }
static const mc_enum E = { "C13", "c13map", 1, cfg_name, run_cfg, run_case };
int main(int argc, char **argv) { return mc_enum_main(argc, argv, &E); }
