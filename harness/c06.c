/* C06 - dictionary lookup and typed access are exact.
 * Small-scope exhaustive enumeration of the real co_dict.c / co_obj.c / basic types against a linear-scan
 * reference:
 *   cfg 0  lookup   every sorted dictionary over a key universe (all subsets) + a listed family of larger ones;
 *                   the CO_OBJ array is a heap block of exactly Num+1 elements (ASan red zones on both sides)
 *   cfg 1  init     dictionaries in which every entry has a counting type; CONodeInit; every counter == 1
 *   cfg 2  typed    CODictRd/Wr Byte/Word/Long on entries of width 1/2/4 x direct/referenced x plain/node-id
 *   cfg 3  buffers  CODictRdBuffer/WrBuffer on domains (and reads of strings) for every length 0..4100;
 *                   sizes 1,2,3,4,5,7,8,255,256,257,300,889,4000 (thorough: 1..300, 511..513, 888..890, 3999, 4000)
 * Oracle = the property statement only: the error *code* of a refused access and the upper bits of a direct
 * entry's Data word are not compared. */
#include <stdio.h>
#include <stdlib.h>
#include "mc.h"
#include "world.h"
#include "od.h"

static CO_NODE    Node;
static uint8_t    SdoBuf[CO_SSDO_N * CO_SDO_BUF_BYTE];
static CO_TMR_MEM TMem[4];
static uint8_t    ErrReg;

/* ------------------------------------------------------------------ case bookkeeping */
static int  bad;               /* the current case recorded a violation */
static long ncase;             /* mirrors the framework's case counter (sample selection) */
#define FAIL(sig, ...) do { bad = 1; mc_fail(sig, __VA_ARGS__); } while (0)
static void case_begin(void) { bad = 0; ncase++; }
static int  want_sample(void) { return ncase == 1 || (ncase % 9973) == 0 || bad || mc_verbose; }
static uint64_t hmix(uint64_t h, uint64_t v) { h ^= v; h *= 0xFF51AFD7ED558CCDull; h ^= h >> 29; return h; }

static int INIT_EMCY; static CO_EMCY_TBL InitEmcy[2];
static void node_init(CO_OBJ *root, uint16_t dictlen, uint8_t nodeid)
{
    CO_NODE_SPEC spec;
    w_regions_clear();
    w_reset(1000);
    memset(&Node, 0, sizeof Node); memset(TMem, 0, sizeof TMem); memset(SdoBuf, 0, sizeof SdoBuf); ErrReg = 0;
    spec.NodeId = nodeid; spec.Baudrate = 250000; spec.Dict = root; spec.DictLen = dictlen; spec.EmcyCode = INIT_EMCY ? InitEmcy : 0;
    spec.TmrMem = TMem; spec.TmrNum = 4; spec.TmrFreq = 1000; spec.Drv = &W_IfDrv; spec.SdoBuf = SdoBuf;
    CONodeInit(&Node, &spec);
    mc_steps++;
    W_REG(Node); W_REG(TMem); W_REG(ErrReg);
}

/* ================================================================== cfg 0: lookup */
#define DEV(i, s) ((((uint32_t)(i)) << 16) | (((uint32_t)(s)) << 8))
static const uint32_t UNI10[] = { DEV(0x0000, 0x00), DEV(0x0000, 0x01), DEV(0x0001, 0x00), DEV(0x1000, 0x00), DEV(0x1000, 0x01),
                                  DEV(0x1000, 0xFF), DEV(0x1001, 0x00), DEV(0x7FFF, 0xFF), DEV(0x8000, 0x00), DEV(0xFFFF, 0xFF) };
static const uint32_t UNI14[] = { DEV(0x0000, 0x00), DEV(0x0000, 0x01), DEV(0x0001, 0x00), DEV(0x1000, 0x00), DEV(0x1000, 0x01),
                                  DEV(0x1000, 0xFF), DEV(0x1001, 0x00), DEV(0x1001, 0x01), DEV(0x7FFF, 0xFF), DEV(0x8000, 0x00),
                                  DEV(0x8000, 0x01), DEV(0xFFFE, 0xFF), DEV(0xFFFF, 0x00), DEV(0xFFFF, 0xFF) };
static const uint32_t *UNI; static int NUNI;
static const uint32_t STRIDE[] = { 0x1, 0x83, 0x100 };         /* in (index:sub) units: adjacent subs / mixed / adjacent indices */
static const int QUICK_LEN[] = { 11, 12, 13, 15, 16, 17, 31, 32, 33, 63, 64, 65, 100, 127, 128, 129, 255, 256, 257, 300 };
#define MAXENT 320
static uint32_t EKEY[MAXENT]; static int EN;                   /* reference: the configured keys, ascending */
static CO_OBJ  *Root;                                          /* heap block of exactly EN+1 elements */

static uint8_t entry_flags(int fp, int i, uint32_t dev)
{
    uint8_t f = fp == 0 ? 0x00 : fp == 1 ? 0xFF : (uint8_t)(0x5B + 0x3D * i);
    if (dev == 0 && f == 0) f = 0x01;                          /* key 0 is the end marker, not an entry */
    return f;
}

static void dict_keys_subset(int mask, int fp)
{
    EN = 0;
    for (int i = 0; i < NUNI; i++) if (mask & (1 << i)) { EKEY[EN] = UNI[i] | entry_flags(fp, EN, UNI[i]); EN++; }
}
static void dict_keys_strided(int len, int sv)
{
    EN = 0;
    for (int i = 0; i < len && i < MAXENT; i++) { uint32_t d = (0x100000u + (uint32_t)i * STRIDE[sv]) << 8; EKEY[EN] = d | entry_flags(2, i, d); EN++; }
}
static void dict_make(int mv)
{
    free(Root);
    Root = malloc(sizeof(CO_OBJ) * (size_t)(EN + 1));
    for (int i = 0; i < EN; i++) { Root[i].Key = EKEY[i]; Root[i].Type = CO_TUNSIGNED8; Root[i].Data = (CO_DATA)i; }
    Root[EN].Key = 0; Root[EN].Type = 0; Root[EN].Data = 0;
    memset(&Node, 0, sizeof Node);
    int16_t n = CODictInit(&Node.Dict, &Node, Root, (uint16_t)(EN + (mv ? 5 : 1)));
    mc_steps++;
    mc_log("dictionary of %d entr%s (CODictInit -> %d, max=%d):", EN, EN == 1 ? "y" : "ies", n, EN + (mv ? 5 : 1));
    for (int i = 0; i < EN && i < 16; i++) mc_log(" %04X:%02X/%02X", EKEY[i] >> 16, (EKEY[i] >> 8) & 0xFF, EKEY[i] & 0xFF);
    mc_log("%s\n", EN > 16 ? " ..." : "");
}

static void lookup_case(uint32_t key)
{
    char smp[160]; int exp = -1, got;
    case_begin();
    for (int i = 0; i < EN; i++) if (CO_GET_DEV(EKEY[i]) == CO_GET_DEV(key)) exp = i;      /* linear-scan reference */
    CO_OBJ *r = CODictFind(&Node.Dict, key);
    mc_steps++;
    if (r == NULL) got = -1;
    else if (r >= Root && r <= Root + EN && ((uintptr_t)r - (uintptr_t)Root) % sizeof(CO_OBJ) == 0) got = (int)(r - Root);
    else got = -2;
    mc_log("  find %04X:%02X flags %02X -> %s (element %d), reference: %s (element %d)\n", key >> 16, (key >> 8) & 0xFF, key & 0xFF,
           r ? "entry" : "NULL", got, exp >= 0 ? "present" : "absent", exp);
    if (key == 0 && got == -1) { /* the all-zero key is rejected as an argument error: accepted */ }
    else if (got == EN)
        FAIL("c06-lookup-endmark", "lookup of %04X:%02X (flags %02X) in a dictionary of %d entries returns the end marker (element %d), which is not an entry; %s",
             key >> 16, (key >> 8) & 0xFF, key & 0xFF, EN, EN, exp >= 0 ? "the entry exists elsewhere" : "no such entry exists, NULL expected");
    else if (got != exp) {
        if (got == -2) FAIL("c06-lookup-wrong", "lookup of %04X:%02X returns a pointer outside the dictionary array", key >> 16, (key >> 8) & 0xFF);
        else if (exp < 0) FAIL("c06-lookup-wrong", "lookup of absent %04X:%02X (flags %02X) returns element %d (%04X:%02X) of %d", key >> 16, (key >> 8) & 0xFF, key & 0xFF, got, EKEY[got] >> 16, (EKEY[got] >> 8) & 0xFF, EN);
        else if (got < 0) FAIL("c06-lookup-wrong", "lookup of %04X:%02X (flags %02X) returns NULL although it is element %d of %d (entry flags %02X)", key >> 16, (key >> 8) & 0xFF, key & 0xFF, exp, EN, EKEY[exp] & 0xFF);
        else FAIL("c06-lookup-wrong", "lookup of %04X:%02X (flags %02X) returns element %d (%04X:%02X) instead of element %d", key >> 16, (key >> 8) & 0xFF, key & 0xFF, got, EKEY[got] >> 16, (EKEY[got] >> 8) & 0xFF, exp);
    }
    if (want_sample()) snprintf(smp, sizeof smp, "dictionary of %d entries: find %04X:%02X flags %02X -> %s", EN, key >> 16, (key >> 8) & 0xFF, key & 0xFF, got >= 0 ? "found" : "NULL");
    mc_case_end(hmix(hmix(1, (uint64_t)EN), (uint64_t)(got + 3) * 4 + (uint64_t)(exp >= 0)), got >= 0, want_sample() ? smp : 0);
}

static const uint8_t LFLAGS[] = { 0x00, 0x01, 0xFF };
static void probes_subset(int mask, int fp, int mv)
{
    static const int64_t DELTA[] = { 0, 0x100, -0x100, 0x10000, -0x10000 };
    for (int u = 0; u < NUNI; u++) for (int d = 0; d < 5; d++) {
        int64_t dev = (int64_t)UNI[u] + DELTA[d];
        if (dev < 0 || dev > 0xFFFFFF00ll) continue;
        for (int f = 0; f < 3; f++) {
            uint32_t key = (uint32_t)dev | LFLAGS[f];
            mc_case(5, 0, mask, fp, mv, (int)key);
            lookup_case(key);
        }
    }
}
static void probes_strided(int len, int sv, int mv)
{
    uint32_t first = CO_GET_DEV(EKEY[0]), last = CO_GET_DEV(EKEY[EN - 1]);
    uint32_t extra[] = { first - 0x100, first - 0x10000, last + 0x100, last + 0x10000, DEV(0, 1) | 1, DEV(0, 0) | 1, DEV(0xFFFF, 0xFF), DEV(0x8000, 0) };
    for (int i = 0; i < EN; i++) {
        uint32_t d = CO_GET_DEV(EKEY[i]);
        uint32_t k[4] = { d, d | 0xFF, (d - 0x100) | 0x01, (d + 0x100) | 0x01 };
        for (int j = 0; j < 4; j++) { mc_case(5, 1, len, sv, mv, (int)k[j]); lookup_case(k[j]); }
    }
    for (unsigned j = 0; j < sizeof extra / sizeof extra[0]; j++) { mc_case(5, 1, len, sv, mv, (int)extra[j]); lookup_case(extra[j]); }
}

static void run_lookup(int tier)
{
    UNI = tier ? UNI14 : UNI10; NUNI = tier ? 14 : 10;
    for (int mask = 0; mask < (1 << NUNI) && !mc_deadline_hit(); mask++)
        for (int fp = 0; fp < 3; fp++) for (int mv = 0; mv < 2; mv++) {
            dict_keys_subset(mask, fp); dict_make(mv);
            probes_subset(mask, fp, mv);
        }
    for (int len = 11; len <= 300 && !mc_deadline_hit(); len++) {
        if (!tier) { int in = 0; for (unsigned q = 0; q < sizeof QUICK_LEN / sizeof QUICK_LEN[0]; q++) if (QUICK_LEN[q] == len) in = 1; if (!in) continue; }
        for (int sv = 0; sv < 3; sv++) for (int mv = 0; mv < 2; mv++) {
            dict_keys_strided(len, sv); dict_make(mv);
            probes_strided(len, sv, mv);
        }
    }
}

static void replay_lookup(const int *c, int n)
{
    if (n < 6) return;
    UNI = mc_tier() ? UNI14 : UNI10; NUNI = mc_tier() ? 14 : 10;
    if (c[1] == 0) dict_keys_subset(c[2], c[3]); else dict_keys_strided(c[2], c[3]);
    dict_make(c[4]);
    lookup_case((uint32_t)c[5]);
}

/* ================================================================== cfg 1: type initialisation exactly once */
#define MAXINIT 48
static int  CNT[MAXINIT], CNT_FOREIGN, CNT_BADNODE, FAILPOS;
static CO_OBJ *IRoot; static int IN;           /* heap block of exactly IN+1 elements */

static uint32_t CntSize(CO_OBJ *o, CO_NODE *n, uint32_t w) { (void)o; (void)n; (void)w; return 1; }
static CO_ERR   CntRead(CO_OBJ *o, CO_NODE *n, void *b, uint32_t s) { (void)o; (void)n; if (s >= 1) *(uint8_t *)b = 0; return CO_ERR_NONE; }
static CO_ERR   CntWrite(CO_OBJ *o, CO_NODE *n, void *b, uint32_t s) { (void)o; (void)n; (void)b; (void)s; return CO_ERR_NONE; }
static CO_ERR   CntInit(CO_OBJ *o, CO_NODE *n)
{
    if (n != &Node) CNT_BADNODE++;
    if (IRoot && o >= IRoot && o < IRoot + IN) {
        int i = (int)(o - IRoot);
        mc_log("    type init of element %d (%04X:%02X)\n", i, o->Key >> 16, (o->Key >> 8) & 0xFF);
        CNT[i]++;
        return i == FAILPOS ? CO_ERR_OBJ_INIT : CO_ERR_NONE;
    }
    CNT_FOREIGN++;
    return CO_ERR_NONE;
}
static const CO_OBJ_TYPE CntType = { CntSize, CntInit, CntRead, CntWrite, 0 };

static const uint32_t FAM2[12] = { DEV(0x0001, 0), DEV(0x0002, 5), DEV(0x0FFF, 0xFF), DEV(0x2000, 0), DEV(0x2000, 1), DEV(0x5FFF, 0xFF),
                                   DEV(0x6000, 0), DEV(0x6000, 1), DEV(0xA000, 0), DEV(0xFFFE, 0xFF), DEV(0xFFFF, 0), DEV(0xFFFF, 0xFF) };
static const uint32_t MIXC[4] = { DEV(0x0002, 0), DEV(0x1002, 0), DEV(0x2000, 0), DEV(0xFFFF, 0xFF) };   /* before / inside / after the mandatory entries */

/* keys the services of the stack look up themselves while the node is initialised (error history, SYNC, parameter store, EMCY, heartbeat
 * consumer, SDO client, PDO communication and mapping, LSS): an entry there whose type is the application's must be initialised once like any other */
static const uint32_t SVC[] = { DEV(0x1003, 0), DEV(0x1003, 1), DEV(0x1005, 0), DEV(0x1006, 0), DEV(0x1007, 0), DEV(0x1010, 0), DEV(0x1010, 1), DEV(0x1011, 0), DEV(0x1011, 1), DEV(0x1012, 0),
                                DEV(0x1014, 0), DEV(0x1015, 0), DEV(0x1016, 0), DEV(0x1016, 1), DEV(0x1017, 0), DEV(0x1019, 0), DEV(0x1200, 0), DEV(0x1200, 1), DEV(0x1200, 2), DEV(0x1201, 0),
                                DEV(0x1280, 0), DEV(0x1280, 1), DEV(0x1400, 0), DEV(0x1400, 1), DEV(0x1400, 2), DEV(0x1600, 0), DEV(0x1600, 1), DEV(0x1800, 0), DEV(0x1800, 1), DEV(0x1800, 2),
                                DEV(0x1800, 3), DEV(0x1800, 5), DEV(0x1A00, 0), DEV(0x1A00, 1), DEV(0x1F80, 0) };
#define NSVC ((int)(sizeof SVC / sizeof SVC[0]))

/* variant 0: only counting entries (L of them, key family fam); variant 1: mandatory entries + the counting entries of mask L */
static void init_case(int variant, int L, int fam, int failpos, int mv)
{
    static CO_OBJ tmp[MAXINIT]; OdB b; char smp[200]; int counting[MAXINIT], ncount = 0;
    case_begin();
    od_init(&b, tmp, MAXINIT);
    if (variant == 0) {
        for (int i = 0; i < L; i++) {
            uint32_t d = fam == 0 ? DEV(0x2000 + i, 0) : fam == 1 ? DEV(0x2000, i) : (i == L - 1 && L > 1) ? FAM2[11] : FAM2[i];
            od_add(&b, d | CO_OBJ_____RW, &CntType, (CO_DATA)0);
        }
    } else if (variant == 1) {
        od_mandatory(&b, &ErrReg);
        od_add(&b, CO_KEY(0x1017, 0, CO_OBJ_D___RW), CO_TUNSIGNED16, (CO_DATA)0);
        for (int i = 0; i < 4; i++) if (L & (1 << i)) od_add(&b, MIXC[i] | CO_OBJ_____RW, &CntType, (CO_DATA)0);
    } else {
        /* variants 2/3 (without / with an emergency table): mandatory entries + counting entries at the service keys L and fam (L == fam: one; L == NSVC: all) */
        od_mandatory(&b, &ErrReg);
        for (int i = 0; i < NSVC; i++) if (i == L || i == fam || L == NSVC) od_add(&b, SVC[i] | CO_OBJ_____RW, &CntType, (CO_DATA)0);
    }
    INIT_EMCY = (variant == 3); InitEmcy[0].Reg = 0; InitEmcy[0].Code = 0x1000; InitEmcy[1].Reg = 1; InitEmcy[1].Code = 0x2000;
    IN = b.used;
    free(IRoot);
    IRoot = malloc(sizeof(CO_OBJ) * (size_t)(IN + 1));
    memcpy(IRoot, tmp, sizeof(CO_OBJ) * (size_t)(IN + 1));
    memset(CNT, 0, sizeof CNT); CNT_FOREIGN = 0; CNT_BADNODE = 0; FAILPOS = -1;
    for (int i = 0; i < IN; i++) if (IRoot[i].Type == &CntType) { if (ncount == failpos) FAILPOS = i; counting[ncount++] = i; }
    mc_log("dictionary of %d entries, %d with a counting type, DictLen=%d, initialiser reporting an error: %s%d\n", IN, ncount, IN + (mv ? 5 : 1), failpos < 0 ? "none " : "counting entry #", failpos);
    node_init(IRoot, (uint16_t)(IN + (mv ? 5 : 1)), 1);
    uint64_t h = 2;
    for (int k = 0; k < ncount; k++) {
        int i = counting[k];
        h = hmix(h, (uint64_t)CNT[i]);
        if (CNT[i] != 1)
            FAIL("c06-init-count", "node initialisation ran the type initialisation of element %d of %d (%04X:%02X, %s entry) %d time(s) instead of once",
                 i, IN, IRoot[i].Key >> 16, (IRoot[i].Key >> 8) & 0xFF, i == 0 ? "first" : i == IN - 1 ? "last" : "middle", CNT[i]);
    }
    if (CNT_FOREIGN) FAIL("c06-init-count", "type initialisation called %d time(s) for an object that is not an entry of the dictionary", CNT_FOREIGN);
    if (CNT_BADNODE) FAIL("c06-init-count", "type initialisation called %d time(s) with a foreign node pointer", CNT_BADNODE);
    if (OBS.fatal) FAIL("safety:fatal-error callback invoked", "during CONodeInit");
    /* not demanded by the statement, logged only: a later NMT reset */
    if (mc_verbose) { CONmtReset(&Node.Nmt, CO_RESET_NODE); mc_log("  after NMT reset node: counters"); for (int k = 0; k < ncount; k++) mc_log(" %d", CNT[counting[k]]); mc_log("\n"); }
    if (want_sample()) snprintf(smp, sizeof smp, "init: %d entries (%d counting, variant %d family %d, failing #%d, DictLen %d) -> first=%d last=%d", IN, ncount, variant, fam, failpos,
                                IN + (mv ? 5 : 1), ncount ? CNT[counting[0]] : -1, ncount ? CNT[counting[ncount - 1]] : -1);
    mc_case_end(hmix(h, (uint64_t)IN), 1, want_sample() ? smp : 0);
}

static void run_init(int tier)
{
    int maxL = tier ? 12 : 6;
    for (int L = 1; L <= maxL; L++) for (int fam = 0; fam < 3; fam++) for (int fp = -1; fp < L; fp++) for (int mv = 0; mv < 2; mv++) {
        mc_case(5, 0, L, fam, fp, mv);
        init_case(0, L, fam, fp, mv);
    }
    for (int m = 1; m < 16; m++) for (int fp = -1; fp < 4; fp++) for (int mv = 0; mv < 2; mv++) {
        if (fp >= __builtin_popcount((unsigned)m)) continue;
        mc_case(5, 1, m, 0, fp, mv);
        init_case(1, m, 0, fp, mv);
    }
    for (int v = 2; v <= 3; v++) for (int a = 0; a <= NSVC; a++) for (int c = a; c < (a == NSVC ? a + 1 : NSVC); c++) for (int fp = -1; fp < (tier ? 2 : 0); fp++) {
        if (fp >= (a == NSVC ? NSVC : a == c ? 1 : 2)) continue;
        mc_case(5, v, a, c, fp, 0);
        init_case(v, a, c, fp, 0);
    }
}

/* ================================================================== cfg 2: typed access */
typedef struct { uint8_t w, direct, nid; uint16_t idx; CO_OBJ *obj; void *ref; uint32_t init; } TEnt;
#define NTE 12
static TEnt   TE[NTE];
static CO_OBJ TOD[40];
static uint8_t CurNid;
#define WMASK(w) ((w) == 4 ? 0xFFFFFFFFu : (w) == 2 ? 0xFFFFu : 0xFFu)

static uint32_t raw_get(const TEnt *t)
{
    uint32_t v = 0;
    if (t->direct) return (uint32_t)t->obj->Data & WMASK(t->w);
    memcpy(&v, t->ref, t->w);
    return v;
}
static void raw_set(const TEnt *t, uint32_t v)
{
    v &= WMASK(t->w);
    if (t->direct) t->obj->Data = (CO_DATA)v; else memcpy(t->ref, &v, t->w);
}
static CO_ERR rd(int w, uint32_t key, uint32_t *out)
{
    CO_ERR e; uint8_t b = (uint8_t)*out; uint16_t s = (uint16_t)*out; uint32_t l = *out;
    mc_steps++;
    if (w == 1) { e = CODictRdByte(&Node.Dict, key, &b); *out = b; }
    else if (w == 2) { e = CODictRdWord(&Node.Dict, key, &s); *out = s; }
    else { e = CODictRdLong(&Node.Dict, key, &l); *out = l; }
    return e;
}
static CO_ERR wr(int w, uint32_t key, uint32_t v)
{
    mc_steps++;
    if (w == 1) return CODictWrByte(&Node.Dict, key, (uint8_t)v);
    if (w == 2) return CODictWrWord(&Node.Dict, key, (uint16_t)v);
    return CODictWrLong(&Node.Dict, key, v);
}

/* TY_AP: every entry additionally carries the flags "asynchronous" and "PDO mappable" (a write then also runs the TPDO trigger), the node is started and an
 * unrelated node error is pending that the application never fetches (a refused CONmtSetNodeId) - a typed access succeeds or fails by width alone */
static int TY_AP, CurAP = -1;
static void typed_world(uint8_t nid)
{
    OdB b; static const CO_OBJ_TYPE *const TY[5] = { 0, &COTInt8, &COTInt16, 0, &COTInt32 };
    od_init(&b, TOD, 40); od_mandatory(&b, &ErrReg);
    od_add(&b, CO_KEY(0x1017, 0, CO_OBJ_D___RW), CO_TUNSIGNED16, (CO_DATA)0);
    for (int e = 0; e < NTE; e++) {
        TEnt *t = &TE[e];
        t->w = (uint8_t)(e / 4 == 0 ? 1 : e / 4 == 1 ? 2 : 4); t->direct = (uint8_t)((e & 1) == 0); t->nid = (uint8_t)((e & 2) != 0);
        t->idx = (uint16_t)(0x2100 + e);
        t->init = (0xA1B2C3D4u ^ ((uint32_t)e * 0x07070707u)) & WMASK(t->w);
        if (!t->direct && !t->ref) t->ref = malloc(t->w);          /* exactly the entry's width: a wider access hits the red zone */
        od_add(&b, CO_KEY(t->idx, 0, (t->direct ? CO_OBJ_D_____ : 0) | (t->nid ? CO_OBJ__N____ : 0) | (TY_AP ? CO_OBJ___APRW : CO_OBJ_____RW)), TY[t->w], t->direct ? (CO_DATA)0 : (CO_DATA)t->ref);
    }
    for (int e = 0; e < NTE; e++) { TE[e].obj = 0; for (int i = 0; i < b.used; i++) if (CO_GET_IDX(TOD[i].Key) == TE[e].idx) TE[e].obj = &TOD[i]; raw_set(&TE[e], TE[e].init); }
    node_init(TOD, 40, nid);
    if (TY_AP) { CONodeStart(&Node); CONmtSetNodeId(&Node.Nmt, (uint8_t)(nid == 1 ? 2 : 1)); }
    W_REG(TOD);
    for (int e = 0; e < NTE; e++) if (!TE[e].direct) w_region(TE[e].ref, TE[e].w, 1);
    CurNid = nid; CurAP = TY_AP;
}

static const char *ent_name(const TEnt *t) { static char b[64]; snprintf(b, sizeof b, "%d-bit %s%s entry %04X", t->w * 8, t->direct ? "direct" : "referenced", t->nid ? " node-id" : "", t->idx); return b; }

/* one value on one entry: matching write/read, raw relation, every other access width refused */
static void typed_case(int e, uint8_t nid, uint32_t v)
{
    char smp[200]; uint64_t h = 3;
    case_begin();
    if (CurNid != nid || CurAP != TY_AP) typed_world(nid);
    for (int k = 0; k < NTE; k++) raw_set(&TE[k], TE[k].init);
    if (Node.NodeId != nid) FAIL("c06-typed-nodeid", "node initialised with node id %u reports id %u", nid, Node.NodeId);
    if (e >= NTE) {                                             /* absent objects: no typed access may succeed */
        uint32_t key = e == NTE ? CO_DEV(0x20FF, 0) : e == NTE + 1 ? CO_DEV(0x2100, 1) : CO_DEV(0x210C, 0);
        for (int w = 1; w <= 4; w <<= 1) {
            uint32_t out = 0x5A5A5A5A; CO_ERR er = rd(w, key, &out), ew = wr(w, key, v);
            h = hmix(h, (uint64_t)(er != CO_ERR_NONE) * 2 + (uint64_t)(ew != CO_ERR_NONE));
            if (er == CO_ERR_NONE || ew == CO_ERR_NONE) FAIL("c06-typed-size", "%d-bit %s of the absent object %04X:%02X succeeds", w * 8, er == CO_ERR_NONE ? "read" : "write", key >> 16, (key >> 8) & 0xFF);
        }
        for (int k = 0; k < NTE; k++) if (raw_get(&TE[k]) != TE[k].init) FAIL("c06-typed-sideeffect", "access to an absent object changed %s", ent_name(&TE[k]));
        if (want_sample()) snprintf(smp, sizeof smp, "typed access to absent %04X:%02X refused", key >> 16, (key >> 8) & 0xFF);
        mc_case_end(h, 0, want_sample() ? smp : 0);
        return;
    }
    const TEnt *t = &TE[e]; uint32_t m = WMASK(t->w), key = CO_DEV(t->idx, 0), off = t->nid ? nid : 0, out, raw, back; CO_ERR err;
    v &= m;
    /* write, stored value, read back */
    err = wr(t->w, key, v);
    raw = raw_get(t);
    mc_log("  node id %u, %s: write %X -> err %d, stored %X\n", nid, ent_name(t), v, (int)err, raw);
    if (err != CO_ERR_NONE) FAIL("c06-typed-roundtrip", "node id %u: %d-bit write of %X to the %s fails with error %d", nid, t->w * 8, v, ent_name(t), (int)err);
    else if (raw != ((v - off) & m))
        FAIL(t->nid ? "c06-typed-nodeid" : "c06-typed-stored", "node id %u: write of %X to the %s stores %X, expected %X (written value%s)", nid, v, ent_name(t), raw, (v - off) & m, t->nid ? " minus node id" : "");
    out = ~v;
    err = rd(t->w, key, &out);
    mc_log("  read -> err %d, value %X\n", (int)err, out);
    if (err != CO_ERR_NONE) FAIL("c06-typed-roundtrip", "node id %u: %d-bit read of the %s fails with error %d", nid, t->w * 8, ent_name(t), (int)err);
    else if (out != v) FAIL("c06-typed-roundtrip", "node id %u: %s: wrote %X, read back %X", nid, ent_name(t), v, out);
    back = out;
    h = hmix(h, out); h = hmix(h, raw);
    /* stored value given, read must add the node id */
    raw_set(t, v);
    out = ~v;
    err = rd(t->w, key, &out);
    mc_log("  stored %X: read -> err %d, value %X\n", v, (int)err, out);
    if (err != CO_ERR_NONE) FAIL("c06-typed-roundtrip", "node id %u: %d-bit read of the %s fails with error %d", nid, t->w * 8, ent_name(t), (int)err);
    else if (out != ((v + off) & m))
        FAIL(t->nid ? "c06-typed-nodeid" : "c06-typed-stored", "node id %u: %s holds %X, read returns %X, expected %X (stored value%s)", nid, ent_name(t), v, out, (v + off) & m, t->nid ? " plus node id" : "");
    h = hmix(h, out);
    /* every other access width must be refused and must leave the value alone */
    for (int w = 1; w <= 4; w <<= 1) {
        if (w == t->w) continue;
        out = 0x5A5A5A5A;
        err = rd(w, key, &out);
        mc_log("  %d-bit read -> err %d\n", w * 8, (int)err);
        if (err == CO_ERR_NONE) FAIL("c06-typed-size", "%d-bit read of the %s succeeds (value %X)", w * 8, ent_name(t), out);
        h = hmix(h, (uint64_t)(err != CO_ERR_NONE));
        err = wr(w, key, ~v);
        mc_log("  %d-bit write -> err %d, stored %X\n", w * 8, (int)err, raw_get(t));
        if (err == CO_ERR_NONE) FAIL("c06-typed-size", "%d-bit write to the %s succeeds (stored value now %X)", w * 8, ent_name(t), raw_get(t));
        else if (raw_get(t) != v) FAIL("c06-typed-size", "refused %d-bit access changed the value of the %s from %X to %X", w * 8, ent_name(t), v, raw_get(t));
        h = hmix(h, (uint64_t)(err != CO_ERR_NONE));
    }
    for (int k = 0; k < NTE; k++) if (k != e && raw_get(&TE[k]) != TE[k].init) FAIL("c06-typed-sideeffect", "access to the %s changed another entry (%04X: %X -> %X)", ent_name(t), TE[k].idx, TE[k].init, raw_get(&TE[k]));
    if (OBS.fatal) FAIL("safety:fatal-error callback invoked", "typed access");
    if (want_sample()) snprintf(smp, sizeof smp, "node id %u, %s: write %X stores %X, reads back %X", nid, ent_name(t), v, raw, back);
    mc_case_end(h, 1, want_sample() ? smp : 0);
}

static uint32_t V32[1024]; static int NV32;
static void add32(uint32_t v) { for (int i = 0; i < NV32; i++) if (V32[i] == v) return; V32[NV32++] = v; }
static void make_v32(uint8_t nid)
{
    static const uint32_t X[] = { 0x0000FFFF, 0xFFFF0000, 0x00FF00FF, 0xFF00FF00, 0x12345678, 0x87654321, 0xDEADBEEF, 0x000000FF, 0x0000FF00, 0x00FF0000, 0xFF000000, 0x7F, 0x80, 0x7FFF, 0x8000 };
    NV32 = 0;
    for (int k = 0; k < 32; k++) { add32(1u << k); add32((1u << k) - 1); add32((1u << k) + 1); }
    for (int d = -2; d <= 2; d++) { add32((uint32_t)nid + (uint32_t)d); add32(0u - (uint32_t)nid + (uint32_t)d); add32((uint32_t)d); }
    for (uint32_t b = 0; b < 256; b++) add32(b * 0x01010101u);
    for (unsigned i = 0; i < sizeof X / sizeof X[0]; i++) { add32(X[i]); add32(X[i] + nid); add32(X[i] - nid); }
}

static void run_typed(int tier)
{
    static const int QN[] = { 1, 2, 63, 127 };
    int nn = tier ? 127 : 4;
    for (TY_AP = 0; TY_AP < 2; TY_AP++)
    for (int ni = 0; ni < nn && !mc_deadline_hit(); ni++) {
        uint8_t nid = (uint8_t)(tier ? ni + 1 : QN[ni]);
        if (TY_AP && tier && (nid % 16) != 1 && nid != 127) continue;
        typed_world(nid);
        make_v32(nid);
        for (int e = 0; e < NTE && !mc_deadline_hit(); e++) {
            int w = TE[e].w;
            if (w == 4) for (int i = 0; i < NV32; i++) { mc_case(4, e, nid, (int)V32[i], TY_AP); typed_case(e, nid, V32[i]); }
            else for (uint32_t v = 0; v <= WMASK(w); v++) { mc_case(4, e, nid, (int)v, TY_AP); typed_case(e, nid, v); }
        }
        for (int e = NTE; e < NTE + 3; e++) { mc_case(4, e, nid, 0x11, TY_AP); typed_case(e, nid, 0x11); }
    }
    TY_AP = 0;
}

/* ================================================================== cfg 3: buffers */
#define BMAX 4100
#define GRD  32
static const int BSIZES[] = { 1, 2, 3, 4, 5, 7, 8, 255, 256, 257, 300, 889, 4000 };
#define NBS ((int)(sizeof BSIZES / sizeof BSIZES[0]))
static CO_OBJ     BOD[24];
static CO_OBJ_DOM Dom;
static CO_OBJ_STR Str;
static uint8_t    DMEM[GRD + BMAX + GRD], SMEM[BMAX + 1], BUF[GRD + BMAX + GRD], BUF0[GRD + BMAX + GRD], PATA[BMAX], PATB[BMAX], PATE[BMAX];
static uint8_t   *snap3;
#define GUARD  0xEE                   /* caller's buffer outside the payload; even. Payload patterns PATA/PATB are odd, */
#define DGUARD 0xD2                   /* memory around the domain; the initial domain content PATE is even, < 80h       */

static void buffer_world(void)
{
    OdB b;
    od_init(&b, BOD, 24); od_mandatory(&b, &ErrReg);
    od_add(&b, CO_KEY(0x1017, 0, CO_OBJ_D___RW), CO_TUNSIGNED16, (CO_DATA)0);
    od_add(&b, CO_KEY(0x2200, 0, CO_OBJ_____RW), CO_TDOMAIN, (CO_DATA)&Dom);
    od_add(&b, CO_KEY(0x2201, 0, CO_OBJ_____R_), CO_TSTRING, (CO_DATA)&Str);
    for (int i = 0; i < BMAX; i++) { PATA[i] = (uint8_t)((i * 7 + 13) | 1); PATB[i] = (uint8_t)((i * 11 + 5) | 1); PATE[i] = (uint8_t)((i * 2 + 2) & 0x7E); }
    memset(DMEM, DGUARD, sizeof DMEM); memset(SMEM, 0, sizeof SMEM); SMEM[0] = 'x';
    Dom.Offset = 0; Dom.Size = 1; Dom.Start = DMEM + GRD;
    Str.Offset = 0; Str.Start = SMEM;
    memset(BUF0, GUARD, sizeof BUF0);
    node_init(BOD, 24, 1);
    W_REG(BOD); W_REG(Dom); W_REG(Str);
    free(snap3); snap3 = malloc(w_snap_size()); w_save(snap3);
}

/* p[0..n) should be pat[0..k) followed by old[k..n).  Returns exp if that holds for k == exp, otherwise a k
 * for which it holds (the one nearest to exp), otherwise -1. */
static int moved_count(const uint8_t *p, const uint8_t *pat, const uint8_t *old, int n, int exp)
{
    int a = 0, b = n;
    if (memcmp(p, pat, (size_t)exp) == 0 && memcmp(p + exp, old + exp, (size_t)(n - exp)) == 0) return exp;
    while (a < n && p[a] == pat[a]) a++;
    while (b > 0 && p[b - 1] == old[b - 1]) b--;
    if (b > a) return -1;
    return exp < b ? b : a;
}

/* pre: what an earlier streaming access (the way the SDO server reads an object: start + continued chunks) left behind -
 * 0 nothing, 1 one byte read (cursor at 1), 2 the whole object read (cursor at the end), 3 half of the object read */
static void buffer_case(int mode, int S, int len, int pre)
{
    char smp[200]; int exp = len < S ? len : S, got[2] = { 0, 0 }; CO_ERR err[2] = { CO_ERR_NONE, CO_ERR_NONE };
    static uint8_t oldd[sizeof DMEM];
    const char *what = mode == 2 ? "string" : "domain";
    case_begin();
    if (S < 1 || S > 4000 || len < 0 || len > BMAX || mode < 0 || mode > 2) { mc_case_end(0, 0, 0); return; }
    w_restore(snap3); w_obs_clear();
    memset(DMEM, DGUARD, sizeof DMEM); Dom.Size = (uint32_t)S;
    memcpy(DMEM + GRD, mode == 1 ? PATE : PATA, (size_t)S);
    memcpy(SMEM, PATA, (size_t)S); memset(SMEM + S, 0, sizeof SMEM - (size_t)S);
    if (pre) {
        static uint8_t tmp[BMAX + 8]; CO_OBJ *o = CODictFind(&Node.Dict, mode == 2 ? CO_DEV(0x2201, 0) : CO_DEV(0x2200, 0));
        uint32_t k = pre == 1 ? 1u : pre == 2 ? (uint32_t)S : (uint32_t)(S / 2);
        if (o) { (void)COObjRdBufStart(o, &Node, tmp, 0); if (k) (void)COObjRdBufCont(o, &Node, tmp, k); }
    }
    for (int call = 0; call < 2 && !bad; call++) {
        const uint8_t *pat = (mode == 1 && call) ? PATB : PATA;
        memcpy(oldd, DMEM, sizeof DMEM);
        memset(BUF, GUARD, sizeof BUF);
        if (mode == 1) {                                        /* write to a domain */
            memcpy(BUF + GRD, pat, (size_t)len);
            err[call] = CODictWrBuffer(&Node.Dict, CO_DEV(0x2200, 0), BUF + GRD, (uint32_t)len);
            mc_steps++;
            got[call] = moved_count(DMEM + GRD, pat, oldd + GRD, S, exp);
            mc_log("  call %d: write %d byte(s) to a %d-byte domain -> err %d, %d byte(s) stored\n", call + 1, len, S, (int)err[call], got[call]);
            if (err[call] != CO_ERR_NONE) FAIL("c06-buffer-error", "write of %d byte(s) to a %d-byte domain fails with error %d", len, S, (int)err[call]);
            else if (memcmp(DMEM, oldd, GRD) || memcmp(DMEM + GRD + S, oldd + GRD + S, sizeof DMEM - GRD - (size_t)S))
                FAIL("c06-buffer-overrun", "write of %d byte(s) to a %d-byte domain changed memory outside the domain", len, S);
            else if (got[call] != exp) {
                if (call && got[call] < 0) FAIL("c06-buffer-restart", "second write of %d byte(s) to a %d-byte domain does not start again at offset 0", len, S);
                else FAIL("c06-buffer-count", "%s write of %d byte(s) to a %d-byte domain stored %d byte(s) at the start of the domain, expected %d", call ? "second" : "first", len, S, got[call], exp);
            }
            else if (memcmp(BUF + GRD, pat, (size_t)len) || memcmp(BUF, BUF0, GRD) || memcmp(BUF + GRD + len, BUF0, sizeof BUF - GRD - (size_t)len))
                FAIL("c06-buffer-overrun", "write of %d byte(s) changed the caller's source buffer", len);
        } else {                                                /* read from a domain / a string */
            err[call] = CODictRdBuffer(&Node.Dict, mode == 0 ? CO_DEV(0x2200, 0) : CO_DEV(0x2201, 0), BUF + GRD, (uint32_t)len);
            mc_steps++;
            got[call] = moved_count(BUF + GRD, PATA, BUF0 + GRD, BMAX, exp);
            mc_log("  call %d: read %d byte(s) from a %d-byte %s -> err %d, %d byte(s) delivered\n", call + 1, len, S, what, (int)err[call], got[call]);
            if (err[call] != CO_ERR_NONE) FAIL("c06-buffer-error", "read of %d byte(s) from a %d-byte %s fails with error %d", len, S, what, (int)err[call]);
            else if (memcmp(BUF, BUF0, GRD) || memcmp(BUF + GRD + BMAX, BUF0, GRD) || got[call] > len || (got[call] < 0 && memcmp(BUF + GRD + len, BUF0, sizeof BUF - GRD - (size_t)len)))
                FAIL("c06-buffer-overrun", "read of %d byte(s) from a %d-byte %s wrote outside the %d-byte destination buffer", len, S, what, len);
            else if (got[call] != exp) {
                if (call && got[call] < 0) FAIL("c06-buffer-restart", "second read of %d byte(s) from a %d-byte %s does not start again at offset 0", len, S, what);
                else if (got[call] < 0) FAIL("c06-buffer-count", "read of %d byte(s) from a %d-byte %s delivered bytes that are not the first bytes of the object", len, S, what);
                else FAIL("c06-buffer-count", "%s read of %d byte(s) from a %d-byte %s delivered %d byte(s), expected %d", call ? "second" : "first", len, S, what, got[call], exp);
            }
            else if (memcmp(DMEM, oldd, sizeof DMEM)) FAIL("c06-buffer-overrun", "read changed the domain memory");
        }
    }
    if (OBS.fatal) FAIL("safety:fatal-error callback invoked", "buffer access");
    if (want_sample()) snprintf(smp, sizeof smp, "%s %d byte(s) %s a %d-byte %s (earlier streaming access %d): moved %d, again %d", mode == 1 ? "write" : "read", len, mode == 1 ? "to" : "from", S, what, pre, got[0], got[1]);
    mc_case_end(hmix(hmix(4, (uint64_t)(got[0] + 1)), (uint64_t)(got[1] + 1) * 3 + (uint64_t)mode), exp > 0, want_sample() ? smp : 0);
}

static void run_buffers(int tier)
{
    static const int MORE[] = { 511, 512, 513, 888, 889, 890, 3999, 4000 };
    int sizes[320], ns = 0;
    if (!tier) for (int i = 0; i < NBS; i++) sizes[ns++] = BSIZES[i];
    else { for (int s = 1; s <= 300; s++) sizes[ns++] = s; for (unsigned i = 0; i < sizeof MORE / sizeof MORE[0]; i++) sizes[ns++] = MORE[i]; }
    buffer_world();
    for (int mode = 0; mode < 3; mode++) for (int si = 0; si < ns && !mc_deadline_hit(); si++) for (int len = 0; len <= BMAX; len++) for (int pre = 0; pre < 4; pre++) {
        if (pre && !(len <= 16 || len == sizes[si] || len == sizes[si] - 1 || len == sizes[si] + 1 || len == sizes[si] / 2 || len == BMAX)) continue;   /* after an earlier streaming access: boundary lengths */
        mc_case(4, mode, sizes[si], len, pre);
        buffer_case(mode, sizes[si], len, pre);
    }
}

/* ================================================================== driver */
static void run_cfg(int cfg, int tier)
{
    if (cfg == 0) run_lookup(tier);
    else if (cfg == 1) run_init(tier);
    else if (cfg == 2) run_typed(tier);
    else run_buffers(tier);
}

static void run_case(const int *c, int n)
{
    if (n < 2) return;
    mc_case_v(c + 1, n - 1);
    if (c[0] == 0) replay_lookup(c, n);
    else if (c[0] == 1 && n >= 6) init_case(c[1], c[2], c[3], c[4], c[5]);
    else if (c[0] == 2 && n >= 4) { TY_AP = n >= 5 ? c[4] : 0; typed_case(c[1], (uint8_t)c[2], (uint32_t)c[3]); }
    else if (c[0] == 3 && n >= 4) { buffer_world(); buffer_case(c[1], c[2], c[3], n >= 5 ? c[4] : 0); }
}

static const char *cfg_name(int c) { return c == 0 ? "lookup" : c == 1 ? "type init once" : c == 2 ? "typed access" : "buffers"; }
static const mc_enum E = { "C06", "c06", 4, cfg_name, run_cfg, run_case };
int main(int argc, char **argv) { return mc_enum_main(argc, argv, &E); }
