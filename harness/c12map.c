/* C12 (b) - TPDO frame == little-endian concatenation of the mapped values, DLC == mapped byte count.
 * Exhaustive sweep over every ordered composition of 1..8 mapped objects with sizes {1,2,3,4} totalling <= 8 bytes. */
#include "node_common.h"

static const uint32_t V32[2][3] = { { 0x04030201u, 0x14131211u, 0xA4A3A2A1u }, { 0xFFEEDDCCu, 0x80000001u, 0x7F00FF00u } };

static void set_values(int pat)
{
    for (int i = 0; i < 8; i++) B8[i] = (uint8_t)(pat ? 0xF0 - 7 * i : 0x31 + i);
    for (int i = 0; i < 4; i++) W16[i] = (uint16_t)(pat ? 0xFE01 - 0x111 * i : 0x4241 + 0x202 * i);
    A32 = V32[pat][0]; P32 = V32[pat][1];
}

/* comp[k] in {1,2,3,4}; objects are taken in order from the pools */
static void one(const int *comp, int n, int pat)
{
    uint8_t want[8]; int wl = 0, i8 = 0, i16 = 0, i32 = 0; char smp[120], cs[40] = "";
    w_regions_clear();
    nc_defaults();
    NC.n_tpdo = 1; NC.tpdo[0].present = 1; NC.tpdo[0].cobid = 0x40000181u; NC.tpdo[0].type = 254; NC.tpdo[0].nmap = (uint8_t)n;
    for (int k = 0; k < n; k++) {
        int sz = comp[k]; snprintf(cs + strlen(cs), sizeof cs - strlen(cs), "%d", sz);
        if (sz == 1) NC.tpdo[0].map[k] = NC_MAP(0x2113, 1 + i8++, 8);
        else if (sz == 2) NC.tpdo[0].map[k] = NC_MAP(0x2114, 1 + i16++, 16);
        else { NC.tpdo[0].map[k] = i32 == 0 ? NC_MAP(0x2102, 0, sz * 8) : NC_MAP(0x2112, 0, sz * 8); i32++; }
    }
    NC.operational = 1;
    nc_build();
    set_values(pat);
    i8 = i16 = i32 = 0;
    for (int k = 0; k < n; k++) {
        int sz = comp[k]; uint32_t v = sz == 1 ? B8[i8++] : sz == 2 ? W16[i16++] : (i32++ == 0 ? A32 : P32);
        for (int b = 0; b < sz; b++) want[wl++] = (uint8_t)(v >> (8 * b));
    }
    w_obs_clear();
    COTPdoTrigPdo(Node.TPdo, 0); mc_steps++;
    {
        const WFrame *f = nc_find_tx(0x181, 0);
        if (!f || nc_count_tx(0x181) != 1) mc_fail("tpdo-map-count", "mapping %s: %d TPDO frame(s) for one trigger", cs, nc_count_tx(0x181));
        else if (f->dlc != wl) mc_fail("tpdo-map-dlc", "mapping %s: DLC %d, mapped bytes %d", cs, f->dlc, wl);
        else if (memcmp(f->d, want, (size_t)wl)) { char a[40]; w_fmt_frame(a, sizeof a, f); mc_fail("tpdo-map-data", "mapping %s pattern %d: frame %s is not the little-endian concatenation of the mapped values (%02X %02X %02X %02X %02X %02X %02X %02X)", cs, pat, a, want[0], want[1], want[2], want[3], want[4], want[5], want[6], want[7]); }
        snprintf(smp, sizeof smp, "mapping sizes %s pattern %d -> DLC %d", cs, pat, f ? f->dlc : -1);
        mc_case_end(f ? ((uint64_t)f->dlc << 56) ^ ((uint64_t)f->d[0] << 8) ^ f->d[wl ? wl - 1 : 0] ^ ((uint64_t)n << 32) : 0, 1, smp);
    }
}

static void rec(int *comp, int n, int sum)
{
    if (n > 0) for (int pat = 0; pat < 2; pat++) {
        int v[10]; v[0] = n; v[1] = pat; for (int k = 0; k < n; k++) v[2 + k] = comp[k];
        mc_case_v(v, n + 2);
        one(comp, n, pat);
    }
    if (n == 8) return;
    for (int sz = 1; sz <= 4; sz++) {
        int n32 = 0; for (int k = 0; k < n; k++) if (comp[k] >= 3) n32++;
        if (sum + sz > 8 || (sz >= 3 && n32 >= 2)) continue;
        comp[n] = sz; rec(comp, n + 1, sum + sz);
    }
}

static void run_cfg(int cfg, int tier) { int comp[8]; (void)cfg; (void)tier; rec(comp, 0, 0); }
static void run_case(const int *c, int n) { if (n < 4) return; mc_case_v(c + 1, n - 1); one(c + 3, c[1], c[2]); }
static const char *cfg_name(int c) { (void)c; return "all compositions"; }
static const mc_enum E = { "C12", "c12map", 1, cfg_name, run_cfg, run_case };
int main(int argc, char **argv) { return mc_enum_main(argc, argv, &E); }
