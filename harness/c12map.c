/* C12 (b) - TPDO frame == little-endian concatenation of the mapped values, DLC == mapped byte count.
 * Exhaustive sweep over every ordered composition of 1..8 mapped objects with sizes {1,2,3,4} totalling <= 8 bytes. */
#include "node_common.h"

static const uint32_t V32[2][3] = { { 0x04030201u, 0x14131211u, 0xA4A3A2A1u }, { 0xFFEEDDCCu, 0x80000001u, 0x7F00FF00u } };

static void set_values(int pat)
{
    for (int i = 0; i < 8; i++) B8[i] = (uint8_t)(pat ? 0xF0 - 7 * i : 0x31 + i);
    for (int i = 0; i < 4; i++) W16[i] = (uint16_t)(pat ? 0xFE01 - 0x111 * i : 0x4241 + 0x202 * i);
    A32 = V32[pat][0]; P32 = V32[pat][1]; H8 = (uint8_t)(pat ? 0x9C : 0x2E);
}

/* comp[k] in {1,2,3,4}; objects are taken in order from the pools */
static void one(const int *comp, int n, int pat)
{
    uint8_t want[8]; int wl = 0, i8 = 0, i16 = 0, i32 = 0; char smp[120], cs[40] = "";
    w_regions_clear();
    nc_defaults();
    NC.n_tpdo = 1; NC.tpdo[0].present = 1; NC.tpdo[0].cobid = 0x40000181u; NC.tpdo[0].type = 254; NC.tpdo[0].nmap = (uint8_t)n;
    for (int k = 0; k < n; k++) {
        int sz = comp[k]; snprintf(cs + strlen(cs), sizeof cs - strlen(cs), "%d", sz);
        if (sz == 1) { NC.tpdo[0].map[k] = i8 == 0 ? NC_MAP(0xF100, 0, 8) : NC_MAP(0x2113, i8, 8); i8++; }      /* the first 8-bit object lives at F100h, the others at 2113h:1..7 */
        else if (sz == 2) NC.tpdo[0].map[k] = NC_MAP(0x2114, 1 + i16++, 16);
        else { NC.tpdo[0].map[k] = i32 == 0 ? NC_MAP(0x2102, 0, sz * 8) : NC_MAP(0x2112, 0, sz * 8); i32++; }
    }
    NC.operational = 1;
    nc_build();
    set_values(pat);
    i8 = i16 = i32 = 0;
    for (int k = 0; k < n; k++) {
        int sz = comp[k]; uint32_t v = sz == 1 ? (i8 == 0 ? H8 : B8[i8 - 1]) : sz == 2 ? W16[i16++] : (i32++ == 0 ? A32 : P32);
        if (sz == 1) i8++;
        for (int b = 0; b < sz; b++) want[wl++] = (uint8_t)(v >> (8 * b));
    }
    w_obs_clear();
    COTPdoTrigPdo(Node.TPdo, 0); mc_steps++;
    {
        const WFrame *f = nc_find_tx(0x181, 0);
        if (!f || nc_count_tx(0x181) != 1) mc_fail("tpdo-map-count", "mapping %s: %d TPDO frame(s) for one trigger", cs, nc_count_tx(0x181));
        else if (f->dlc != wl) mc_fail("tpdo-map-dlc", "mapping %s: DLC %d, mapped bytes %d", cs, f->dlc, wl);
        else if (memcmp(f->d, want, (size_t)wl)) { char a[40]; w_fmt_frame(a, sizeof a, f); mc_fail("tpdo-map-data", "mapping %s pattern %d: frame %s is not the little-endian concatenation of the mapped values (%02X %02X %02X %02X %02X %02X %02X %02X)", cs, pat, a, want[0], want[1], want[2], want[3], want[4], want[5], want[6], want[7]); }
        snprintf(smp, sizeof smp, "mapping sizes %s pattern %d -> DLC %d", cs, pat, f ? f->dlc : -1);
        mc_case_end(f ? ((uint64_t)f->dlc << 56) ^ ((uint64_t)f->d[0] << 8) ^ f->d[wl ? wl - 1 : 0] ^ ((uint64_t)n << 32) : 0, 1, smp);
    }
}

static void rec(int *comp, int n, int sum)
{
    if (n > 0) for (int pat = 0; pat < 2; pat++) {
        int v[10]; v[0] = n; v[1] = pat; for (int k = 0; k < n; k++) v[2 + k] = comp[k];
        mc_case_v(v, n + 2);
        one(comp, n, pat);
    }
    if (n == 8) return;
    for (int sz = 1; sz <= 4; sz++) {
        int n32 = 0; for (int k = 0; k < n; k++) if (comp[k] >= 3) n32++;
        if (sum + sz > 8 || (sz >= 3 && n32 >= 2)) continue;
        comp[n] = sz; rec(comp, n + 1, sum + sz);
    }
}

/* ---- cfg 1: "triggered by a changed asynchronous object".  The mapped object is an asynchronous 8-, 16- or 32-bit entry that keeps its value in a variable
 * or directly in the dictionary entry; for every ordered pair (old, new) of a value list that varies each byte separately the object is written with old,
 * then with new - through the dictionary API or by SDO: the event-driven TPDO must be sent exactly when new differs from old, carrying new ---- */
static const uint32_t VAL[] = { 0, 1, 5, 0x34, 0xFF, 0x100, 0x105, 0x1234, 0xFF00, 0xFFFF, 0x10000, 0x10005, 0x345678, 0x1000000, 0x12345678, 0xFF000000, 0xFFFFFFFF };
#define NVAL ((int)(sizeof VAL / sizeof VAL[0]))
static uint8_t R8; static uint16_t R16; static uint32_t R32;
static void async_case(int w, int direct, int via_sdo, int io, int in)
{
    uint32_t mask = w == 1 ? 0xFFu : w == 2 ? 0xFFFFu : 0xFFFFFFFFu, old = VAL[io] & mask, nw = VAL[in] & mask; char smp[160]; int n;
    const CO_OBJ_TYPE *t = w == 1 ? CO_TUNSIGNED8 : w == 2 ? CO_TUNSIGNED16 : CO_TUNSIGNED32;
    w_regions_clear();
    nc_defaults();
    NC.n_tpdo = 1; NC.tpdo[0].present = 1; NC.tpdo[0].cobid = 0x40000181u; NC.tpdo[0].type = 254; NC.tpdo[0].nmap = 1; NC.tpdo[0].map[0] = NC_MAP(0x2140, 0, w * 8);
    NC.operational = 1;
    nc_prepare();
    {
        OdB b; b.root = OD; b.cap = NC_OD_MAX; b.used = 0; while (b.used < NC_OD_MAX && OD[b.used].Key) b.used++;
        R8 = 0x77; R16 = 0x7777; R32 = 0x77777777u;
        if (direct) od_add(&b, CO_KEY(0x2140, 0, CO_OBJ_D_____ | CO_OBJ___APRW), t, (CO_DATA)(uintptr_t)(0x77777777u & mask));
        else od_add(&b, CO_KEY(0x2140, 0, CO_OBJ___APRW), t, w == 1 ? (CO_DATA)&R8 : w == 2 ? (CO_DATA)&R16 : (CO_DATA)&R32);
        W_REG(R8); W_REG(R16); W_REG(R32);
    }
    nc_start();
    for (int k = 0; k < 2; k++) {
        uint32_t v = k ? nw : old;
        w_obs_clear();
        if (via_sdo) { if (nc_sdo_write(0x2140, 0, v, w) != 0) { mc_fail("tpdo-async-write", "SDO write of %X to the %d-bit object refused", v, w * 8); break; } }
        else { CO_ERR e = w == 1 ? CODictWrByte(&Node.Dict, CO_DEV(0x2140, 0), (uint8_t)v) : w == 2 ? CODictWrWord(&Node.Dict, CO_DEV(0x2140, 0), (uint16_t)v) : CODictWrLong(&Node.Dict, CO_DEV(0x2140, 0), v);
               if (e != CO_ERR_NONE) { mc_fail("tpdo-async-write", "API write of %X to the %d-bit object fails with %d", v, w * 8, (int)e); break; } }
        mc_steps++;
    }
    n = nc_count_tx(0x181);
    if (n != (old != nw ? 1 : 0)) mc_fail(n ? "tpdo-unexpected" : "tpdo-missing", "%d-bit asynchronous object (%s storage) written %s with %X while it holds %X: %d TPDO frame(s), expected %d", w * 8, direct ? "direct" : "referenced", via_sdo ? "by SDO" : "through the API", nw, old, n, old != nw ? 1 : 0);
    else if (n) { const WFrame *f = nc_find_tx(0x181, 0); uint32_t got = 0; for (int b = 0; b < w; b++) got |= (uint32_t)f->d[b] << (8 * b); if (f->dlc != w || got != nw) mc_fail("tpdo-map-data", "TPDO after the change to %X carries %X (DLC %d)", nw, got, f->dlc); }
    snprintf(smp, sizeof smp, "%d-bit asynchronous object, %s storage, %s: %X -> %X gives %d frame(s)", w * 8, direct ? "direct" : "referenced", via_sdo ? "SDO" : "API", old, nw, n);
    mc_case_end(((uint64_t)n << 60) ^ ((uint64_t)w << 56) ^ ((uint64_t)direct << 55) ^ (old == nw), 1, smp);
}
static void run_async(void)
{
    for (int w = 1; w <= 4; w *= 2) for (int direct = 0; direct < 2; direct++) for (int via = 0; via < 2; via++) for (int io = 0; io < NVAL; io++) for (int in = 0; in < NVAL; in++) {
        mc_case(6, 1, w, direct, via, io, in);
        async_case(w, direct, via, io, in);
    }
}
static void run_cfg(int cfg, int tier) { int comp[8]; (void)tier; if (cfg == 1) { run_async(); return; } rec(comp, 0, 0); }
static void run_case(const int *c, int n) { if (c[0] == 1) { if (n < 7) return; mc_case_v(c + 1, n - 1); async_case(c[2], c[3], c[4], c[5], c[6]); return; } if (n < 4) return; mc_case_v(c + 1, n - 1); one(c + 3, c[1], c[2]); }
static const char *cfg_name(int c) { return c ? "changed asynchronous objects: widths, storage classes, value pairs" : "all compositions"; }
static const mc_enum E = { "C12", "c12map", 2, cfg_name, run_cfg, run_case };
int main(int argc, char **argv) { return mc_enum_main(argc, argv, &E); }
