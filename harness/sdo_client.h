/* sdo_client.h - conforming SDO client used as environment in C02, C03 and the C05 recovery probes.
 * Every request goes through sdo_request(), i.e. the reference server runs in lockstep. */
#ifndef SDO_CLIENT_H
#define SDO_CLIENT_H
#include "sdo_common.h"

#define CL_OK        0
#define CL_ABORT     1      /* server aborted; code in cl_abort */
#define CL_PROTOCOL  2      /* server answered something a conforming server cannot answer; text in cl_err */
static uint32_t cl_abort; static char cl_err[200];
static WFrame   cl_resp[W_MAX_TX]; static int cl_nresp;
static uint64_t cl_trace;                    /* running hash over everything the server sent (C05 differential oracle) */
static long     cl_frames;

/* a client that abandons its transfer: with cl_budget >= 0 only that many further requests are sent; the next one is
 * suppressed, cl_stopped is set and the dialogue function unwinds as if the server had aborted */
static int cl_budget = -1, cl_stopped;
static void (*cl_hook)(int i);               /* called before the i-th request of the transfer (interleaving with another server) */
static int  cl_hook_i;
static int cl_crc;        /* the client announces CRC support in its block initiate requests (cc bit); a server without CRC support answers sc = 0 and everything goes on as usual */
static void cl_send(int srv, const uint8_t *req)
{
    if (cl_budget == 0) { cl_stopped = 1; cl_nresp = 1; memset(&cl_resp[0], 0, sizeof cl_resp[0]); cl_resp[0].d[0] = 0x80; return; }
    if (cl_budget > 0) cl_budget--;
    if (cl_hook) cl_hook(cl_hook_i++);
    int first = OBS.ntx;
    sdo_request(srv, req);
    if (OBS.fatal) mc_fail("safety:fatal-error callback invoked", "during an SDO dialogue");
    cl_nresp = 0;
    for (int i = first; i < OBS.ntx && i < W_MAX_TX; i++) {
        cl_resp[cl_nresp++] = OBS.tx[i];
        uint64_t w; memcpy(&w, OBS.tx[i].d, 8);
        cl_trace = (cl_trace ^ w ^ ((uint64_t)OBS.tx[i].id << 40) ^ OBS.tx[i].dlc) * 0x9E3779B97F4A7C15ull; cl_trace ^= cl_trace >> 31;
        cl_frames++;
    }
    cl_trace = (cl_trace ^ 0xABCD) * 0xC2B2AE3D27D4EB4Full;     /* request boundary */
    if (OBS.ntx > W_MAX_TX - 140) w_obs_clear();                 /* long dialogues: keep the log from overflowing */
}
static void cl_req(uint8_t *f, uint8_t cmd, uint16_t idx, uint8_t sub) { memset(f, 0, 8); f[0] = cmd; f[1] = (uint8_t)idx; f[2] = (uint8_t)(idx >> 8); f[3] = sub; }
static int cl_check_abort(void)
{
    if (cl_nresp == 1 && cl_resp[0].d[0] == 0x80) { cl_abort = w_get32(cl_resp[0].d + 4); return 1; }
    return 0;
}
#define CL_ERR(...) do { snprintf(cl_err, sizeof cl_err, __VA_ARGS__); return CL_PROTOCOL; } while (0)
static void cl_client_abort(int srv) { uint8_t f[8]; cl_req(f, 0x80, 0, 0); cl_send(srv, f); }

/* expedited download; s_bit: 1 = size indicated in n, 0 = not indicated */
static int cl_exp_dl(int srv, uint16_t idx, uint8_t sub, const uint8_t *d, int len, int s_bit)
{
    uint8_t f[8];
    cl_req(f, (uint8_t)(0x22 | (s_bit ? (1 | ((4 - len) << 2)) : 0)), idx, sub);
    memcpy(f + 4, d, (size_t)len);
    if (s_bit) for (int k = 4 + len; k < 8; k++) f[k] = (uint8_t)(0xA5 + 0x1B * k);      /* bytes that carry no data are not zero */
    cl_send(srv, f);
    if (cl_check_abort()) return CL_ABORT;
    if (cl_nresp != 1 || cl_resp[0].d[0] != 0x60) CL_ERR("expedited download: unexpected response");
    return CL_OK;
}

/* segmented download; every segment but the last is full, the last carries the remainder (1..7 bytes) */
static int cl_seg_dl(int srv, uint16_t idx, uint8_t sub, const uint8_t *d, uint32_t len, int announce)
{
    uint8_t f[8]; uint32_t off = 0; int t = 0;
    cl_req(f, (uint8_t)(0x20 | (announce ? 1 : 0)), idx, sub);
    if (announce) w_put32(f + 4, len);
    cl_send(srv, f);
    if (cl_check_abort()) return CL_ABORT;
    if (cl_nresp != 1 || cl_resp[0].d[0] != 0x60) CL_ERR("initiate segmented download: unexpected response");
    do {
        uint32_t n = len - off > 7 ? 7 : len - off; int last = (off + n == len);
        memset(f, 0, 8);
        f[0] = (uint8_t)((t << 4) | ((7 - n) << 1) | (last ? 1 : 0));
        memcpy(f + 1, d + off, n);
        cl_send(srv, f);
        if (cl_check_abort()) return CL_ABORT;
        if (cl_nresp != 1 || cl_resp[0].d[0] != (0x20 | (t << 4))) CL_ERR("download segment at offset %u: unexpected response", off);
        off += n; t ^= 1;
    } while (off < len);
    return CL_OK;
}

/* block download with lost transmissions: the tx-th segment transmission (counted over the whole transfer,
 * retransmissions included, starting at 0) is dropped when it is listed in lose[].  Dropping the last segment
 * of a block is not a conforming-client scenario the server can recover (returns -1: placement not applicable). */
static int cl_blk_tx_count;                  /* number of segment transmissions of the last run */
static int cl_blk_dl(int srv, uint16_t idx, uint8_t sub, const uint8_t *d, uint32_t len, int announce, const int *lose, int nlose)
{
    uint8_t f[8]; uint32_t done = 0; int tx = 0, guard = 0;
    cl_blk_tx_count = 0;
    cl_req(f, (uint8_t)(0xC0 | (announce ? 2 : 0) | (cl_crc ? 4 : 0)), idx, sub);
    if (announce) w_put32(f + 4, len);
    cl_send(srv, f);
    if (cl_check_abort()) return CL_ABORT;
    if (cl_nresp != 1 || (cl_resp[0].d[0] & 0xFB) != 0xA0) CL_ERR("initiate block download: unexpected response");
    uint32_t blksize = cl_resp[0].d[4];
    uint32_t nseg_total = (len + 6) / 7;
    while (done < nseg_total) {              /* done = segments acknowledged so far */
        uint32_t inblk = nseg_total - done > blksize ? blksize : nseg_total - done, k;
        if (++guard > 4000 + (int)(len / 7)) CL_ERR("block download does not make progress");
        for (k = 1; k <= inblk; k++) {
            uint32_t s = done + k - 1, off = s * 7, n = len - off > 7 ? 7 : len - off; int last = (s + 1 == nseg_total);
            int drop = 0;
            for (int i = 0; i < nlose; i++) if (lose[i] == tx) drop = 1;
            tx++;
            if (drop && k == inblk) return -1;
            if (drop) continue;
            memset(f, 0, 8); f[0] = (uint8_t)(k | (last ? 0x80 : 0)); memcpy(f + 1, d + off, n);
            cl_send(srv, f);
            if (k < inblk) {
                if (cl_check_abort()) return CL_ABORT;
                if (cl_nresp != 0) CL_ERR("segment %u inside a block answered", k);
            }
        }
        cl_blk_tx_count = tx;
        if (cl_check_abort()) return CL_ABORT;
        if (cl_nresp != 1 || cl_resp[0].d[0] != 0xA2) CL_ERR("end of block not acknowledged with A2h");
        uint32_t ack = cl_resp[0].d[1];
        if (ack > inblk) CL_ERR("acknowledged sequence %u beyond the %u segments sent", ack, inblk);
        done += ack;
        blksize = cl_resp[0].d[2];
        if (blksize < 1 || blksize > 127) CL_ERR("block size %u", blksize);
    }
    cl_blk_tx_count = tx;
    cl_req(f, (uint8_t)(0xC1 | (((7 - (len % 7 ? len % 7 : 7)) & 7) << 2)), 0, 0);
    cl_send(srv, f);
    if (cl_check_abort()) return CL_ABORT;
    if (cl_nresp != 1 || cl_resp[0].d[0] != 0xA1) CL_ERR("end block download: unexpected response");
    return CL_OK;
}

/* upload (the server decides between expedited and segmented) */
static int cl_upload(int srv, uint16_t idx, uint8_t sub, uint8_t *out, uint32_t cap, uint32_t *len, uint32_t *announced)
{
    uint8_t f[8]; int t = 0; uint32_t got = 0;
    cl_req(f, 0x40, idx, sub);
    cl_send(srv, f);
    if (cl_check_abort()) return CL_ABORT;
    if (cl_nresp != 1) CL_ERR("initiate upload: %d responses", cl_nresp);
    const uint8_t *r = cl_resp[0].d;
    if ((r[0] & 0xE3) == 0x43) { uint32_t n = 4 - ((r[0] >> 2) & 3); if (n > cap) CL_ERR("too long"); memcpy(out, r + 4, n); *len = n; *announced = n; return CL_OK; }
    if (r[0] != 0x41) CL_ERR("initiate upload: unexpected response %02X", r[0]);
    *announced = w_get32(r + 4);
    for (;;) {
        memset(f, 0, 8); f[0] = (uint8_t)(0x60 | (t << 4));
        cl_send(srv, f);
        if (cl_check_abort()) return CL_ABORT;
        if (cl_nresp != 1) CL_ERR("upload segment: %d responses", cl_nresp);
        r = cl_resp[0].d;
        if ((r[0] & 0xE0) != 0 || ((r[0] >> 4) & 1) != t) CL_ERR("upload segment: unexpected response %02X", r[0]);
        uint32_t n = 7 - ((r[0] >> 1) & 7);
        if (got + n > cap) CL_ERR("server sends more than the client buffer holds");
        memcpy(out + got, r + 1, n); got += n; t ^= 1;
        if (r[0] & 1) break;
        if (got > *announced + 14) CL_ERR("server does not terminate the upload");
    }
    *len = got;
    return CL_OK;
}

/* block upload.  Deviations: at block number dev_blk[i] (0-based) the client acknowledges only dev_ack[i] segments
 * (-1: all) and requests dev_bs[i] as next block size (0: unchanged). */
static int cl_blk_blocks;                    /* blocks seen in the last run */
static int cl_refuse_blk = -1, cl_refuse_seg;   /* block upload: the server's CAN driver refuses (returns 'busy' for) the cl_refuse_seg-th frame of block cl_refuse_blk */
static int cl_blk_sent[64];                  /* segments the server sent in block i of the last run */
static int cl_blk_ul(int srv, uint16_t idx, uint8_t sub, uint8_t blksize, uint8_t *out, uint32_t cap, uint32_t *len, uint32_t *announced,
                     const int *dev_blk, const int *dev_ack, const int *dev_bs, int ndev)
{
    uint8_t f[8]; uint32_t got = 0; int blk = 0; uint8_t bs = blksize; int finished = 0; uint32_t lastlen = 7; int refused_here;
    cl_blk_blocks = 0;
    cl_req(f, (uint8_t)(0xA0 | (cl_crc ? 4 : 0)), idx, sub); f[4] = blksize; f[5] = 0;
    cl_send(srv, f);
    if (cl_check_abort()) return CL_ABORT;
    if (cl_nresp != 1 || (cl_resp[0].d[0] & 0xFB) != 0xC2) CL_ERR("initiate block upload: unexpected response");
    *announced = w_get32(cl_resp[0].d + 4);
    cl_req(f, 0xA3, 0, 0);
    if (cl_refuse_blk == 0) DRV.send_refuse_nth = cl_refuse_seg;
    cl_send(srv, f);
    for (;;) {
        /* cl_resp holds the segments of the block */
        refused_here = (cl_refuse_blk == blk && DRV.send_refuse_nth == 0 && cl_refuse_seg > 0);
        DRV.send_refuse_nth = 0;
        if (cl_check_abort()) return CL_ABORT;
        if ((cl_nresp < 1 && !refused_here) || cl_nresp > bs) CL_ERR("block %d: %d segments for block size %d", blk, cl_nresp, bs);
        int ackn = cl_nresp, newbs = bs;
        if (refused_here) {   /* the driver of the server refused one segment of this block: the client acknowledges the in-order prefix it received */
            int inorder = 0; while (inorder < cl_nresp && (cl_resp[inorder].d[0] & 0x7F) == inorder + 1) inorder++;
            ackn = inorder;
        }
        for (int i = 0; i < ndev; i++) if (dev_blk[i] == blk) { if (dev_ack[i] >= 0 && dev_ack[i] <= ackn) ackn = dev_ack[i]; if (dev_bs[i] > 0) newbs = dev_bs[i]; }
        if (blk < 64) cl_blk_sent[blk] = cl_nresp;
        for (int k = 0; k < ackn; k++) {
            const uint8_t *r = cl_resp[k].d;
            if ((r[0] & 0x7F) != k + 1) CL_ERR("block %d: segment %d has sequence number %d", blk, k + 1, r[0] & 0x7F);
            if (finished) CL_ERR("segment after the last one");
            if (r[0] & 0x80) {                 /* last segment: the valid byte count comes with the end frame; keep all 7 for now */
                finished = 1;
            }
            if (got + 7 > cap) CL_ERR("server sends more than the client buffer holds");
            memcpy(out + got, r + 1, 7); got += 7;
        }
        /* segments beyond ackn are treated as lost; a last flag among them does not count */
        blk++; cl_blk_blocks = blk;
        if ((uint32_t)blk > 5000u + cap) CL_ERR("block upload does not terminate");
        memset(f, 0, 8); f[0] = 0xA2; f[1] = (uint8_t)ackn; f[2] = (uint8_t)newbs; bs = (uint8_t)newbs;
        if (cl_refuse_blk == blk && !finished) DRV.send_refuse_nth = cl_refuse_seg;
        cl_send(srv, f);
        if (finished) break;
        if (ackn == 0 && cl_nresp == 0) CL_ERR("no data after acknowledge");
    }
    if (cl_check_abort()) return CL_ABORT;
    if (cl_nresp != 1 || (cl_resp[0].d[0] & 0xE3) != 0xC1) CL_ERR("end of block upload expected, got %d frame(s) first %02X", cl_nresp, cl_nresp ? cl_resp[0].d[0] : 0);
    lastlen = 7 - ((cl_resp[0].d[0] >> 2) & 7);
    if (got < 7 - lastlen) CL_ERR("n larger than data");
    got -= 7 - lastlen;
    cl_req(f, 0xA1, 0, 0);
    cl_send(srv, f);
    if (cl_nresp != 0) CL_ERR("end confirmation answered");
    *len = got;
    return CL_OK;
}

#endif
