/* C10 - heartbeat producer period and content are exact.
 * BFS over ticks, 1017h writes, NMT commands and every other timer user (interference alphabet);
 * reference schedule: last (re)start + k * period. */
#include "node_common.h"

enum { M_INIT = 1, M_PREOP = 2, M_OP = 3, M_STOP = 4 };
static struct { uint8_t mode; uint16_t period, rem; int16_t apptmr; uint8_t svc, due; } M;     /* svc: a tick was served and waits for its processing step (cfg 8), due: a heartbeat elapsed in it */
static uint8_t NID; static uint32_t TPM;   /* ticks per ms */

enum { E_TICK, E_SDO_HB0, E_SDO_HB1, E_SDO_HB2, E_SDO_HB3, E_API_HB0, E_API_HB2, E_API_HB3, E_NMT_START, E_NMT_STOP, E_NMT_PREOP, E_NMT_RESETCOM, E_NMT_RESETNODE,
       E_EVT0, E_EVT2, E_INH0, E_INH2, E_TYPE254, E_SYNCID_ON, E_SYNCID_OFF, E_CYCLE0, E_CYCLE2, E_TRIG, E_WRITE_ASYNC, E_APP_CREATE, E_APP_DELETE, E_HBCONS_FRAME, E_HBC_WRITE, E_PDO_OFF, E_PDO_ON, E_SDO_HB_SHORT, E_API_HB_SHORT, E_NODE_START, E_TICK_SVC, E_TICK_PROC, E_N };
static const char *const EN[] = { "tick", "SDO 1017h=0", "SDO 1017h=1", "SDO 1017h=2", "SDO 1017h=3", "API 1017h=0", "API 1017h=2", "API 1017h=3", "NMT start", "NMT stop", "NMT pre-op", "NMT reset com", "NMT reset node",
       "SDO 1800h:5=0", "SDO 1800h:5=2", "SDO 1800h:3=0", "SDO 1800h:3=20", "SDO 1800h:2=254", "SDO 1005h producer on", "SDO 1005h producer off", "SDO 1006h=0", "SDO 1006h=2000us", "COTPdoTrigPdo(0)", "write async object",
       "app COTmrCreate", "app COTmrDelete", "heartbeat of monitored node", "SDO 1016h:1 rewrite", "SDO 1800h:1 invalid", "SDO 1800h:1 valid",
       "SDO 1017h: one byte by segmented download (refused)", "API CODictWrBuffer(1017h, 1 byte) (refused)", "CONodeStart", "tick: interrupt part only (COTmrService)", "tick: processing step (COTmrProcess)" };

static void app_cb(void *p) { (void)p; w_cb(CB_USER, 1, 0, 0); }
static const char *cfg_name(int c) { static const char *const n[] = { "1kHz hb=2ms", "1kHz hb=0", "100Hz hb=20ms", "1kHz hb=2ms node 10 OPERATIONAL", "1kHz hb=0, TPDO event time 1 ms, OPERATIONAL", "1kHz hb=2ms, timer pool of 3 (exactly sized)", "1kHz hb=0, node initialised but not started", "1kHz hb=2ms, node initialised but not started", "1kHz hb=2ms, TPDO event time 2 ms, OPERATIONAL, tick split into interrupt part and processing step" }; return n[c]; }

static int SPLIT;
static int build(int cfg)
{
    nc_defaults();
    NC.freq = cfg == 2 ? 100 : 1000; TPM = cfg == 2 ? 10 : 1;    /* at 100 Hz the harness uses 10 ms units: "1 ms" below means 10 ms */
    NC.node_id = cfg == 3 ? 10 : 1; NID = NC.node_id;
    NC.hbprod = 1; NC.hb_time = (uint16_t)((cfg == 1 || cfg == 4 || cfg == 6 ? 0 : 2) * TPM);
    /* cfg 6, 7: the application writes 1017h between CONodeInit and CONodeStart: nothing is demanded of the frames before boot-up, afterwards the schedule is
     * last write + k * period like everywhere else */
    NC.no_start = (cfg == 6 || cfg == 7);
    NC.n_hbc = 1; NC.hbc[0].node = 9; NC.hbc[0].time = (uint16_t)(2 * TPM);
    NC.sync = 1; NC.sync_id = 0x80; NC.sync_cycle = 0;
    NC.n_tpdo = 1; NC.tpdo[0].present = 1; NC.tpdo[0].cobid = 0x40000180u + NID; NC.tpdo[0].type = 254; NC.tpdo[0].nmap = 1; NC.tpdo[0].map[0] = NC_MAP(0x2100, 0, 8);
    /* cfg 4: the TPDO owns an event timer from the start, so that short histories reach "an event expiry outside OPERATIONAL,
     * then the producer is started, then the TPDO is re-initialised" - timer ids wandering between the two services */
    if (cfg == 4) NC.tpdo[0].event = 1;
    /* cfg 5: a pool of three timers - producer, consumer and one more: the other timer users compete for the last one, and a re-write of the
     * running producer must still succeed (it needs no additional timer) */
    if (cfg == 5) NC.tmr_n = 3;
    /* cfg 8: the tick is split into its interrupt part and its processing step, every other event may fall between the two; heartbeat and TPDO event timer
     * (2 ms each) fall due on the same ticks */
    if (cfg == 8) NC.tpdo[0].event = 2;
    NC.operational = (cfg == 3 || cfg == 4 || cfg == 8);
    nc_build();
    (void)CONodeGetErr(&Node);
    memset(&M, 0, sizeof M);
    M.mode = NC.no_start ? M_INIT : NC.operational ? M_OP : M_PREOP; M.period = (uint16_t)(cfg == 1 || cfg == 4 || cfg == 6 ? 0 : 2); M.rem = M.period; M.apptmr = -1;
    W_REG(M);
    SPLIT = (cfg == 8);
    return cfg == 8 ? E_N : cfg >= 6 ? E_N - 2 : E_N - 3;      /* cfg 8: "tick" and "CONodeStart" stay disabled */
}
static const char *ev_name(int e) { return EN[e]; }

static int free_before;     /* free timer actions before the write */
static int tmr_free(void) { int n = 0; for (CO_TMR_ACTION *a = Node.Tmr.Acts; a && n <= NC_TMR; a = a->Next) n++; return n; }
static void hb_write_result(uint32_t abort_or_err, uint16_t v)
{
    /* starting a stopped producer needs a timer: with none free the write may be refused and changes nothing; every other write must succeed */
    if (abort_or_err != 0 && M.period == 0 && v != 0 && free_before == 0) return;
    if (abort_or_err != 0) { mc_fail("hb-write-refused", "write of %u to 1017h refused (%08X) with %d free timer(s), old period %u", v, abort_or_err, free_before, M.period); return; }
    M.period = v; M.rem = v; M.due = 0;      /* the period restarts with the write: a heartbeat that elapsed but was not processed yet belongs to the old schedule */
}

static int step(int e)
{
    static const uint8_t CODE[] = { 0, 0, 127, 5, 4 };
    int expect = 0; uint32_t r;
    if (SPLIT && (e == E_TICK || (e == E_TICK_SVC && M.svc) || (e == E_TICK_PROC && !M.svc))) return MC_SKIP;      /* one processing step per served tick (deferred processing is C08's subject) */
    if (!SPLIT && (e == E_TICK_SVC || e == E_TICK_PROC)) return MC_SKIP;
    /* before boot-up there is no SDO and no NMT service; frames a due producer timer sends or does not send in INIT are not judged */
    if (M.mode == M_INIT && ((e >= E_SDO_HB0 && e <= E_SDO_HB3) || e == E_SDO_HB_SHORT || (e >= E_NMT_START && e <= E_CYCLE2) || e == E_HBC_WRITE || e == E_PDO_OFF || e == E_PDO_ON || e == E_HBCONS_FRAME)) return MC_SKIP;
    switch (e) {
    case E_TICK: if (M.period) { M.rem--; if (M.rem == 0) { expect = 1; M.rem = M.period; } } w_tick(&Node, 1); break;
    case E_TICK_SVC: if (M.period) { M.rem--; if (M.rem == 0) { M.due = 1; M.rem = M.period; } } M.svc = 1; w_tick(&Node, 0); break;
    case E_TICK_PROC: expect = M.due; M.due = 0; M.svc = 0; COTmrProcess(&Node.Tmr); break;
    case E_SDO_HB0: case E_SDO_HB1: case E_SDO_HB2: case E_SDO_HB3: {
        uint16_t v = (uint16_t)(e - E_SDO_HB0);
        if (M.mode == M_STOP) return MC_SKIP;
        free_before = tmr_free();
        r = nc_sdo_write(0x1017, 0, v * TPM, 2); hb_write_result(r, v); break; }
    case E_API_HB0: case E_API_HB2: case E_API_HB3: {
        uint16_t v = (uint16_t)(e == E_API_HB0 ? 0 : e == E_API_HB2 ? 2 : 3);
        free_before = tmr_free();
        CO_ERR err = CODictWrWord(&Node.Dict, CO_DEV(0x1017, 0), (uint16_t)(v * TPM)); hb_write_result(err == CO_ERR_NONE ? 0 : (uint32_t)err, v); break; }
    case E_SDO_HB_SHORT: {   /* a download that carries one byte for the 16-bit object (no size announced, so that the length is known with the last segment only):
                               * it has to be refused and the producer goes on as if nothing had been sent */
        static const uint8_t one[1] = { 1 };
        if (M.mode == M_STOP) return MC_SKIP;
        r = nc_sdo_write_seg(0x1017, 0, one, 1, 0);
        if (r == 0) mc_fail("hb-short-write-accepted", "a one-byte download to 1017h is confirmed");
        else if (r == 0xFFFFFFFFu) mc_fail("hb-write-refused", "a one-byte segmented download to 1017h gets no abort");
        break; }
    case E_API_HB_SHORT: {
        uint8_t one[2] = { 1, 0 };
        CO_ERR err = CODictWrBuffer(&Node.Dict, CO_DEV(0x1017, 0), one, 1);
        if (err == CO_ERR_NONE) mc_fail("hb-short-write-accepted", "CODictWrBuffer of one byte to 1017h succeeds");
        break; }
    case E_NMT_START: M.mode = M_OP; nc_nmt(1, NID); break;
    case E_NMT_STOP:  M.mode = M_STOP; nc_nmt(2, 0); break;
    case E_NMT_PREOP: M.mode = M_PREOP; nc_nmt(128, NID); break;
    case E_NMT_RESETCOM: case E_NMT_RESETNODE: M.mode = M_PREOP; M.rem = M.period; M.period = M.period; M.due = 0; nc_nmt(e == E_NMT_RESETCOM ? 130 : 129, NID); break;
    case E_EVT0: case E_EVT2: if (M.mode == M_STOP) return MC_SKIP; (void)nc_sdo_write(0x1800, 5, (e == E_EVT2 ? 2 : 0) * TPM, 2); break;
    case E_INH0: case E_INH2: if (M.mode == M_STOP) return MC_SKIP; (void)nc_sdo_write(0x1800, 3, (e == E_INH2 ? 20 : 0) * TPM, 2); break;
    case E_TYPE254: if (M.mode == M_STOP) return MC_SKIP; (void)nc_sdo_write(0x1800, 2, 254, 1); break;
    case E_SYNCID_ON: if (M.mode == M_STOP) return MC_SKIP; (void)nc_sdo_write(0x1005, 0, 0x40000080u, 4); break;
    case E_SYNCID_OFF: if (M.mode == M_STOP) return MC_SKIP; (void)nc_sdo_write(0x1005, 0, 0x80u, 4); break;
    case E_CYCLE0: case E_CYCLE2: if (M.mode == M_STOP) return MC_SKIP; (void)nc_sdo_write(0x1006, 0, (e == E_CYCLE2 ? 2000 : 0) * TPM, 4); break;
    case E_TRIG: COTPdoTrigPdo(Node.TPdo, 0); break;
    case E_WRITE_ASYNC: (void)CODictWrByte(&Node.Dict, CO_DEV(0x2100, 0), (uint8_t)(A8 ^ 1)); break;
    case E_APP_CREATE: if (M.apptmr >= 0) return MC_SKIP; M.apptmr = COTmrCreate(&Node.Tmr, 1, 2, app_cb, 0); if (M.apptmr < 0) return MC_SKIP; break;
    case E_APP_DELETE: if (M.apptmr < 0) return MC_SKIP; (void)COTmrDelete(&Node.Tmr, M.apptmr); M.apptmr = -1; break;
    case E_HBCONS_FRAME: { uint8_t d[1] = { 5 }; w_rx(&Node, 0x709, 1, d); break; }
    case E_HBC_WRITE: if (M.mode == M_STOP) return MC_SKIP; (void)nc_sdo_write(0x1016, 1, 0, 4); (void)nc_sdo_write(0x1016, 1, (9u << 16) | (2 * TPM), 4); break;
    case E_PDO_OFF: if (M.mode == M_STOP) return MC_SKIP; (void)nc_sdo_write(0x1800, 1, 0xC0000180u + NID, 4); break;
    case E_PDO_ON:  if (M.mode == M_STOP) return MC_SKIP; (void)nc_sdo_write(0x1800, 1, 0x40000180u + NID, 4); break;
    case E_NODE_START: if (M.mode != M_INIT) return MC_SKIP; M.mode = M_PREOP; CONodeStart(&Node); break;
    default: break;
    }
    nc_poll();                   
    (void)CONmtGetHbEvents(&Node.Nmt, 9);
    {   /* heartbeat frames of this step (boot-up frames of a reset are not heartbeats) */
        int n = 0;
        for (int i = 0; i < OBS.ntx; i++) if (OBS.tx[i].id == 0x700u + NID) {
            if ((e == E_NMT_RESETCOM || e == E_NMT_RESETNODE || e == E_NODE_START) && OBS.tx[i].dlc == 1 && OBS.tx[i].d[0] == 0) continue;
            if (M.mode == M_INIT) continue;
            n++;
            if (OBS.tx[i].dlc != 1 || OBS.tx[i].d[0] != CODE[M.mode]) mc_fail("hb-content", "heartbeat frame DLC %d data %02X in NMT mode %d (expected %02X)", OBS.tx[i].dlc, OBS.tx[i].d[0], M.mode, CODE[M.mode]);
        }
        if (M.mode == M_INIT) expect = 0;
        if (n < expect) mc_fail("hb-missing", "no heartbeat although the period of %u tick(s) elapsed", M.period);
        else if (n > expect) mc_fail("hb-unexpected", "%d heartbeat frame(s) on '%s', expected %d (period %u, %u tick(s) remaining)", n, EN[e], expect, M.period, M.rem);
    }
    A8 = 0x11;
    return MC_OK;
}

static const mc_harness H = { "C10", "c10", 9, cfg_name, build, ev_name, step, 6, 8 };
int main(int argc, char **argv) { return mc_main(argc, argv, &H); }
