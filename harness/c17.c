/* C17 - parameter store/restore (1010h/1011h) is exact, survives restarts and NVM faults.
 * Exhaustive enumeration of (layout, request history, restart point, NVM fault positions) on the real
 * store/load path with a harness-owned NVM device, against a reference model (RAM image, NVM image,
 * last successfully stored image per group).
 *
 * Dictionary convention (the one of the stack and of CiA 301): one group -> 1010h:0 = 1, 1010h:1 = the group;
 * n >= 2 groups -> 1010h:0 = n+1, 1010h:1 = "all groups" (its own CO_PARA is a placeholder, not a group),
 * 1010h:2..n+1 = the groups.  1011h has the same shape and links the same CO_PARA objects. */
#include <stdio.h>
#include <stdlib.h>
#include "mc.h"
#include "world.h"
#include "od.h"

#define NODE_ID   1
#define MAXG      4
#define GMAX      64
#define NVM_BASE  16                 /* NVM offset of the first group; everything outside the groups is guard */
#define RGUARD    8                  /* guard bytes before and after the RAM blocks                             */
#define MAXL      4
#define SIG_SAVE  0x65766173u
#define SIG_LOAD  0x64616F6Cu
#define MAXCALL   24

typedef struct { uint8_t size; uint8_t type; uint32_t value; } GDef;
typedef struct { const char *name; int n; GDef g[MAXG]; int alias; int gap; int cut; } Layout;   /* cut 1: 1011h implements sub-index 1 only (linked to group 1), cut 2: 1010h does - the two objects differ in their highest sub-index */   /* gap: sub-index that is NOT implemented (sparse 1010h/1011h), 0 = none */
#define TN CO_RESET_NODE
#define TC CO_RESET_COM
static const Layout LAY[] = {
    { "1 group: 5B node E",                                         1, { {5, TN, CO_PARA___E} }, 0 },
    { "1 group: 64B com E",                                         1, { {64, TC, CO_PARA___E} }, 0 },
    { "1 group: 2B node disabled",                                  1, { {2, TN, CO_PARA____} }, 0 },
    { "2 groups: 1B node E | 64B com E",                            2, { {1, TN, CO_PARA___E}, {64, TC, CO_PARA___E} }, 0 },
    { "2 groups: 5B com E | 2B node disabled; 1010h:1 links group 1", 2, { {5, TC, CO_PARA___E}, {2, TN, CO_PARA____} }, 1 },
    { "3 groups: 2B node E | 5B com AE | 1B node E",                3, { {2, TN, CO_PARA___E}, {5, TC, CO_PARA__AE}, {1, TN, CO_PARA___E} }, 0 },
    { "3 groups: 64B node E | 1B com A_ | 5B com E",                3, { {64, TN, CO_PARA___E}, {1, TC, CO_PARA__A_}, {5, TC, CO_PARA___E} }, 0 },
    { "4 groups: 1B node E | 2B com E | 5B node E | 64B com E",     4, { {1, TN, CO_PARA___E}, {2, TC, CO_PARA___E}, {5, TN, CO_PARA___E}, {64, TC, CO_PARA___E} }, 0 },
    { "4 groups: 5B com E | 64B node disabled | 2B com AE | 1B node E", 4, { {5, TC, CO_PARA___E}, {64, TN, CO_PARA____}, {2, TC, CO_PARA__AE}, {1, TN, CO_PARA___E} }, 0 },
    { "3 groups at sub 2, 4, 5 (sub 3 not implemented): 2B node E | 5B com E | 1B node E", 3, { {2, TN, CO_PARA___E}, {5, TC, CO_PARA___E}, {1, TN, CO_PARA___E} }, 0, 3 },
    { "2 groups at sub 3, 4 (sub 2 not implemented): 5B com E | 2B node E", 2, { {5, TC, CO_PARA___E}, {2, TN, CO_PARA___E} }, 0, 2 },
    { "3 groups in 1010h (all | 2B node E | 5B com E | 1B node E), 1011h has sub-index 1 only (group 1)", 3, { {2, TN, CO_PARA___E}, {5, TC, CO_PARA___E}, {1, TN, CO_PARA___E} }, 0, 0, 1 },
    { "2 groups in 1011h (all | 5B com E | 2B node E), 1010h has sub-index 1 only (group 1)", 2, { {5, TC, CO_PARA___E}, {2, TN, CO_PARA___E} }, 0, 0, 2 },
};
static int PSUB(int sub);
#define N_LAY ((int)(sizeof LAY / sizeof LAY[0]))

/* ------------------------------------------------------------------ world */
static CO_NODE      Node;
static CO_OBJ       OD[48];
static uint8_t      ErrReg;
static uint8_t      SdoBuf[CO_SSDO_N * CO_SDO_BUF_BYTE];
static CO_TMR_MEM   TMem[4];
static CO_NODE_SPEC Spec;
static uint8_t      RamArena[RGUARD + MAXG * GMAX + RGUARD];   /* guard | group blocks, adjacent | guard */
static uint8_t      RamInit[sizeof RamArena];                  /* compile-time image of the arena        */
static uint8_t      DefBlk[MAXG][GMAX];                        /* default blocks                         */
static CO_PARA      Para[MAXG], ParaAll;
static CO_IF_DRV    XDrv;
static const Layout *LY;
static int          NG, NSUB, NEV, ram_len, c0;
static int          roff[MAXG], noff[MAXG], gsz[MAXG];
static uint8_t     *snap0;

/* harness state: fault plan, per-step NVM call log, per-case flags */
static struct {
    int nf, fk[2], fshort[2];
    int ncalls, nshort, lost;
    struct { uint8_t wr, isshort; uint32_t off, size, ret; } call[MAXCALL];
    int cfail;
    CO_ERR err;
} X;

/* reference model */
static struct {
    uint8_t ram[sizeof RamArena];
    uint8_t nvm[W_NVM_SIZE];
    uint8_t stored[MAXG][GMAX];
    uint8_t has_stored[MAXG];
} M;

static uint64_t OUT;
static void out_add(uint64_t x) { OUT = (OUT ^ x) * 1099511628211ull; OUT ^= OUT >> 31; }

#define FAIL(...) do { mc_fail(__VA_ARGS__); X.cfail = 1; } while (0)

/* NVM driver seam: arms the planned faults of world.c's device and logs every driver call of the step */
static void x_arm(void)
{
    DRV.nvm_fault_at = -1;
    for (int i = 0; i < X.nf; i++) if (DRV.nvm_callno == X.fk[i]) { DRV.nvm_fault_at = X.fk[i]; DRV.nvm_fault_short = X.fshort[i]; }
}
static void x_note(int wr, uint32_t off, uint32_t size, uint32_t ret)
{
    if (ret != size) X.nshort++;
    if (X.ncalls < MAXCALL) { X.call[X.ncalls].wr = (uint8_t)wr; X.call[X.ncalls].isshort = ret != size; X.call[X.ncalls].off = off; X.call[X.ncalls].size = size; X.call[X.ncalls].ret = ret; X.ncalls++; }
    else X.lost++;
    mc_log("      nvm %s(offset %u, %u bytes) -> %u%s\n", wr ? "write" : "read", off, size, ret, ret != size ? "   <== SHORT" : "");
}
static void     XInit(void) { W_IfDrv.Nvm->Init(); }
static uint32_t XRead(uint32_t start, uint8_t *buf, uint32_t size)  { x_arm(); uint32_t n = W_IfDrv.Nvm->Read(start, buf, size);  x_note(0, start, size, n); return n; }
static uint32_t XWrite(uint32_t start, uint8_t *buf, uint32_t size) { x_arm(); uint32_t n = W_IfDrv.Nvm->Write(start, buf, size); x_note(1, start, size, n); return n; }
static const CO_IF_NVM_DRV XNvm = { XInit, XRead, XWrite };

static int XFER;
static CO_OBJ_STR DevName;
static void build_world(int cfg)
{
    OdB b; int g, i, o;
    XFER = mc_opt("xfer", 0);
    LY = &LAY[cfg]; NG = LY->n; NSUB = NG == 1 ? 1 : NG + 1; NEV = 4 * NSUB + NG + 2 + (XFER ? 1 : 0);     /* xfer: one more history event, the upload of a string */
    w_regions_clear();
    w_reset(1000);
    memset(&Node, 0, sizeof Node); memset(TMem, 0, sizeof TMem); memset(SdoBuf, 0, sizeof SdoBuf); ErrReg = 0;
    memset(&X, 0, sizeof X); memset(&M, 0, sizeof M); memset(Para, 0, sizeof Para);
    for (i = 0; i < (int)sizeof RamArena; i++) RamInit[i] = (uint8_t)(0xA0 + (i & 7));
    o = RGUARD;
    for (g = 0, i = NVM_BASE; g < NG; g++) {
        gsz[g] = LY->g[g].size; roff[g] = o; noff[g] = i; o += gsz[g]; i += gsz[g];
        for (int k = 0; k < gsz[g]; k++) { RamInit[roff[g] + k] = (uint8_t)(0x11 * (g + 1) + 3 * k); DefBlk[g][k] = (uint8_t)(0xD0 - 0x20 * g + 5 * k); }
        Para[g].Offset = (uint32_t)noff[g]; Para[g].Size = (uint32_t)gsz[g]; Para[g].Start = &RamArena[roff[g]]; Para[g].Default = DefBlk[g];
        Para[g].Type = (CO_NMT_RESET)LY->g[g].type; Para[g].Ident = (void *)"grp"; Para[g].Value = LY->g[g].value;
    }
    ram_len = o + RGUARD;
    memcpy(RamArena, RamInit, sizeof RamArena);
    /* placeholder linked to sub-index 1 when it means "all groups": one byte in the guard areas, never a reset target */
    ParaAll.Offset = (uint32_t)i + 4; ParaAll.Size = 1; ParaAll.Start = &RamArena[o + 4]; ParaAll.Default = &RamInit[o + 4];
    ParaAll.Type = CO_RESET_INVALID; ParaAll.Ident = (void *)"all"; ParaAll.Value = CO_PARA___E;

    od_init(&b, OD, 48); od_mandatory(&b, &ErrReg); od_sdo_server0(&b);
    DevName.Offset = 0; DevName.Start = (uint8_t *)"0123456save";          /* 1008h: a string whose upload leaves 'save' in the transfer buffer of the server */
    od_add(&b, CO_KEY(0x1008, 0, CO_OBJ_____R_), CO_TSTRING, (CO_DATA)&DevName);
    od_add(&b, CO_KEY(0x1010, 0, CO_OBJ_D___R_), CO_TPARA_STORE,   (CO_DATA)(LY->cut == 2 ? 1 : PSUB(NSUB)));
    od_add(&b, CO_KEY(0x1011, 0, CO_OBJ_D___R_), CO_TPARA_RESTORE, (CO_DATA)(LY->cut == 1 ? 1 : PSUB(NSUB)));
    if (NG == 1) {
        od_add(&b, CO_KEY(0x1010, 1, CO_OBJ_____RW), CO_TPARA_STORE,   (CO_DATA)&Para[0]);
        od_add(&b, CO_KEY(0x1011, 1, CO_OBJ_____RW), CO_TPARA_RESTORE, (CO_DATA)&Para[0]);
    } else {
        CO_PARA *all = LY->alias ? &Para[0] : &ParaAll;
        od_add(&b, CO_KEY(0x1010, 1, CO_OBJ_____RW), CO_TPARA_STORE,   (CO_DATA)(LY->cut == 2 ? &Para[0] : all));
        od_add(&b, CO_KEY(0x1011, 1, CO_OBJ_____RW), CO_TPARA_RESTORE, (CO_DATA)(LY->cut == 1 ? &Para[0] : all));
        for (g = 0; g < NG; g++) {
            if (LY->cut != 2) od_add(&b, CO_KEY(0x1010, PSUB(2 + g), CO_OBJ_____RW), CO_TPARA_STORE,   (CO_DATA)&Para[g]);
            if (LY->cut != 1) od_add(&b, CO_KEY(0x1011, PSUB(2 + g), CO_OBJ_____RW), CO_TPARA_RESTORE, (CO_DATA)&Para[g]);
        }
    }
    XDrv = W_IfDrv; XDrv.Nvm = &XNvm;
    Spec.NodeId = NODE_ID; Spec.Baudrate = 250000; Spec.Dict = OD; Spec.DictLen = 48; Spec.EmcyCode = 0;
    Spec.TmrMem = TMem; Spec.TmrNum = 4; Spec.TmrFreq = 1000; Spec.Drv = &XDrv; Spec.SdoBuf = SdoBuf;
    memcpy(M.ram, RamInit, sizeof M.ram);
    memcpy(M.nvm, DRV.nvm, sizeof M.nvm);
    W_REG(Node); W_REG(OD); W_REG(ErrReg); W_REG(SdoBuf); W_REG(TMem); W_REG(RamArena); W_REG(Para); W_REG(ParaAll); W_REG(X); W_REG(M); W_REG(DevName);
}

/* ------------------------------------------------------------------ helpers */
static const char *where_nvm(int i)
{
    static char b[48];
    for (int g = 0; g < NG; g++) if (i >= noff[g] && i < noff[g] + gsz[g]) { snprintf(b, sizeof b, "byte %d of group %d", i - noff[g], g + 1); return b; }
    snprintf(b, sizeof b, "outside every group"); return b;
}
static const char *where_ram(int i)
{
    static char b[48];
    for (int g = 0; g < NG; g++) if (i >= roff[g] && i < roff[g] + gsz[g]) { snprintf(b, sizeof b, "byte %d of group %d", i - roff[g], g + 1); return b; }
    snprintf(b, sizeof b, "guard byte %d outside every group", i); return b;
}

/* full comparison of both images with the model; returns 1 on a discrepancy */
static int cmp_images(const char *ctx, const char *ramsig)
{
    if (memcmp(DRV.nvm, M.nvm, sizeof M.nvm)) {
        int i = 0; while (DRV.nvm[i] == M.nvm[i]) i++;
        FAIL("para-nvm-content", "%s: NVM offset %d (%s) is %02X, expected %02X", ctx, i, where_nvm(i), DRV.nvm[i], M.nvm[i]);
        return 1;
    }
    if (memcmp(RamArena, M.ram, (size_t)ram_len)) {
        int i = 0; while (RamArena[i] == M.ram[i]) i++;
        FAIL(ramsig, "%s: RAM %s is %02X, expected %02X", ctx, where_ram(i), RamArena[i], M.ram[i]);
        return 1;
    }
    return 0;
}

static void step_begin(void) { w_obs_clear(); X.ncalls = 0; X.nshort = 0; X.lost = 0; mc_steps++; }
static void step_end(void)
{
    X.err = CONodeGetErr(&Node);                      /* the application polls (and thereby clears) the node error */
    if (OBS.fatal) FAIL("safety:fatal-error callback invoked", "CONodeFatalError during a parameter request");
    if (X.lost) FAIL("para-nvm-calls", "more than %d NVM driver calls in one step", MAXCALL);
    out_add((uint64_t)OBS.ntx * 4096 + (uint64_t)OBS.ncb * 256 + (uint64_t)X.ncalls * 8 + (uint64_t)X.nshort * 2 + (X.err != CO_ERR_NONE));
}
/* groups whose own NVM block was the target of a short driver call (wr: 1 writes, 0 reads) in this step */
static void faulted_groups(int wr, uint8_t f[MAXG])
{
    memset(f, 0, MAXG);
    for (int i = 0; i < X.ncalls; i++) if (X.call[i].isshort && X.call[i].wr == wr)
        for (int g = 0; g < NG; g++) if ((uint32_t)noff[g] == X.call[i].off) f[g] = 1;
}
static int addressed(int sub, int g);
static int enabled(int g);
/* every byte handed to the NVM write driver must belong to an addressed group that is enabled (sub < 0: no write admissible at all) */
static int check_writes(const char *ctx, int sub)
{
    for (int i = 0; i < X.ncalls; i++) if (X.call[i].wr)
        for (uint32_t o = X.call[i].off; o < X.call[i].off + X.call[i].size; o++) {
            int ok = 0;
            for (int g = 0; g < NG && sub >= 0; g++) if (addressed(sub, g) && enabled(g) && o >= (uint32_t)noff[g] && o < (uint32_t)(noff[g] + gsz[g])) ok = 1;
            if (!ok) { FAIL("para-nvm-content", "%s: NVM write of %u byte(s) at offset %u covers offset %u (%s), which is not part of an addressed, enabled group", ctx, X.call[i].size, X.call[i].off, o, where_nvm((int)o)); return 1; }
        }
    return 0;
}
static uint16_t CUR_IDX;      /* object the request under judgement was written to */
static int sub_exists(uint16_t idx, int sub) { return !((LY->cut == 1 && idx == 0x1011 && sub > 1) || (LY->cut == 2 && idx == 0x1010 && sub > 1)); }
static int addressed(int sub, int g)
{
    if (NG == 1) return 1;
    if ((LY->cut == 1 && CUR_IDX == 0x1011) || (LY->cut == 2 && CUR_IDX == 0x1010)) return sub == 1 && g == 0;     /* the object's only sub-index links group 1 */
    return sub == 1 ? 1 : g == sub - 2;
}
/* logical sub-index (1 = all, 2.. = groups) -> sub-index in the dictionary; a sparse layout leaves one sub-index out */
static int PSUB(int sub) { return sub + (LY->gap && sub >= LY->gap ? 1 : 0); }
static int enabled(int g) { return (LY->g[g].value & CO_PARA___E) != 0; }

enum { R_CONF, R_ABORT, R_ODD };
static const char *RN[] = { "confirmed", "aborted", "no/odd response" };
/* XFER, --opt xfer=1: the four signature bytes travel in a segmented download (initiate with size, one segment), xfer=2: in a block download
                         (initiate, one segment, end) - the object is written when the last frame arrives, the frames before it must be confirmed */
static int sdo_mid(uint8_t c0, uint8_t c1, uint8_t c2, uint8_t c3, uint8_t c4, uint8_t c5, uint8_t c6, uint8_t c7, uint8_t expect, uint8_t mask, uint32_t *code)
{
    w_rx8(&Node, 0x600 + NODE_ID, c0, c1, c2, c3, c4, c5, c6, c7);
    if (OBS.ntx != 1 || OBS.tx[0].id != 0x580 + NODE_ID || OBS.tx[0].dlc != 8) return R_ODD;
    if (OBS.tx[0].d[0] == 0x80) { *code = w_get32(OBS.tx[0].d + 4); return R_ABORT; }
    if ((OBS.tx[0].d[0] & mask) != expect) return R_ODD;
    w_obs_clear();
    return R_CONF;
}
static int sdo_dl(uint16_t idx, int sub, uint8_t cmd, uint32_t val, uint32_t *code)
{
    *code = 0;
    sub = PSUB(sub);
    if (XFER && cmd == 0x23) {
        uint8_t i0 = (uint8_t)idx, i1 = (uint8_t)(idx >> 8), v0 = (uint8_t)val, v1 = (uint8_t)(val >> 8), v2 = (uint8_t)(val >> 16), v3 = (uint8_t)(val >> 24); int r;
        if (XFER == 1) {
            r = sdo_mid(0x21, i0, i1, (uint8_t)sub, 4, 0, 0, 0, 0x60, 0xFF, code); if (r != R_CONF) return r;
            w_rx8(&Node, 0x600 + NODE_ID, 0x07, v0, v1, v2, v3, 0x5A, 0x5A, 0x5A);
            if (OBS.ntx != 1 || OBS.tx[0].id != 0x580 + NODE_ID || OBS.tx[0].dlc != 8) return R_ODD;
            if (OBS.tx[0].d[0] == 0x20) return R_CONF;
        } else {
            r = sdo_mid(0xC2, i0, i1, (uint8_t)sub, 4, 0, 0, 0, 0xA0, 0xFB, code); if (r != R_CONF) return r;
            r = sdo_mid(0x81, v0, v1, v2, v3, 0x5A, 0x5A, 0x5A, 0xA2, 0xFF, code); if (r != R_CONF) return r;
            w_rx8(&Node, 0x600 + NODE_ID, 0xCD, 0, 0, 0, 0, 0, 0, 0);
            if (OBS.ntx != 1 || OBS.tx[0].id != 0x580 + NODE_ID || OBS.tx[0].dlc != 8) return R_ODD;
            if (OBS.tx[0].d[0] == 0xA1) return R_CONF;
        }
        if (OBS.tx[0].d[0] == 0x80 && OBS.tx[0].d[1] == i0 && OBS.tx[0].d[2] == i1 && OBS.tx[0].d[3] == (uint8_t)sub) { *code = w_get32(OBS.tx[0].d + 4); return R_ABORT; }
        return R_ODD;
    }
    w_rx8(&Node, 0x600 + NODE_ID, cmd, (uint8_t)idx, (uint8_t)(idx >> 8), (uint8_t)sub, (uint8_t)val, (uint8_t)(val >> 8), (uint8_t)(val >> 16), (uint8_t)(val >> 24));
    if (OBS.ntx != 1 || OBS.tx[0].id != 0x580 + NODE_ID || OBS.tx[0].dlc != 8) return R_ODD;
    const uint8_t *d = OBS.tx[0].d;
    if (d[1] != (uint8_t)idx || d[2] != (uint8_t)(idx >> 8) || d[3] != (uint8_t)sub) return R_ODD;
    if (d[0] == 0x60) return R_CONF;
    if (d[0] == 0x80) { *code = w_get32(d + 4); return R_ABORT; }
    return R_ODD;
}
static int count_default_cb(int cnt[MAXG])
{
    int other = 0;
    memset(cnt, 0, sizeof(int) * MAXG);
    for (int i = 0; i < OBS.ncb && i < W_MAX_CB; i++) if (OBS.cb[i].kind == CB_PARA_DEFAULT) {
        int g; for (g = 0; g < NG; g++) if (OBS.cb[i].a == (uint32_t)noff[g] && OBS.cb[i].b == (uint32_t)gsz[g]) break;
        if (g < NG) cnt[g]++; else other++;
    }
    return other + OBS.cb_lost;
}
static int no_default_cb(const char *ctx)
{
    int cnt[MAXG], other = count_default_cb(cnt);
    for (int g = 0; g < NG; g++) other += cnt[g];
    if (other) { FAIL("para-default-calls", "%s: default-value callback invoked %d time(s)", ctx, other); return 1; }
    return 0;
}

/* ------------------------------------------------------------------ requests */
/* 'save' written to 1010h:sub */
static void do_save(int sub)
{
    char ctx[64]; uint32_t code; uint8_t flt[MAXG]; int all_en = 1, g;
    snprintf(ctx, sizeof ctx, "'save' to 1010h:%d", sub);
    CUR_IDX = 0x1010;
    step_begin();
    int r = sdo_dl(0x1010, sub, 0x23, SIG_SAVE, &code);
    step_end();
    mc_log("    %s -> %s %08X, node error %d\n", ctx, RN[r], code, (int)X.err);
    out_add((uint64_t)r);
    for (g = 0; g < NG; g++) if (addressed(sub, g) && !enabled(g)) all_en = 0;
    faulted_groups(1, flt);
    if (X.nshort == 0) {
        if (r == R_ODD) { FAIL("para-verdict", "%s: expected exactly one SDO response with the request's multiplexer (%d frame(s))", ctx, OBS.ntx); return; }
        if (all_en && r != R_CONF) { FAIL("para-verdict", "%s refused with %08X although every addressed group is enabled and the NVM driver reported no fault", ctx, code); return; }
        for (g = 0; g < NG; g++) if (addressed(sub, g) && enabled(g)) {
            /* a request that also addresses a disabled group may be confirmed or refused; if refused, each enabled group is stored or untouched */
            if (r == R_CONF || memcmp(&DRV.nvm[noff[g]], &M.ram[roff[g]], (size_t)gsz[g]) == 0) {
                memcpy(&M.nvm[noff[g]], &M.ram[roff[g]], (size_t)gsz[g]);
                memcpy(M.stored[g], &M.ram[roff[g]], (size_t)gsz[g]); M.has_stored[g] = 1;
            }
        }
    } else {
        if (r == R_CONF) { FAIL("para-fault-ignored", "%s confirmed (60h) although an NVM driver call of the request returned a short count", ctx); return; }
        if (r != R_ABORT && X.err == CO_ERR_NONE) { FAIL("para-fault-ignored", "%s: short NVM driver call surfaced neither as SDO abort nor as node error", ctx); return; }
        for (g = 0; g < NG; g++) if (addressed(sub, g) && enabled(g)) {
            if (flt[g]) { memcpy(&M.nvm[noff[g]], &DRV.nvm[noff[g]], (size_t)gsz[g]); M.has_stored[g] = 0; }   /* content of a failed store is the device's business */
            else if (memcmp(&DRV.nvm[noff[g]], &M.ram[roff[g]], (size_t)gsz[g]) == 0) {
                memcpy(&M.nvm[noff[g]], &M.ram[roff[g]], (size_t)gsz[g]);
                memcpy(M.stored[g], &M.ram[roff[g]], (size_t)gsz[g]); M.has_stored[g] = 1;
            }
        }
    }
    if (no_default_cb(ctx) || check_writes(ctx, sub)) return;
    cmp_images(ctx, "para-ram-content");
}

/* 'load' written to 1011h:sub */
static void do_load(int sub)
{
    char ctx[64]; uint32_t code; int cnt[MAXG], all_en = 1, g;
    snprintf(ctx, sizeof ctx, "'load' to 1011h:%d", sub);
    CUR_IDX = 0x1011;
    step_begin();
    int r = sdo_dl(0x1011, sub, 0x23, SIG_LOAD, &code);
    step_end();
    mc_log("    %s -> %s %08X, node error %d, %d callback(s)\n", ctx, RN[r], code, (int)X.err, OBS.ncb);
    out_add((uint64_t)r);
    for (g = 0; g < NG; g++) if (addressed(sub, g) && !enabled(g)) all_en = 0;
    if (r == R_ODD) { FAIL("para-verdict", "%s: expected exactly one SDO response with the request's multiplexer (%d frame(s))", ctx, OBS.ntx); return; }
    if (X.nshort) {
        if (r == R_CONF && X.err == CO_ERR_NONE) { FAIL("para-fault-ignored", "%s confirmed although an NVM driver call of the request returned a short count", ctx); return; }
    } else if (all_en && r != R_CONF) { FAIL("para-verdict", "%s refused with %08X although every addressed group is enabled", ctx, code); return; }
    int other = count_default_cb(cnt);
    if (other) { FAIL("para-default-calls", "%s: default-value callback invoked for something that is not a parameter group", ctx); return; }
    for (g = 0; g < NG; g++) {
        if (!addressed(sub, g) && cnt[g]) { FAIL("para-default-calls", "%s: default-value callback invoked for group %d which is not addressed", ctx, g + 1); return; }
        if (addressed(sub, g) && enabled(g) && !cnt[g] && r == R_CONF) { FAIL("para-default-calls", "%s confirmed but the default-value callback was not invoked for group %d", ctx, g + 1); return; }
        if (cnt[g]) memcpy(&M.ram[roff[g]], DefBlk[g], (size_t)gsz[g]);       /* effect of the harness-owned callback */
    }
    if (check_writes(ctx, -1)) return;
    cmp_images(ctx, "para-ram-content");
}

/* any value other than the signature (or a wrong length) written to 1010h/1011h */
static void do_refused(uint16_t idx, int sub, uint8_t cmd, uint32_t val)
{
    char ctx[80]; uint32_t code;
    snprintf(ctx, sizeof ctx, "wrong value %08X (cmd %02X) to %04Xh:%d", val, cmd, idx, sub);
    step_begin();
    int r = sdo_dl(idx, sub, cmd, val, &code);
    step_end();
    mc_log("    %s -> %s %08X\n", ctx, RN[r], code);
    out_add((uint64_t)r);
    if (r != R_ABORT) { FAIL("para-verdict", "%s is %s, expected an SDO abort", ctx, RN[r]); return; }
    if (no_default_cb(ctx) || check_writes(ctx, -1)) return;
    cmp_images(ctx, "para-ram-content");
}

/* a segmented upload of the 11-character string 1008h ("0123456save"): it concerns no parameter group - the requests that follow meet a
 * server whose transfer buffer and cursors were last used by an upload */
static void do_upload(void)
{
    static const char *ctx = "segmented upload of 1008h"; int ok = 1;
    step_begin();
    w_rx8(&Node, 0x600 + NODE_ID, 0x40, 0x08, 0x10, 0, 0, 0, 0, 0);
    if (OBS.ntx != 1 || OBS.tx[0].d[0] != 0x41) ok = 0;
    w_obs_clear();
    w_rx8(&Node, 0x600 + NODE_ID, 0x60, 0, 0, 0, 0, 0, 0, 0);
    if (OBS.ntx != 1 || OBS.tx[0].d[0] != 0x00 || memcmp(OBS.tx[0].d + 1, "0123456", 7)) ok = 0;
    w_obs_clear();
    w_rx8(&Node, 0x600 + NODE_ID, 0x70, 0, 0, 0, 0, 0, 0, 0);
    if (OBS.ntx != 1 || OBS.tx[0].d[0] != 0x17 || memcmp(OBS.tx[0].d + 1, "save", 4)) ok = 0;
    step_end();
    out_add((uint64_t)ok);
    if (!ok) { FAIL("para-verdict", "%s does not deliver the string", ctx); return; }
    if (no_default_cb(ctx) || check_writes(ctx, -1)) return;
    cmp_images(ctx, "para-ram-content");
}

/* the application changes parameter values of group g */
static void do_ramchg(int g, int stepno)
{
    int p = gsz[g] - 1;
    RamArena[roff[g] + p] ^= (uint8_t)(0x21 + 0x10 * stepno);
    M.ram[roff[g] + p]    ^= (uint8_t)(0x21 + 0x10 * stepno);
    if (p > 0) { RamArena[roff[g]] += (uint8_t)(1 + stepno); M.ram[roff[g]] += (uint8_t)(1 + stepno); }
    mc_log("    application changes group %d\n", g + 1);
}

/* after a (re)load: groups of `must` types have to equal the NVM image (= last stored image); others may be reloaded or untouched */
static void after_load(const char *ctx, const char *sig, int must_node, int must_com)
{
    uint8_t flt[MAXG]; int g;
    faulted_groups(0, flt);
    if (X.nshort && X.err == CO_ERR_NONE) { FAIL("para-fault-ignored", "%s: an NVM read returned a short count but CONodeGetErr() reports no error", ctx); return; }
    for (g = 0; g < NG; g++) {
        int must = LY->g[g].type == CO_RESET_NODE ? must_node : must_com;
        if (LY->cut == 2 && g > 0) continue;               /* not linked in 1010h: such a group is neither stored nor loaded, its RAM stays as it is */
        if (flt[g]) memcpy(&M.ram[roff[g]], &RamArena[roff[g]], (size_t)gsz[g]);          /* content after a failed read is not fixed */
        else if (must) {
            if (M.has_stored[g] && memcmp(&RamArena[roff[g]], M.stored[g], (size_t)gsz[g])) {
                int i = 0; while (RamArena[roff[g] + i] == M.stored[g][i]) i++;
                FAIL(sig, "%s: byte %d of group %d is %02X, last successfully stored image has %02X", ctx, i, g + 1, RamArena[roff[g] + i], M.stored[g][i]);
                return;
            }
            memcpy(&M.ram[roff[g]], &M.nvm[noff[g]], (size_t)gsz[g]);
        } else if (memcmp(&RamArena[roff[g]], &M.nvm[noff[g]], (size_t)gsz[g]) == 0) memcpy(&M.ram[roff[g]], &M.nvm[noff[g]], (size_t)gsz[g]);
    }
    if (no_default_cb(ctx) || check_writes(ctx, -1)) return;
    cmp_images(ctx, sig);
}

static void do_nmt_reset(int com)
{
    uint8_t d[2] = { (uint8_t)(com ? 130 : 129), NODE_ID };
    const char *ctx = com ? "NMT reset communication" : "NMT reset node";
    step_begin();
    w_rx(&Node, 0x000, 2, d);
    step_end();
    mc_log("    %s: node error %d\n", ctx, (int)X.err);
    /* reset node is "reset application (and communication)" (co_nmt.h; CiA 301: the reset application sub-state is followed by reset
     * communication), and C20 demands that it equals a fresh start, which loads every group: both kinds of group must be reloaded.
     * reset communication must reload the communication groups; application groups may be reloaded or left alone. */
    after_load(ctx, "para-ram-after-reset", !com, 1);
}

/* power cycle: node and RAM parameters back to their compile-time state, NVM kept */
static void do_restart(void)
{
    step_begin();
    memset(&Node, 0, sizeof Node); memset(TMem, 0, sizeof TMem); memset(SdoBuf, 0, sizeof SdoBuf); ErrReg = 0;
    memcpy(RamArena, RamInit, sizeof RamArena);
    memcpy(M.ram, RamInit, sizeof M.ram);
    CONodeInit(&Node, &Spec);
    if (mc_opt("apireset", 0)) {
        /* --opt apireset=1: between CONodeInit and CONodeStart the application writes tentative values into every group and then asks for a
         * reset node through the API (CONmtReset): the groups have to come back from NVM exactly as an NMT reset of a started node brings them back */
        step_end();
        mc_log("    restart, part 1 (CONodeInit): node error %d\n", (int)X.err);
        after_load("restart (CONodeInit)", "para-ram-after-restart", 1, 1);
        if (X.cfail) return;
        for (int g = 0; g < NG; g++) { RamArena[roff[g]] ^= 0x5A; M.ram[roff[g]] ^= 0x5A; }
        step_begin();
        CONmtReset(&Node.Nmt, CO_RESET_NODE);
        step_end();
        mc_log("    CONmtReset(CO_RESET_NODE) before CONodeStart: node error %d\n", (int)X.err);
        after_load("API reset node before the node is started", "para-ram-after-reset", 1, 1);
        if (X.cfail) return;
        step_begin();
    }
    CONodeStart(&Node);
    step_end();
    mc_log("    restart (CONodeInit + CONodeStart): node error %d\n", (int)X.err);
    if (!mc_opt("apireset", 0)) after_load("restart", "para-ram-after-restart", 1, 1);
    if (!X.cfail && CONmtGetMode(&Node.Nmt) != CO_PREOP && X.nshort == 0) FAIL("para-verdict", "node not pre-operational after a fault-free restart");
}

/* ------------------------------------------------------------------ alphabet */
static void ev_str(int e, char *b, size_t n)
{
    if (e < NSUB) snprintf(b, n, "save:%d", 1 + e);
    else if (e < 2 * NSUB) snprintf(b, n, "save?:%d", 1 + e - NSUB);
    else if (e < 3 * NSUB) snprintf(b, n, "load:%d", 1 + e - 2 * NSUB);
    else if (e < 4 * NSUB) snprintf(b, n, "load?:%d", 1 + e - 3 * NSUB);
    else if (e < 4 * NSUB + NG) snprintf(b, n, "chg:g%d", 1 + e - 4 * NSUB);
    else snprintf(b, n, "%s", e == 4 * NSUB + NG ? "reset-node" : e == 4 * NSUB + NG + 1 ? "reset-com" : "upload-1008h");
}
static void do_event(int e, int stepno)
{
    if (e < NSUB) { if (sub_exists(0x1010, 1 + e)) do_save(1 + e); else do_refused(0x1010, 1 + e, 0x23, SIG_SAVE); }     /* a sub-index the object does not implement: abort, nothing changes */
    else if (e < 2 * NSUB) do_refused(0x1010, 1 + e - NSUB, 0x23, SIG_LOAD);        /* the other object's signature */
    else if (e < 3 * NSUB) { if (sub_exists(0x1011, 1 + e - 2 * NSUB)) do_load(1 + e - 2 * NSUB); else do_refused(0x1011, 1 + e - 2 * NSUB, 0x23, SIG_LOAD); }
    else if (e < 4 * NSUB) do_refused(0x1011, 1 + e - 3 * NSUB, 0x23, SIG_SAVE);
    else if (e < 4 * NSUB + NG) do_ramchg(e - 4 * NSUB, stepno);
    else if (e == 4 * NSUB + NG + 2) do_upload();
    else do_nmt_reset(e == 4 * NSUB + NG + 1);
}

static long n_done;
static void finish_case(const char *kind, int L, const int *ev, int r, int nf, const int *fk, const int *fs)
{
    char smp[300]; const char *s = 0;
    if (n_done == 0 || (n_done % 9973) == 9972 || X.cfail) {
        int k = snprintf(smp, sizeof smp, "%s [%s]:", kind, LY->name);
        for (int i = 0; i < L && k < 240; i++) { char e[24]; ev_str(ev[i], e, sizeof e); k += snprintf(smp + k, sizeof smp - (size_t)k, "%s %s", r == i ? " RESTART" : "", e); }
        if (r == L && k < 240) k += snprintf(smp + k, sizeof smp - (size_t)k, " RESTART");
        for (int i = 0; i < nf && k < 260; i++) k += snprintf(smp + k, sizeof smp - (size_t)k, " fault@call%d(%s)", fk[i], fs[i] ? "0 bytes" : "-1 byte");
        s = smp;
    }
    n_done++;
    mc_case_end(OUT, DRV.nvm_callno > c0, s);
}

/* one tuple; returns the number of NVM driver calls of the run */
static int run_tuple(int L, const int *ev, int r, int nf, const int *fk, const int *fs)
{
    w_restore(snap0);
    OUT = 0x9E3779B97F4A7C15ull;
    X.nf = nf;
    for (int i = 0; i < nf; i++) { X.fk[i] = c0 + fk[i]; X.fshort[i] = fs[i] ? (1 << 20) : 1; }
    if (mc_verbose) { mc_log("  layout: %s\n  restart point %d, %d fault(s)", LY->name, r, nf); for (int i = 0; i < nf; i++) mc_log(" [call %d %s]", fk[i], fs[i] ? "returns 0" : "short by 1"); mc_log("\n"); }
    for (int i = 0; i <= L && !X.cfail; i++) {
        if (r == i) do_restart();
        if (i == L || X.cfail) break;
        if (mc_verbose) { char e[24]; ev_str(ev[i], e, sizeof e); mc_log("  request %d: %s\n", i + 1, e); }
        do_event(ev[i], i);
    }
    int calls = DRV.nvm_callno - c0;
    finish_case("history", L, ev, r, nf, fk, fs);
    return calls;
}
static void case_ints(int *v, int *n, int L, const int *ev, int r, int nf, const int *fk, const int *fs)
{
    int k = 0; v[k++] = 0; v[k++] = L;
    for (int i = 0; i < L; i++) v[k++] = ev[i];
    v[k++] = r; v[k++] = nf;
    for (int i = 0; i < nf; i++) { v[k++] = fk[i]; v[k++] = fs[i]; }
    *n = k;
}

static void enumerate(int L, int maxf)
{
    int ev[MAXL] = { 0, 0, 0, 0 }, v[16], n;
    for (;;) {
        if (mc_deadline_hit()) return;
        for (int r = -1; r <= L; r++) {
            int fk[2] = { 0, 0 }, fs[2] = { 0, 0 };
            case_ints(v, &n, L, ev, r, 0, fk, fs); mc_case_v(v, n);
            int calls0 = run_tuple(L, ev, r, 0, fk, fs);
            if (maxf < 1) continue;
            for (fk[0] = 0; fk[0] < calls0; fk[0]++) for (fs[0] = 0; fs[0] < 2; fs[0]++) {
                case_ints(v, &n, L, ev, r, 1, fk, fs); mc_case_v(v, n);
                int calls1 = run_tuple(L, ev, r, 1, fk, fs);
                if (maxf < 2) continue;
                for (fk[1] = fk[0] + 1; fk[1] < calls1; fk[1]++) for (fs[1] = 0; fs[1] < 2; fs[1]++) {
                    case_ints(v, &n, L, ev, r, 2, fk, fs); mc_case_v(v, n);
                    run_tuple(L, ev, r, 2, fk, fs);
                }
            }
        }
        int i = L - 1;
        while (i >= 0 && ++ev[i] == NEV) ev[i--] = 0;
        if (i < 0) return;
    }
}

/* sweep of values other than the signature (single request after the application changed every group) */
static const struct { uint8_t cmd; uint32_t x; int rel; } WRONG[] = {   /* rel: 1 = xor with the right signature, 2 = the other signature, 3 = byte-swapped right signature */
    {0x23, 0, 0}, {0x23, 1, 0}, {0x23, 0xFFFFFFFFu, 0}, {0x23, 0, 2}, {0x23, 0, 3}, {0x23, 0x20202020u, 1},
    {0x2B, 0, 1}, {0x27, 0, 1}, {0x2F, 0, 1},                            /* right bytes, wrong length (2, 3, 1 bytes) */
};
#define N_WRONG ((int)(sizeof WRONG / sizeof WRONG[0]) + 32)
static void sweep_case(int obj, int sub, int w)
{
    uint32_t sig = obj ? SIG_LOAD : SIG_SAVE, oth = obj ? SIG_SAVE : SIG_LOAD, val; uint8_t cmd = 0x23;
    int nw = N_WRONG - 32;
    if (w < nw) { cmd = WRONG[w].cmd; val = WRONG[w].rel == 1 ? sig ^ WRONG[w].x : WRONG[w].rel == 2 ? oth : WRONG[w].rel == 3 ? __builtin_bswap32(sig) : WRONG[w].x; }
    else val = sig ^ (1u << (w - nw));
    w_restore(snap0);
    OUT = 0x51ull; X.nf = 0;
    for (int g = 0; g < NG; g++) do_ramchg(g, g);
    do_refused(obj ? 0x1011 : 0x1010, sub, cmd, val);
    char smp[160]; snprintf(smp, sizeof smp, "wrong value [%s]: %08X cmd %02X to %04Xh:%d", LY->name, val, cmd, obj ? 0x1011 : 0x1010, sub);
    n_done++;
    mc_case_end(OUT, 1, smp);
}
static void sweep(void)
{
    for (int obj = 0; obj < 2; obj++) for (int sub = 1; sub <= NSUB; sub++) for (int w = 0; w < N_WRONG; w++) { mc_case(4, 1, obj, sub, w); sweep_case(obj, sub, w); }
}

/* first initialisation on an erased device, then the snapshot every tuple starts from */
static void setup(int cfg, int report)
{
    build_world(cfg);
    if (report) mc_case(1, 2);
    OUT = 0x77ull;
    do_restart();
    if (report) { n_done++; mc_case_end(OUT, 1, "first initialisation on an erased device"); }
    X.cfail = 0;
    c0 = DRV.nvm_callno;
    snap0 = realloc(snap0, w_snap_size());
    w_save(snap0);
}

static void run_cfg(int cfg, int tier)
{
    setup(cfg, 1);
    sweep();
    enumerate(mc_opt("len", tier ? 4 : 3), mc_opt("faults", 1));
    if (tier && mc_opt("len2", 3) > 0) enumerate(mc_opt("len2", 3), mc_opt("faults2", 2));
}

static void run_case(const int *c, int n)
{
    if (n < 2) return;
    if (c[1] == 2) { setup(c[0], 1); return; }
    setup(c[0], 0);
    mc_case_v(c + 1, n - 1);
    if (c[1] == 1 && n >= 5) { sweep_case(c[2], c[3], c[4]); return; }
    if (c[1] == 0 && n >= 5) {
        int L = c[2], ev[MAXL] = { 0, 0, 0, 0 }, fk[2] = { 0, 0 }, fs[2] = { 0, 0 };
        if (L < 0 || L > MAXL || n < 5 + L) return;
        for (int i = 0; i < L; i++) ev[i] = c[3 + i];
        int r = c[3 + L], nf = c[4 + L];
        for (int i = 0; i < nf && i < 2 && 6 + L + 2 * i < n; i++) { fk[i] = c[5 + L + 2 * i]; fs[i] = c[6 + L + 2 * i]; }
        run_tuple(L, ev, r, nf > 2 ? 2 : nf, fk, fs);
    }
}

static const char *cfg_name(int c) { return LAY[c].name; }
static const mc_enum E = { "C17", "c17", N_LAY, cfg_name, run_cfg, run_case };
int main(int argc, char **argv) { return mc_enum_main(argc, argv, &E); }
