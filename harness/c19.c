/* C19 - every SDO client transfer completes exactly once.
 *
 * Deviation-bounded exhaustive enumeration of SERVER behaviours against the real SDO client (co_csdo.c).
 * The harness is the SDO server: a conforming reference server (expedited for <= 4 bytes, segmented otherwise)
 * plus a menu of deviations that can be placed at every response of a transfer.  A case is a sequence of up to
 * three back-to-back transfers (direction, size, timeout, response delay) with idle gaps in between and at most
 * one deviation per transfer.  Sequences share their prefixes through snapshots (world + reference state + user
 * buffers); run_case() replays one sequence from the initial state without any sharing.
 *
 * Oracle (reference client + accounting), per implementation step:
 *   - request frames on 605h == the reference client's (initiate, announced size, toggle, n, c, data in order)
 *   - exactly one completion callback per accepted request: 0 after the server completed the transfer, the
 *     server's abort code, 0504 0000h + one abort frame when no response arrived for <timeout> ticks
 *   - upload buffer == server bytes, guard bytes around every user buffer intact (buffers are exact-size malloc
 *     blocks: a write beyond the guard is an ASan report)
 *   - busy => CO_ERR_SDO_BUSY and no effect, disabled => refused, responses while idle => no effect
 *   - timer pool occupancy after completion == before the request; later transfers are not disturbed
 *   - malformed server behaviour: exactly one callback with a non-zero code (immediately, or through the timeout
 *     because the frame was ignored), nothing outside the buffer; where the server's behaviour is legal but not
 *     what the client prepared for (object smaller than the buffer, segmented answer for <= 4 bytes) both a clean
 *     completion with the server's bytes and a refusal are accepted.
 *
 * Signatures: csdo-callback-count, csdo-callback-code, csdo-request-frames, csdo-request-refused, csdo-buffer-content,
 * csdo-buffer-overrun, csdo-timeout-abort-frame, csdo-timeout-missing, csdo-early-timeout, csdo-busy, csdo-disabled,
 * csdo-idle-response, csdo-timer-leak, and for server behaviour the client must not accept (it continues or reports
 * code 0): csdo-expedited-response-unchecked, csdo-segment-response-unchecked, csdo-upload-length-unchecked.
 *
 * cfg  0..15  part A (direction x 8 size shards): first transfer = every (size of the shard, timing profile) with every
 *                     deviation at every step, then after every gap a probe transfer.  quick: one deviation per
 *                     sequence (in the first or in the probe transfer); thorough: three transfers, two deviations
 * cfg 16..23  part B (direction x 4 size shards): a short first transfer in every end variant (ok / aborted / timed
 *                     out / late answer into the next transfer), every gap, then every (size, profile)
 *                     (thorough: with every deviation at every step, and a third transfer)
 * cfg 24      part C: probe-sized transfers only, a deviation in each of the first two (thorough: + third transfer)
 * cfg 25      part D: 70 s timeout (16-bit wrap), long transfer behind a short one, disabled client (1280h bit 31)
 *
 * --opt smin/smax: restrict the sizes; --opt skip=<mask of deviation kinds> / only=<kind>; triage only: --opt sigdev=1
 * (signature extended by direction/deviation), --opt noleak=1 (no timer accounting at completion) */
#include <stdlib.h>
#include "node_common.h"

#define GUARD     32
#define MAXSEQ    3
#define MAXSIZE   2000
#define CODE_TMO  0x05040000u
#define FILL_BUF  0xEE
#define FILL_GRD  0xA5

enum { UP = 0, DOWN = 1 };
typedef struct { int dir, size, to, delay; } TSpec;      /* timeout in ms (= ticks), delay = ticks the server takes to answer */
/* the delay field also carries the server's segment filling for uploads: delay = ticks + 16 * (7 - data bytes per non-final segment).
 * CiA 301 gives every upload segment its own n; a conforming server may send 6, 4 or 1 data bytes in a segment that is not the last */
#define T_DELAY(t) ((t).delay & 15)
#define T_CHUNK(t) (7 - (((t).delay >> 4) & 7))
#define WITH_CHUNK(delay, chunk) ((delay) + 16 * (7 - (chunk)))
typedef struct { int kind, k, arg; } Dev;
enum { D_NONE, D_ABORT, D_ABORT_IDX, D_ABORT_SUB, D_SILENT, D_LATE_IDLE, D_LATE_NEXT, D_TOGGLE, D_FOREIGN, D_SIZE_MORE,
       D_SIZE_LESS, D_EXP_FOR_SEG, D_SEG_FOR_EXP, D_MORE_DATA, D_LESS_DATA, D_BUSYREQ, D_IDLE_BEFORE, D_CHAIN, D_NKINDS };
static const char *DEVNAME[D_NKINDS] = { "none", "abort", "abort-other-index", "abort-other-subindex", "silent", "late-answer-while-idle",
    "late-answer-into-next-transfer", "wrong-toggle", "foreign-response", "announced-size-larger", "announced-size-smaller",
    "expedited-answer-to-segmented", "segmented-answer-to-expedited", "more-data-than-announced", "less-data-than-announced",
    "request-while-busy", "response-while-idle", "request-from-the-completion-callback" };
static const Dev NODEV = { D_NONE, 0, 0 };
static const uint32_t OWN_CODES[] = { 0x05040000u, 0x05030000u, 0x05040001u, 0x06040043u, 0x06070012u, 0x06070013u };

/* ------------------------------------------------------------------ user buffers: exact-size blocks GUARD|size|GUARD */
static uint8_t *UBC[MAXSEQ][MAXSIZE + 1];
static uint8_t *UB[MAXSEQ]; static int UBsz[MAXSEQ];
static uint8_t  OtherBuf[8];
static void ub_get(int slot, int size)
{
    if (!UBC[slot][size]) { UBC[slot][size] = malloc((size_t)size + 2 * GUARD); if (!UBC[slot][size]) { fprintf(stderr, "c19: out of memory\n"); exit(2); } }
    UB[slot] = UBC[slot][size]; UBsz[slot] = size;
}
static uint8_t SRV(int seq, uint32_t j) { return (uint8_t)(0x11 + 37 * seq + 7 * j + 3 * (j >> 8)); }    /* server object bytes */
static uint8_t PAY(int seq, uint32_t j) { return (uint8_t)(0x21 + 59 * seq + 13 * j + 5 * (j >> 8)); }   /* user download bytes */

/* ------------------------------------------------------------------ reference state (snapshotted) */
static struct {
    int      seq;                    /* index of the current/last transfer = buffer slot, selects the multiplexer */
    int      active;                 /* reference: transfer open */
    TSpec    t;
    uint16_t idx; uint8_t sub;
    int      k;                      /* index of the awaited response */
    uint32_t os;                     /* upload: size of the object the server serves */
    uint32_t off;                    /* upload: bytes served; download: bytes received in verified request frames */
    int      tgl;                    /* toggle bit of the awaited segment response */
    int      force_seg;              /* server answers an upload of <= 4 bytes segmented */
    int      extra;                  /* upload: segments the server appends after the announced size */
    int      must_fail, may_fail;    /* transfer cannot / need not succeed (server deviates from what the client prepared for) */
    int      remaining;              /* ticks until the awaited response times out */
    int      act0, tim0;             /* timer pool occupancy before the request */
    int      stale; uint8_t stale_frm[8];   /* late answer of the previous transfer, delivered after the next request */
    int      done[MAXSEQ]; uint32_t code[MAXSEQ], fin_os[MAXSEQ]; int dirs[MAXSEQ];   /* per transfer: callbacks, code, object size served */
    int      act_init, tim_init;
    int      appt, appt_age;         /* --opt appt: handle of the application timer that shares the timer list with the transfer's timeout, -1 none */
    int      chain;                  /* 1/2: the completion callback of this transfer requests an upload/download itself */
    int      chained, chain_err, chain_seen;   /* that request was issued; its return code; its initiate frames seen on the bus */
    uint64_t trace;
} H;

static CO_CSDO *CS;
static uint32_t TXID, RXID;
/* -DC19_CLIENT=1 (with -DCO_CSDO_N=2): the transfers run on the second client (1281h, server node 6); client 0 is an idle bystander */
#ifndef C19_CLIENT
#define C19_CLIENT 0
#endif
static uint32_t *pCobTx, *pCobRx; static uint8_t *pSrvNode;
static uint32_t MSPT = 1;       /* --opt slow=1: 100 Hz timer; the timeouts handed to the API are then 10 ms per tick of the case description */
static int FAILED;
static long n_closed;
static int noleak;                       /* --opt noleak=1 (triage only): no timer accounting at completion, shows what a leftover timer does later */
static int sigdev;                       /* --opt sigdev=1 (triage only): signature extended by direction and deviation of the transfer */
static const char *sig_ext(const char *sig);
#define FAIL(sig, ...) do { if (!FAILED) { FAILED = 1; mc_fail(sigdev ? sig_ext(sig) : (sig), __VA_ARGS__); mc_log("  >>> VIOLATION %s\n", sig); } } while (0)

/* ------------------------------------------------------------------ snapshots */
typedef struct { uint8_t *w; int n; int sz[MAXSEQ]; uint8_t *ub[MAXSEQ]; } Snap;
static void snap_init(Snap *s) { s->w = malloc(w_snap_size()); for (int i = 0; i < MAXSEQ; i++) s->ub[i] = malloc(MAXSIZE + 2 * GUARD); }
static void snap_save(Snap *s)
{
    w_save(s->w); s->n = H.seq + 1;
    for (int i = 0; i < s->n; i++) { s->sz[i] = UBsz[i]; if (UB[i]) memcpy(s->ub[i], UB[i], (size_t)UBsz[i] + 2 * GUARD); }
}
static void snap_restore(const Snap *s)
{
    w_restore(s->w);
    for (int i = 0; i < s->n; i++) if (UB[i]) memcpy(UB[i], s->ub[i], (size_t)s->sz[i] + 2 * GUARD);
}
static Snap S0, SN[MAXSEQ][2];

/* ------------------------------------------------------------------ case identification */
/* CID: part, n, then per transfer: dir, size, timeout, delay, deviation kind, step, argument, gap before the request */
static int CID[2 + 8 * MAXSEQ]; static int cid_n;
static void cid_set(int lv, const TSpec *t, Dev dv, int gap)
{
    int *c = CID + 2 + 8 * lv;
    c[0] = t->dir; c[1] = t->size; c[2] = t->to; c[3] = t->delay; c[4] = dv.kind; c[5] = dv.k; c[6] = dv.arg; c[7] = gap;
    cid_n = lv + 1;
}
static const char *sig_ext(const char *sig)
{
    static char b[128]; const int *c = CID + 2 + 8 * (cid_n > 0 ? cid_n - 1 : 0);
    snprintf(b, sizeof b, "%s:%s%s:%s", sig, c[0] == UP ? "up" : "down", c[1] > 4 ? "seg" : "exp", DEVNAME[c[4] % D_NKINDS]);
    return b;
}
static void cid_dev(int lv, Dev dv) { int *c = CID + 2 + 8 * lv; c[4] = dv.kind; c[5] = dv.k; c[6] = dv.arg; cid_n = lv + 1; }
static void label(void) { CID[1] = cid_n; mc_case_v(CID, 2 + 8 * cid_n); }
static int cid_text(char *b, size_t n)
{
    int k = snprintf(b, n, "part %c:", "ABCD"[CID[0] & 3]);
    for (int i = 0; i < cid_n && (size_t)k + 100 < n; i++) {
        const int *c = CID + 2 + 8 * i;
        k += snprintf(b + k, n - (size_t)k, " %s[gap %d] %s %dB timeout %d delay %d", i ? "->" : "", c[7], c[0] == UP ? "upload" : "download", c[1], c[2], c[3]);
        if (c[4] != D_NONE) k += snprintf(b + k, n - (size_t)k, " {%s at step %d arg %d}", DEVNAME[c[4] % D_NKINDS], c[5], c[6]);
    }
    return k;
}
static void case_close(void)
{
    char smp[400]; const char *s = 0;
    n_closed++;
    if (n_closed == 1 || n_closed % 9973 == 0) { cid_text(smp, sizeof smp); s = smp; }
    mc_case_end(H.trace, 1, s);
    FAILED = 0;
}

/* ------------------------------------------------------------------ timer pool occupancy (public CO_TMR fields) */
static int tmr_used_act(void) { int n = 0; for (CO_TMR_ACTION *a = Node.Tmr.Acts; a && n <= NC_TMR; a = a->Next) n++; return (int)Node.Tmr.Max - n; }
static int tmr_used_tim(void) { int n = 0; for (CO_TMR_TIME *t = Node.Tmr.Free; t && n <= NC_TMR; t = t->Next) n++; return (int)Node.Tmr.Max - n; }

/* ------------------------------------------------------------------ implementation steps and observation */
/* D_CHAIN: the application requests its next transfer from inside the completion callback.  The statement allows two outcomes: the
 * request is refused and leaves no trace, or it is accepted and then is a transfer like any other - here the server stays silent,
 * so it must end exactly once with 0504 0000h and one abort frame after its own timeout, and leave no timer behind. */
#define CH_TO   3
#define CH_IDX  0x2FE0
#define CH_SUB  0x11
#define CH_MARK 0xC4A1u
static uint8_t ChainBuf[8];
static void chain_cb(CO_CSDO *c, uint16_t idx, uint8_t sub, uint32_t code) { (void)c; w_cb(CB_USER, CH_MARK, code, ((uint32_t)idx << 8) | sub); }
static void csdo_cb(CO_CSDO *c, uint16_t idx, uint8_t sub, uint32_t code)
{
    w_cb(CB_CSDO_DONE, ((uint32_t)idx << 8) | sub, code, 0);
    if (H.chain) {
        CO_ERR e = H.chain == 1 ? COCSdoRequestUpload(c, CO_DEV(CH_IDX, CH_SUB), ChainBuf, sizeof ChainBuf, chain_cb, CH_TO * MSPT)
                                : COCSdoRequestDownload(c, CO_DEV(CH_IDX, CH_SUB), ChainBuf, 3, chain_cb, CH_TO * MSPT);
        H.chain = 0; H.chained = 1; H.chain_err = (int)e; H.chain_seen = 0;
        mc_log("      request from inside the completion callback -> %d\n", (int)e);
    }
}

static void log_obs(const char *what)
{
    if (mc_verbose) { char o[600]; w_fmt_obs(o, sizeof o); mc_log("      t=%u %s -> %s\n", W_NOW, what, o); }
}
/* --opt appt=1: with every accepted request the application arms a timer of its own that is due before the transfer's timeout (after 3 ticks, timeouts of 5 ticks) and deletes it two ticks later,
 * appt=2: a timer of one tick that elapses on its own - the timeout is then not the first event of the timer list and inherits the head's remaining time,
 * appt=3: before a request the application arms a timer that is due on exactly the tick of the transfer's timeout and keeps it across transfers until it elapses:
 *         the timeout is the last action of a shared timer event, a back-to-back transfer with the same timeout joins the same event again */
static int APPT_MODE;
/* --opt tpdo=1: the node also runs an event-driven TPDO (181h, event time 2 ms).  Before every request the node goes OPERATIONAL -> PRE-OPERATIONAL and three
 * ticks pass (the TPDO's event timer elapses where nothing is sent), right after the request an NMT start re-initialises the PDOs: another service's timer
 * bookkeeping next to the client's timeout.  TPDO frames are not the client's business and are skipped by the observer. */
static int TPDO_MODE;
static int tpdo_live(void) { return TPDO_MODE && Node.TPdo[0].EvTmr >= 0; }
static void appt_cb(void *p) { (void)p; }
static void appt_drop(void) { if (H.appt >= 0) { (void)COTmrDelete(&Node.Tmr, (int16_t)H.appt); H.appt = -1; } }
static void do_tick(void)
{
    w_obs_clear(); w_tick(&Node, 1); mc_steps++;
    if (H.appt >= 0) { if (APPT_MODE == 2) H.appt = -1; else if (APPT_MODE == 3) { if (--H.appt_age <= 0) H.appt = -1; } else if (++H.appt_age >= 2) appt_drop(); }
    if (H.active && H.remaining > 0) H.remaining--;
    if (mc_verbose && (OBS.ntx || OBS.ncb)) log_obs("tick");
}
static void do_rx(const uint8_t *f)
{
    char w[64];
    w_obs_clear(); w_rx(&Node, RXID, 8, f); mc_steps++;
    if (mc_verbose) { snprintf(w, sizeof w, "server %03X#%02X%02X%02X%02X%02X%02X%02X%02X", RXID, f[0], f[1], f[2], f[3], f[4], f[5], f[6], f[7]); log_obs(w); }
}

typedef struct { int ncb; uint32_t code; int nreq; const WFrame *req; int nabort; uint32_t acode; } React;
static void observe(React *r)
{
    uint32_t mux = ((uint32_t)H.idx << 8) | H.sub;
    memset(r, 0, sizeof *r);
    H.trace = (H.trace ^ w_obs_hash()) * 0x9E3779B97F4A7C15ull; H.trace ^= H.trace >> 29;
    if (OBS.fatal) FAIL("fatal-error callback invoked", "CONodeFatalError during an SDO client dialogue");
    if (OBS.tx_lost || OBS.cb_lost) FAIL("too many frames sent in one step", "%d frames, %d callbacks in one step", OBS.ntx, OBS.ncb + OBS.cb_lost);
    for (int i = 0; i < OBS.ncb && i < W_MAX_CB; i++) if (OBS.cb[i].kind == CB_CSDO_DONE) {
        r->ncb++; r->code = OBS.cb[i].b;
        if (OBS.cb[i].a != mux) FAIL("csdo-callback-count", "completion callback for object %06X (code %08X) although the %s transfer is %06X", OBS.cb[i].a, OBS.cb[i].b, H.active ? "running" : "last", mux);
    }
    for (int i = 0; i < OBS.ntx && i < W_MAX_TX; i++) {
        const WFrame *f = &OBS.tx[i];
        if (TPDO_MODE && f->id == 0x181) continue;
        if (f->id != TXID || f->dlc != 8) FAIL("csdo-request-frames", "unexpected frame %03X dlc %d on the bus", f->id, f->dlc);
        else if (H.chained && H.chain_err == (int)CO_ERR_NONE && f->d[0] != 0x80 && f->d[1] == (uint8_t)CH_IDX && f->d[2] == (uint8_t)(CH_IDX >> 8) && f->d[3] == CH_SUB) H.chain_seen++;
        else if (f->d[0] == 0x80) {
            r->nabort++; r->acode = w_get32(f->d + 4);
            if (f->d[1] != (uint8_t)H.idx || f->d[2] != (uint8_t)(H.idx >> 8) || f->d[3] != H.sub)
                FAIL(r->acode == CODE_TMO ? "csdo-timeout-abort-frame" : "csdo-request-frames", "abort frame carries multiplexer %02X%02X:%02X, transfer is %04X:%02X", f->d[2], f->d[1], f->d[3], H.idx, H.sub);
        } else { r->nreq++; r->req = f; }
    }
}
static void expect_quiet(const char *what, const char *sig, int busy)
{
    React r; observe(&r); if (FAILED) return;
    if (r.ncb) {
        if (busy && r.code == CODE_TMO) FAIL("csdo-early-timeout", "timeout reported %s, %d tick(s) before the deadline (timeout %d ms)", what, H.remaining, H.t.to);
        else FAIL(sig, "completion callback (code %08X) %s", r.code, what);
    } else if (r.nreq || r.nabort) FAIL(strcmp(sig, "csdo-callback-count") ? sig : "csdo-request-frames", "%d frame(s) sent %s (first byte %02X)", r.nreq + r.nabort, what, OBS.tx[0].d[0]);
}
static void check_guards(int slot)
{
    const uint8_t *b = UB[slot]; int S = UBsz[slot];
    for (int i = 0; i < GUARD; i++) {
        if (b[i] != FILL_GRD) { FAIL("csdo-buffer-overrun", "byte %d before the %d-byte user buffer of transfer %d changed to %02X", GUARD - i, S, slot, b[i]); return; }
        if (b[GUARD + S + i] != FILL_GRD) { FAIL("csdo-buffer-overrun", "byte %d behind the %d-byte user buffer of transfer %d changed to %02X", i + 1, S, slot, b[GUARD + S + i]); return; }
    }
}
static void check_content(int slot, uint32_t os, const char *when)
{
    const uint8_t *b = UB[slot] + GUARD; uint32_t S = (uint32_t)UBsz[slot], n = os < S ? os : S;
    for (uint32_t j = 0; j < n; j++) if (b[j] != SRV(slot, j)) { FAIL("csdo-buffer-content", "upload of %u bytes completed with code 0%s: buffer byte %u is %02X, the server sent %02X", S, when, j, b[j], SRV(slot, j)); return; }
    for (uint32_t j = n; j < S; j++) if (b[j] != FILL_BUF) { FAIL("csdo-buffer-content", "server object has %u bytes%s: buffer byte %u beyond it changed to %02X", os, when, j, b[j]); return; }
}

/* ------------------------------------------------------------------ reference client frames */
static void mux_put(uint8_t *f) { f[1] = (uint8_t)H.idx; f[2] = (uint8_t)(H.idx >> 8); f[3] = H.sub; }
static void req_initiate(uint8_t *f)
{
    uint32_t S = (uint32_t)H.t.size;
    memset(f, 0, 8); mux_put(f);
    if (H.t.dir == UP) f[0] = 0x40;
    else if (S <= 4) { f[0] = (uint8_t)(0x23 | ((4 - S) << 2)); for (uint32_t j = 0; j < S; j++) f[4 + j] = PAY(H.seq, j); }
    else { f[0] = 0x21; w_put32(f + 4, S); }
}
static uint32_t req_next(uint8_t *f)       /* request following the accepted response; returns the data bytes it carries */
{
    memset(f, 0, 8);
    if (H.t.dir == UP) { f[0] = (uint8_t)(0x60 | (H.tgl << 4)); return 0; }
    uint32_t S = (uint32_t)H.t.size, n = S - H.off > 7 ? 7 : S - H.off;
    f[0] = (uint8_t)((H.tgl << 4) | ((7 - n) << 1) | (H.off + n == S ? 1 : 0));
    for (uint32_t j = 0; j < n; j++) f[1 + j] = PAY(H.seq, H.off + j);
    return n;
}
static int frame_is(const WFrame *f, const uint8_t *e) { return f->id == TXID && f->dlc == 8 && memcmp(f->d, e, 8) == 0; }

/* ------------------------------------------------------------------ reference server */
/* the response of the server at the current step under its current model (os, force_seg, extra); *last: the server
 * regards the transfer as complete with it */
static void srv_response(uint8_t *f, int *last)
{
    memset(f, 0, 8); *last = 0;
    if (H.t.dir == DOWN) {
        if (H.k == 0) { f[0] = 0x60; mux_put(f); *last = (H.t.size <= 4); }
        else { f[0] = (uint8_t)(0x20 | (H.tgl << 4)); *last = (H.off >= (uint32_t)H.t.size); }
    } else if (H.k == 0) {
        if (H.os <= 4 && !H.force_seg) {
            f[0] = (uint8_t)(0x43 | ((4 - H.os) << 2)); mux_put(f);
            for (uint32_t j = 0; j < 4; j++) f[4 + j] = j < H.os ? SRV(H.seq, j) : 0xDD;
            H.off = H.os; *last = 1;
        } else { f[0] = 0x41; mux_put(f); w_put32(f + 4, H.os); }
    } else {
        uint32_t n; int c;
        if (H.off < H.os) {
            n = H.os - H.off > (uint32_t)T_CHUNK(H.t) ? (uint32_t)T_CHUNK(H.t) : H.os - H.off;
            for (uint32_t j = 0; j < 7; j++) f[1 + j] = j < n ? SRV(H.seq, H.off + j) : 0xDD;
            H.off += n; c = (H.off == H.os && H.extra == 0);
        } else {
            n = 7; for (uint32_t j = 0; j < 7; j++) f[1 + j] = (uint8_t)(0xE1 + j);
            H.off += 7; if (H.extra > 0) H.extra--;
            c = (H.extra == 0);
        }
        f[0] = (uint8_t)((H.tgl << 4) | ((7 - n) << 1) | c); *last = c;
    }
}
static void foreign(int a, uint8_t *f)
{
    memset(f, 0, 8);
    switch (a) {
    case 0: f[0] = 0x60; mux_put(f); break;                                            /* initiate download response   */
    case 1: f[0] = 0x43; mux_put(f); for (int j = 0; j < 4; j++) f[4 + j] = (uint8_t)(0xF1 + j); break;   /* expedited upload response */
    case 2: f[0] = 0x41; mux_put(f); w_put32(f + 4, H.t.size > 4 ? (uint32_t)H.t.size : 8u); break;        /* segmented upload initiate response */
    case 3: f[0] = (uint8_t)(H.tgl << 4); for (int j = 0; j < 7; j++) f[1 + j] = (uint8_t)(0xF1 + j); break;   /* upload segment, 7 bytes, not the last */
    default: f[0] = (uint8_t)(0x20 | (H.tgl << 4)); break;                             /* download segment response    */
    }
}
static int foreign_expected(int a)
{
    if (H.t.dir == UP) return H.k == 0 ? (a == 1 || a == 2) : a == 3;
    return H.k == 0 ? a == 0 : a == 4;
}

/* ------------------------------------------------------------------ transfer engine */
static void chain_aftermath(void)
{
    int ncb = 0, nab = 0, at = 0;
    H.chained = 0;
    if (H.chain_err != (int)CO_ERR_NONE) return;                 /* refused: the ordinary checks of finish() (frames, timers) prove that nothing is left */
    if (H.chain_seen != 1) { FAIL("csdo-chained-request", "request from inside the completion callback accepted, but %d initiate frame(s) for it on the bus", H.chain_seen); return; }
    for (int i = 1; i <= CH_TO + 1 && !FAILED && !ncb; i++) {
        w_obs_clear(); w_tick(&Node, 1); mc_steps++;
        H.trace = (H.trace ^ w_obs_hash()) * 0x9E3779B97F4A7C15ull; H.trace ^= H.trace >> 29;
        for (int j = 0; j < OBS.ncb && j < W_MAX_CB; j++) {
            if (OBS.cb[j].kind == CB_CSDO_DONE) FAIL("csdo-callback-count", "second completion callback (code %08X) for the finished transfer", OBS.cb[j].b);
            else if (OBS.cb[j].kind == CB_USER && OBS.cb[j].a == CH_MARK) {
                ncb++; at = i;
                if (OBS.cb[j].b != CODE_TMO) FAIL("csdo-callback-code", "the transfer requested from the completion callback got no response and ends with code %08X instead of 05040000", OBS.cb[j].b);
            }
        }
        for (int j = 0; j < OBS.ntx && j < W_MAX_TX && !FAILED; j++) {
            const WFrame *f = &OBS.tx[j];
            if (f->id == TXID && f->dlc == 8 && f->d[0] == 0x80 && f->d[1] == (uint8_t)CH_IDX && f->d[2] == (uint8_t)(CH_IDX >> 8) && f->d[3] == CH_SUB && w_get32(f->d + 4) == CODE_TMO) nab++;
            else FAIL("csdo-request-frames", "unexpected frame %03X#%02X.. while the transfer requested from the completion callback waits for its answer", f->id, f->d[0]);
        }
    }
    if (FAILED) return;
    if (ncb == 0) FAIL("csdo-callback-count", "the request issued from inside the completion callback was accepted, but that transfer never completes (no callback within %d ticks, timeout %d)", CH_TO + 1, CH_TO);
    else if (ncb > 1) FAIL("csdo-callback-count", "%d completion callbacks for the transfer requested from the completion callback", ncb);
    else if (at < CH_TO) FAIL("csdo-early-timeout", "the transfer requested from the completion callback timed out after %d tick(s), timeout %d", at, CH_TO);
    else if (nab != 1) FAIL("csdo-timeout-abort-frame", "%d abort frame(s) for the timed-out transfer requested from the completion callback", nab);
}
static void finish(uint32_t code)
{
    int s = H.seq;
    H.active = 0; H.done[s]++; H.code[s] = code; H.fin_os[s] = H.os;
    mc_log("    transfer %d finished with code %08X\n", s, code);
    if (APPT_MODE != 3) appt_drop();
    if (H.chained) chain_aftermath();
    H.chain = 0;
    check_guards(s);
    if (!FAILED && code == 0 && H.t.dir == UP) check_content(s, H.os, "");
    if (!FAILED && !noleak) {
        int a = tmr_used_act() - (H.appt >= 0) - tpdo_live(), t = tmr_used_tim() - (H.appt >= 0) - tpdo_live();
        if (a != H.act0 || t != H.tim0) FAIL("csdo-timer-leak", "after the %s transfer completed with code %08X %d timer action(s) / %d timer event(s) are in use, %d / %d before the request", H.t.dir == UP ? "upload" : "download", code, a, t, H.act0, H.tim0);
    }
}

/* no response: the completion callback with 0504 0000h and one abort frame must come after lo..hi ticks */
static void wait_timeout(int lo, int hi, const char *what)
{
    for (int i = 1; i <= hi; i++) {
        React r; do_tick(); observe(&r); if (FAILED) return;
        if (!r.ncb && !r.nreq && !r.nabort) continue;
        if (r.ncb == 0) FAIL("csdo-callback-count", "frame (first byte %02X) sent %d tick(s) after %s but no completion callback", OBS.tx[0].d[0], i, what);
        else if (r.ncb > 1) FAIL("csdo-callback-count", "%d completion callbacks in one tick after %s", r.ncb, what);
        else if (r.code != CODE_TMO) FAIL("csdo-callback-code", "no response after %s: completion code %08X instead of 05040000", what, r.code);
        else if (i < lo) FAIL("csdo-early-timeout", "timeout reported %d tick(s) after %s, %d tick(s) before the deadline (timeout %d ms)", i, what, lo - i, H.t.to);
        else if (r.nreq || r.nabort != 1 || r.acode != CODE_TMO) FAIL("csdo-timeout-abort-frame", "timeout after %s: %d abort frame(s) (code %08X) and %d other frame(s) on the bus, expected exactly one abort frame with 05040000", what, r.nabort, r.acode, r.nreq);
        else finish(CODE_TMO);
        return;
    }
    FAIL("csdo-timeout-missing", "no completion callback within %d ticks after %s (timeout %d ms)", hi, what, H.t.to);
}

/* sig0: signature used when the client accepts (continues / completes with code 0) what it must not accept */
typedef struct { int cont, end_ok, end_fail, ignore, malformed; uint32_t fail_code; const char *sig0; } Allow;
#define SIG_EXP "csdo-expedited-response-unchecked"
#define SIG_SEG "csdo-segment-response-unchecked"
#define SIG_LEN "csdo-upload-length-unchecked"
static const char *sig_unchecked(void) { return H.t.size <= 4 ? SIG_EXP : SIG_SEG; }
static void allow_for(Allow *a, int last)
{
    memset(a, 0, sizeof *a);
    if (last) { if (!H.must_fail) a->end_ok = 1; } else a->cont = 1;
    if (H.must_fail || H.may_fail) { a->end_fail = 1; a->ignore = 1; a->sig0 = H.t.size <= 4 ? SIG_EXP : H.must_fail ? SIG_LEN : 0; }
}

/* the client's reaction to a delivered response */
static void react(const Allow *al, const char *what)
{
    React r; observe(&r); if (FAILED) return;
    check_guards(H.seq); if (FAILED) return;
    if (r.ncb > 1) FAIL("csdo-callback-count", "%d completion callbacks after %s", r.ncb, what);
    else if (r.ncb == 1) {
        if (r.nreq) FAIL("csdo-request-frames", "request frame (first byte %02X) sent together with the completion callback after %s", r.req->d[0], what);
        else if (r.nabort > 1) FAIL("csdo-request-frames", "%d abort frames after %s", r.nabort, what);
        else if (r.code == 0) {
            if (r.nabort) FAIL("csdo-callback-code", "abort frame (%08X) on the bus but completion code 0 after %s", r.acode, what);
            else if (!al->end_ok) FAIL(al->sig0 ? al->sig0 : "csdo-callback-code", "completion with code 0 after %s (step %d of the %s of %d bytes)%s", what, H.k, H.t.dir == UP ? "upload" : "download", H.t.size,
                                       !H.must_fail ? "" : H.must_fail == 1 ? ": the server sent more than announced / than the buffer holds" : ": the server sent fewer bytes than it announced");
            else finish(0);
        } else {
            if (!al->end_fail) FAIL("csdo-callback-code", "%s (step %d of the %s of %d bytes) answered by completion code %08X", what, H.k, H.t.dir == UP ? "upload" : "download", H.t.size, r.code);
            else if (al->fail_code && r.code != al->fail_code) FAIL("csdo-callback-code", "server aborted with %08X, callback reports %08X", al->fail_code, r.code);
            else finish(r.code);
        }
    } else if (r.nabort) FAIL("csdo-callback-count", "abort frame (%08X) sent after %s but no completion callback", r.acode, what);
    else if (r.nreq == 0) {
        if (!al->ignore) FAIL(al->cont ? "csdo-request-frames" : "csdo-callback-count", "no reaction to %s (step %d of the %s of %d bytes): %s expected", what, H.k, H.t.dir == UP ? "upload" : "download", H.t.size, al->cont ? "next request" : "completion callback");
        else { mc_log("    (frame ignored; the server stays silent)\n"); wait_timeout(H.remaining, H.t.to + 1, what); }
    } else if (r.nreq == 1) {
        if (!al->cont) FAIL(al->sig0 ? al->sig0 : "csdo-request-frames", "client continues with request %02X%02X%02X%02X%02X%02X%02X%02X after %s (step %d of the %s of %d bytes)",
                            r.req->d[0], r.req->d[1], r.req->d[2], r.req->d[3], r.req->d[4], r.req->d[5], r.req->d[6], r.req->d[7], what, H.k, H.t.dir == UP ? "upload" : "download", H.t.size);
        else {
            uint8_t e[8]; uint32_t n;
            if (H.k == 0) H.tgl = 0; else H.tgl ^= 1;
            n = req_next(e);
            if (!frame_is(r.req, e)) FAIL("csdo-request-frames", "request %d of the %s of %d bytes is %02X%02X%02X%02X%02X%02X%02X%02X, reference client sends %02X%02X%02X%02X%02X%02X%02X%02X (offset %u)", H.k + 1, H.t.dir == UP ? "upload" : "download", H.t.size,
                                          r.req->d[0], r.req->d[1], r.req->d[2], r.req->d[3], r.req->d[4], r.req->d[5], r.req->d[6], r.req->d[7], e[0], e[1], e[2], e[3], e[4], e[5], e[6], e[7], H.off);
            if (H.t.dir == DOWN) H.off += n;
            H.k++; H.remaining = H.t.to;
        }
    } else FAIL("csdo-request-frames", "%d request frames after %s", r.nreq, what);
}

static void idle_rx(const uint8_t *f, const char *what)
{
    do_rx(f); expect_quiet(what, "csdo-idle-response", 0);
    for (int i = 0; i <= H.seq && !FAILED; i++) if (UB[i]) check_guards(i);
}

static void tr_prepare(int seq, const TSpec *t)
{
    H.seq = seq; H.t = *t; H.idx = (uint16_t)(0x2000 + seq); H.sub = (uint8_t)(1 + seq);
    H.k = 0; H.os = (uint32_t)t->size; H.off = 0; H.tgl = 0; H.force_seg = 0; H.extra = 0; H.must_fail = 0; H.may_fail = 0;
    H.dirs[seq] = t->dir;
    ub_get(seq, t->size);
    memset(UB[seq], FILL_GRD, (size_t)t->size + 2 * GUARD);
    for (int j = 0; j < t->size; j++) UB[seq][GUARD + j] = t->dir == UP ? FILL_BUF : PAY(seq, (uint32_t)j);
}

static void tr_request(void)
{
    CO_ERR err; React r; uint8_t e[8];
    CO_CSDO *c = COCSdoFind(&Node, C19_CLIENT);
    if (c == 0) { FAIL("csdo-request-refused", "COCSdoFind returns NULL for the enabled client 0 before transfer %d", H.seq); return; }
    if (APPT_MODE != 3) appt_drop();
    if (TPDO_MODE) { nc_nmt(1, 0); nc_nmt(128, 0); for (int k = 0; k < 3; k++) w_tick(&Node, 1); w_obs_clear(); }
    H.act0 = tmr_used_act() - (H.appt >= 0) - tpdo_live(); H.tim0 = tmr_used_tim() - (H.appt >= 0) - tpdo_live();
    if (APPT_MODE == 3 && H.appt < 0 && H.t.to > 0) { H.appt = COTmrCreate(&Node.Tmr, (uint32_t)H.t.to * MSPT, 0, appt_cb, 0); H.appt_age = (int)((uint32_t)H.t.to * MSPT); }
    w_obs_clear();
    if (H.t.dir == UP) err = COCSdoRequestUpload(c, CO_DEV(H.idx, H.sub), UB[H.seq] + GUARD, (uint32_t)H.t.size, csdo_cb, (uint32_t)H.t.to * MSPT);
    else               err = COCSdoRequestDownload(c, CO_DEV(H.idx, H.sub), UB[H.seq] + GUARD, (uint32_t)H.t.size, csdo_cb, (uint32_t)H.t.to * MSPT);
    mc_steps++;
    if (mc_verbose) { char w[96]; snprintf(w, sizeof w, "request %s %04X:%02X %d bytes timeout %d -> %d", H.t.dir == UP ? "upload" : "download", H.idx, H.sub, H.t.size, H.t.to, (int)err); log_obs(w); }
    observe(&r); if (FAILED) return;
    if (err != CO_ERR_NONE) { FAIL("csdo-request-refused", "request %d (%s, %d bytes) on the idle client refused with error %d", H.seq, H.t.dir == UP ? "upload" : "download", H.t.size, (int)err); return; }
    req_initiate(e);
    if (r.ncb) FAIL("csdo-callback-count", "completion callback (code %08X) inside the request call", r.code);
    else if (r.nabort || r.nreq != 1 || !frame_is(r.req, e)) FAIL("csdo-request-frames", "initiate request of the %s of %d bytes: %d frame(s), first %02X%02X%02X%02X%02X%02X%02X%02X, reference client sends %02X%02X%02X%02X%02X%02X%02X%02X",
        H.t.dir == UP ? "upload" : "download", H.t.size, r.nreq + r.nabort, OBS.tx[0].d[0], OBS.tx[0].d[1], OBS.tx[0].d[2], OBS.tx[0].d[3], OBS.tx[0].d[4], OBS.tx[0].d[5], OBS.tx[0].d[6], OBS.tx[0].d[7], e[0], e[1], e[2], e[3], e[4], e[5], e[6], e[7]);
    if (FAILED) return;
    if (H.t.dir == DOWN && H.t.size <= 4) H.off = (uint32_t)H.t.size;
    H.active = 1; H.remaining = H.t.to;
    if (TPDO_MODE) { nc_nmt(1, 0); w_obs_clear(); }
    if (APPT_MODE && APPT_MODE != 3 && H.appt < 0 && H.t.to > 3) { H.appt = COTmrCreate(&Node.Tmr, APPT_MODE == 2 ? 1 : 3, 0, appt_cb, 0); H.appt_age = 0; }
    if (H.stale) {
        /* the late answer of the previous transfer arrives now; the real answer follows */
        H.stale = 0;
        do_rx(H.stale_frm); observe(&r); if (FAILED) return;
        check_guards(H.seq); if (FAILED) return;
        if (!r.ncb && !r.nreq && !r.nabort) mc_log("    (late answer of the previous transfer ignored)\n");
        else if (r.ncb == 1 && r.code != 0 && !r.nreq && r.nabort <= 1) {
            uint8_t f[8]; int last;
            finish(r.code); if (FAILED) return;
            srv_response(f, &last); idle_rx(f, "when the answer to a request arrives that the client already gave up");
        } else FAIL(sig_unchecked(), "late answer %02X%02X%02X%02X... of the previous transfer taken as the answer to the initiate request of %04X:%02X: %d callback(s) code %08X, %d request frame(s)",
                    H.stale_frm[0], H.stale_frm[1], H.stale_frm[2], H.stale_frm[3], H.idx, H.sub, r.ncb, r.code, r.nreq);
    }
}
static void tr_begin(int seq, const TSpec *t) { tr_prepare(seq, t); tr_request(); }

static void busy_requests(void)
{
    React r; CO_ERR e1, e2;
    w_obs_clear();
    e1 = COCSdoRequestUpload(CS, CO_DEV(0x2FF0, 0x7F), OtherBuf, sizeof OtherBuf, csdo_cb, 3 * MSPT);
    e2 = COCSdoRequestDownload(CS, CO_DEV(0x2FF1, 0x7E), OtherBuf, 3, csdo_cb, 3 * MSPT);
    mc_steps += 2;
    if (mc_verbose) log_obs("two requests while busy");
    if (e1 != CO_ERR_SDO_BUSY || e2 != CO_ERR_SDO_BUSY) FAIL("csdo-busy", "requests on the busy client return %d (upload) and %d (download), expected CO_ERR_SDO_BUSY (%d)", (int)e1, (int)e2, (int)CO_ERR_SDO_BUSY);
    observe(&r);
    if (!FAILED && (r.ncb || r.nreq || r.nabort)) FAIL("csdo-busy", "refused requests on the busy client caused %d callback(s) and %d frame(s)", r.ncb, r.nreq + r.nabort);
}

/* one response step of the open transfer; returns 1 while the transfer stays open */
static int tr_step(Dev dv)
{
    uint8_t f[8]; int last = 0; Allow al; char what[120];
    memset(&al, 0, sizeof al);
    if (dv.kind == D_BUSYREQ) { busy_requests(); if (FAILED) return 0; dv.kind = D_NONE; }
    if (dv.kind == D_CHAIN) { H.chain = 1 + (dv.arg & 1); dv.kind = (dv.arg >> 1) == 0 ? D_NONE : (dv.arg >> 1) == 1 ? D_ABORT : D_SILENT; dv.arg = 0; }
    if (dv.kind == D_SILENT || dv.kind == D_LATE_IDLE || dv.kind == D_LATE_NEXT) {
        srv_response(f, &last);
        snprintf(what, sizeof what, "request %d stayed unanswered", H.k);
        wait_timeout(H.remaining, H.remaining + 1, what); if (FAILED) return 0;
        if (dv.kind == D_LATE_IDLE) idle_rx(f, "when the late answer arrives after the timeout");
        if (dv.kind == D_LATE_NEXT) { H.stale = 1; memcpy(H.stale_frm, f, 8); }
        return 0;
    }
    for (int i = 0; i < T_DELAY(H.t); i++) { do_tick(); expect_quiet("while the server prepares its answer", "csdo-callback-count", 1); if (FAILED) return 0; }
    switch (dv.kind) {
    case D_ABORT:
        /* arg 0: an ordinary abort code; arg 1..6: the codes the client itself uses for its own verdicts (timeout, toggle, command,
         * parameter, length) - a server may send them too, and the client must not take them for its own */
        memset(f, 0, 8); f[0] = 0x80; mux_put(f); al.end_fail = 1;
        al.fail_code = dv.arg > 0 ? OWN_CODES[dv.arg - 1] : H.k % 3 == 0 ? 0x06020000u : H.k % 3 == 1 ? 0x06090011u : 0x08000020u; w_put32(f + 4, al.fail_code);
        snprintf(what, sizeof what, "abort %08X", al.fail_code); break;
    case D_ABORT_IDX: case D_ABORT_SUB:
        memset(f, 0, 8); f[0] = 0x80; mux_put(f); if (dv.kind == D_ABORT_IDX) f[2] ^= 0x01; else f[3] ^= 0x40; w_put32(f + 4, 0x06040043u); al.end_fail = 1; al.ignore = 1;
        snprintf(what, sizeof what, "abort with multiplexer %02X%02X:%02X", f[2], f[1], f[3]); break;
    case D_TOGGLE:
        srv_response(f, &last); f[0] ^= 0x10; al.end_fail = 1; al.ignore = 1; al.malformed = 1; al.sig0 = sig_unchecked();
        snprintf(what, sizeof what, "segment response %02X with the wrong toggle bit", f[0]); break;
    case D_FOREIGN:
        foreign(dv.arg, f); al.end_fail = 1; al.ignore = 1; al.malformed = 1; al.sig0 = sig_unchecked();
        snprintf(what, sizeof what, "response %02X that does not belong to this phase of the transfer", f[0]); break;
    case D_SIZE_MORE:   H.os = (uint32_t)H.t.size + 1; H.must_fail = 1; srv_response(f, &last); allow_for(&al, last); snprintf(what, sizeof what, "initiate response %02X for an object of %u bytes", f[0], H.os); break;
    case D_SIZE_LESS:   H.os = (uint32_t)H.t.size - 1; H.may_fail = 1;  srv_response(f, &last); allow_for(&al, last); snprintf(what, sizeof what, "initiate response %02X for an object of %u bytes", f[0], H.os); break;
    case D_EXP_FOR_SEG: H.os = 4; H.may_fail = 1;                        srv_response(f, &last); allow_for(&al, last); snprintf(what, sizeof what, "expedited response %02X (4 bytes)", f[0]); break;
    case D_SEG_FOR_EXP: H.force_seg = 1; H.may_fail = 1;                 srv_response(f, &last); allow_for(&al, last); snprintf(what, sizeof what, "segmented initiate response for %u bytes", H.os); break;
    case D_MORE_DATA:
        H.must_fail = 1;
        if (dv.arg == 0) { H.extra = 2; srv_response(f, &last); allow_for(&al, last); snprintf(what, sizeof what, "final segment %02X without the last-segment flag", f[0]); }
        else { srv_response(f, &last); f[0] = (uint8_t)((f[0] & 0x10) | 1); al.end_fail = 1; al.ignore = 1; al.malformed = 1; al.sig0 = SIG_LEN; snprintf(what, sizeof what, "last segment %02X carrying 7 bytes where %d remain", f[0], H.t.size % 7); }
        break;
    case D_LESS_DATA:
        H.must_fail = 2; srv_response(f, &last); f[0] |= 1; al.end_fail = 1; al.ignore = 1; al.malformed = 1; al.sig0 = SIG_LEN;
        snprintf(what, sizeof what, "segment %02X flagged as last after %u of %u bytes", f[0], H.off, H.os); break;
    default:
        srv_response(f, &last); allow_for(&al, last);
        snprintf(what, sizeof what, "%s response %02X", H.must_fail || H.may_fail || H.extra ? "the" : "the conforming", f[0]); break;
    }
    do_rx(f); react(&al, what);
    return H.active && !FAILED;
}

static void idle_gap(int g)
{
    for (int i = 0; i < g && !FAILED; i++) { do_tick(); expect_quiet("while the client is idle", "csdo-callback-count", 0); }
}

/* deviations applicable at the current step of the (so far conforming) transfer */
#define N_OWN_CODES 6
static int skip_mask, only_dev;
static int menu(Dev *out, int has_next, int mode)
{
    int n = 0, k = H.k, S = H.t.size, CH = H.t.dir == UP ? T_CHUNK(H.t) : 7, K = S > 4 ? 1 + (S + CH - 1) / CH : 1, m = 0;
    Dev all[40];
#define ADD(kind_, arg_) do { all[m].kind = (kind_); all[m].k = k; all[m].arg = (arg_); m++; } while (0)
    if (mode == 2) {                 /* end variants of a short first transfer */
        if (k == K - 1) { ADD(D_ABORT, 0); ADD(D_ABORT, 1); ADD(D_SILENT, 0); if (has_next) ADD(D_LATE_NEXT, 0); }
    } else {
        ADD(D_ABORT, 0); for (int a = 1; a <= N_OWN_CODES; a++) ADD(D_ABORT, a); ADD(D_ABORT_IDX, 0); ADD(D_ABORT_SUB, 0); ADD(D_SILENT, 0); ADD(D_LATE_IDLE, 0);
        if (has_next) ADD(D_LATE_NEXT, 0);
        ADD(D_BUSYREQ, 0);
        if (k == 0) { ADD(D_CHAIN, 0); ADD(D_CHAIN, 1); }           /* conforming server, the completion callback requests an upload / a download */
        ADD(D_CHAIN, 2); ADD(D_CHAIN, 5);                          /* ... after a server abort at this step / after the timeout at this step */
        if (k >= 1) ADD(D_TOGGLE, 0);
        for (int a = 0; a < 5; a++) if (!foreign_expected(a)) ADD(D_FOREIGN, a);
        if (H.t.dir == UP && k == 0) { ADD(D_SIZE_MORE, 0); if (S > 1) ADD(D_SIZE_LESS, 0); if (S > 5) ADD(D_EXP_FOR_SEG, 0); if (S <= 4) ADD(D_SEG_FOR_EXP, 0); }
        if (H.t.dir == UP && k >= 1) { if (k == K - 1) { ADD(D_MORE_DATA, 0); if (S - (K - 2) * CH < 7) ADD(D_MORE_DATA, 1); } else ADD(D_LESS_DATA, 0); }
    }
#undef ADD
    for (int i = 0; i < m; i++) {
        if ((skip_mask >> all[i].kind) & 1) continue;
        if (only_dev >= 0 && all[i].kind != only_dev) continue;
        out[n++] = all[i];
    }
    return n;
}

/* ------------------------------------------------------------------ end of a sequence */
static void leaf(void)
{
    label();
    /* idle tail: nothing may happen any more (leftover timers, duplicate callbacks) */
    for (int i = 0; i < H.t.to + 2 && i < 8 && !FAILED; i++) { do_tick(); expect_quiet("after the last transfer of the sequence", "csdo-callback-count", 0); }
    for (int i = 0; i <= H.seq && !FAILED; i++) {
        check_guards(i);
        if (!FAILED && H.dirs[i] == UP && H.done[i] == 1 && H.code[i] == 0) check_content(i, H.fin_os[i], " (checked again at the end of the sequence)");
        if (!FAILED && H.done[i] != 1) FAIL("csdo-callback-count", "transfer %d of the sequence got %d completion callbacks", i, H.done[i]);
    }
    appt_drop();
    if (TPDO_MODE) { nc_nmt(128, 0); for (int k = 0; k < 3; k++) w_tick(&Node, 1); w_obs_clear(); }
    if (!FAILED) { int a = tmr_used_act(), t = tmr_used_tim(); if (a != H.act_init || t != H.tim_init) FAIL("csdo-timer-leak", "at the end of the sequence %d timer action(s) / %d event(s) are in use, %d / %d initially", a, t, H.act_init, H.tim_init); }
    if (mc_verbose) { char b[400]; cid_text(b, sizeof b); mc_log("  sequence: %s\n", b); }
    case_close();
}

/* ------------------------------------------------------------------ enumeration with shared prefixes */
/* devmode 0 conforming, 1 every deviation, 2 end variants; ncand[u]: candidates used when u deviations were already spent in the sequence */
typedef struct { const TSpec *cand; int ncand[3]; int devmode; int gaps; } Level;
static Level LV[MAXSEQ]; static int NLV, MAXDEV;
static void level(int lv, const TSpec *cand, int n0, int n1, int n2, int devmode, int gaps)
{
    LV[lv].cand = cand; LV[lv].ncand[0] = n0; LV[lv].ncand[1] = n1; LV[lv].ncand[2] = n2; LV[lv].devmode = devmode; LV[lv].gaps = gaps;
    if (NLV < lv + 1) NLV = lv + 1;
}

static void enum_level(int lv, int used)
{
    if (lv == NLV) { leaf(); return; }
    Snap *Q = &SN[lv][0], *P = &SN[lv][1];
    const Level *L = &LV[lv];
    int pto = lv ? H.t.to : 0, ng = (lv && L->gaps) ? 4 : 1, gl[4] = { 0, pto - 1, pto, pto + 1 };
    int has_next = lv + 1 < NLV, budget = MAXDEV - used;
    snap_save(Q);
    for (int gi = 0; gi < ng; gi++) for (int ci = 0; ci < L->ncand[used > 2 ? 2 : used]; ci++) {
        const TSpec *t = &L->cand[ci]; int act;
        if (mc_deadline_hit()) return;
        snap_restore(Q);
        cid_set(lv, t, NODEV, gl[gi]); label();
        idle_gap(gl[gi]); if (FAILED) { case_close(); continue; }
        tr_prepare(lv, t);
        if (L->devmode == 1 && budget > 0 && !((skip_mask >> D_IDLE_BEFORE) & 1) && (only_dev < 0 || only_dev == D_IDLE_BEFORE)) {
            snap_save(P);
            for (int a = 0; a < 5; a++) {
                Dev dv = { D_IDLE_BEFORE, -1, a }; uint8_t f[8];
                snap_restore(P); cid_dev(lv, dv); label();
                foreign(a, f); idle_rx(f, "when a response arrives while the client is idle");
                if (!FAILED) { tr_request(); act = H.active && !FAILED; while (act) act = tr_step(NODEV); }
                if (FAILED) { case_close(); continue; }
                enum_level(lv + 1, used + 1);
            }
            snap_restore(P); cid_dev(lv, NODEV); label();
        }
        tr_request(); if (FAILED) { case_close(); continue; }
        act = H.active;
        int bad = 0;
        while (act) {
            if (L->devmode && budget > 0) {
                Dev dl[40]; int nd = menu(dl, has_next, L->devmode);
                if (nd) {
                    snap_save(P);
                    for (int d = 0; d < nd; d++) {
                        if (mc_deadline_hit()) return;
                        snap_restore(P); cid_dev(lv, dl[d]); label();
                        act = tr_step(dl[d]); while (act) act = tr_step(NODEV);
                        if (FAILED) { case_close(); continue; }
                        enum_level(lv + 1, used + 1);
                    }
                    snap_restore(P); cid_dev(lv, NODEV); label();
                }
            }
            act = tr_step(NODEV);
            if (FAILED) { case_close(); bad = 1; break; }
        }
        if (!bad) enum_level(lv + 1, used);
    }
}

/* one sequence from the initial state, no sharing (replay, special cases) */
static void run_sequence(const int *cid, int n)
{
    int nt = n >= 2 ? cid[1] : 0;
    if (nt > MAXSEQ) nt = MAXSEQ;
    if (2 + 8 * nt > n) nt = (n - 2) / 8;
    snap_restore(&S0); FAILED = 0;
    memcpy(CID, cid, sizeof(int) * (size_t)(2 + 8 * nt)); cid_n = nt; label();
    for (int i = 0; i < nt && !FAILED; i++) {
        const int *c = cid + 2 + 8 * i; TSpec t = { c[0], c[1], c[2], c[3] }; Dev dv = { c[4], c[5], c[6] }; int act, applied = 0;
        if (t.size < 1 || t.size > MAXSIZE || t.to < 1 || t.delay < 0) { fprintf(stderr, "c19: bad case\n"); return; }
        mc_log("  --- transfer %d: gap %d, %s %d bytes, timeout %d, server delay %d (%d data bytes per segment), deviation %s at step %d (arg %d)\n", i, c[7], t.dir == UP ? "upload" : "download", t.size, t.to, T_DELAY(t), T_CHUNK(t), DEVNAME[dv.kind % D_NKINDS], dv.k, dv.arg);
        idle_gap(c[7]); if (FAILED) break;
        tr_prepare(i, &t);
        if (dv.kind == D_IDLE_BEFORE) { uint8_t f[8]; foreign(dv.arg, f); idle_rx(f, "when a response arrives while the client is idle"); if (FAILED) break; }
        tr_request(); if (FAILED) break;
        act = H.active;
        while (act) {
            if (!applied && dv.kind != D_NONE && dv.kind != D_IDLE_BEFORE && H.k == dv.k) { applied = 1; act = tr_step(dv); }
            else act = tr_step(NODEV);
        }
    }
    if (FAILED) { if (mc_verbose) { char b[400]; cid_text(b, sizeof b); mc_log("  sequence: %s\n", b); } case_close(); }
    else leaf();
}

/* ------------------------------------------------------------------ disabled client (part D) */
static void disabled_case(int variant, int dir, int size)
{
    React r; CO_ERR err; CO_CSDO *c; uint8_t f[8]; TSpec t = { dir, size, 5, 0 };
    snap_restore(&S0); FAILED = 0;
    CID[0] = 3; CID[1] = -1; CID[2] = variant; CID[3] = dir; CID[4] = size; cid_n = 0; mc_case_v(CID, 5);
    if (variant & 1) (*pCobTx) |= 0x80000000u;
    if (variant & 2) (*pCobRx) |= 0x80000000u;
    w_obs_clear(); nc_nmt(0x82, 0); mc_steps++;              /* reset communication: 1280h is read again */
    tr_prepare(0, &t);
    H.act0 = tmr_used_act(); H.tim0 = tmr_used_tim();
    c = COCSdoFind(&Node, C19_CLIENT);
    if (c != 0) FAIL("csdo-disabled", "COCSdoFind returns the client although 1280h:1 = %08X, 1280h:2 = %08X", (*pCobTx), (*pCobRx));
    w_obs_clear();
    if (dir == UP) err = COCSdoRequestUpload(&Node.CSdo[C19_CLIENT], CO_DEV(H.idx, H.sub), UB[0] + GUARD, (uint32_t)size, csdo_cb, 5 * MSPT);
    else           err = COCSdoRequestDownload(&Node.CSdo[C19_CLIENT], CO_DEV(H.idx, H.sub), UB[0] + GUARD, (uint32_t)size, csdo_cb, 5 * MSPT);
    mc_steps++;
    if (mc_verbose) { char w[64]; snprintf(w, sizeof w, "request on the disabled client -> %d", (int)err); log_obs(w); }
    observe(&r);
    if (!FAILED && err == CO_ERR_NONE) FAIL("csdo-disabled", "%s request accepted although the client is disabled (1280h:1 = %08X, 1280h:2 = %08X)", dir == UP ? "upload" : "download", (*pCobTx), (*pCobRx));
    if (!FAILED && (r.ncb || r.nreq || r.nabort || OBS.ntx)) FAIL("csdo-disabled", "refused request on the disabled client caused %d callback(s), %d frame(s)", r.ncb, OBS.ntx);
    for (int a = 0; a < 5 && !FAILED; a++) { foreign(a, f); do_rx(f); expect_quiet("on the disabled client", "csdo-disabled", 0); }
    for (int i = 0; i < 8 && !FAILED; i++) { do_tick(); expect_quiet("on the disabled client", "csdo-disabled", 0); }
    if (!FAILED) check_guards(0);
    if (!FAILED && (tmr_used_act() != H.act0 || tmr_used_tim() != H.tim0)) FAIL("csdo-timer-leak", "refused request on the disabled client leaves a timer behind");
    H.trace ^= (uint64_t)err * 77;
    case_close();
}

/* ------------------------------------------------------------------ configurations */
#define N_SHARD_A 8
#define N_SHARD_B 4
static int SIZES[320], NSIZES;
static const int PROF[4][2] = { {2, 0}, {2, 1}, {5, 0}, {5, 4} };         /* timeout, server delay */
static const TSpec PROBE[8] = { {UP, 12, 5, 4}, {DOWN, 12, 5, 4}, {UP, 3, 5, 4}, {DOWN, 3, 5, 4}, {UP, 3, 2, 1}, {UP, 12, 2, 1}, {DOWN, 3, 2, 1}, {DOWN, 12, 2, 1} };
static const TSpec FIRST[8] = { {UP, 3, 2, 0}, {UP, 12, 2, 0}, {DOWN, 3, 2, 0}, {DOWN, 12, 2, 0}, {UP, 3, 5, 0}, {UP, 12, 5, 0}, {DOWN, 3, 5, 0}, {DOWN, 12, 5, 0} };
static TSpec CAND[7 * 320]; static int NCAND;

static void all_candidates(int dir, int shard, int nshard)
{
    int smax = mc_opt("smax", MAXSIZE), smin = mc_opt("smin", 1);
    NCAND = 0;
    for (int i = 0; i < NSIZES; i++) if (i % nshard == shard && SIZES[i] <= smax && SIZES[i] >= smin) {
        for (int p = 0; p < 4; p++) { TSpec t = { dir, SIZES[i], PROF[p][0], PROF[p][1] }; CAND[NCAND++] = t; }
        if (dir == UP && SIZES[i] > 4) {          /* servers that do not fill their segments */
            TSpec t6 = { dir, SIZES[i], 5, WITH_CHUNK(0, 6) }; CAND[NCAND++] = t6;
            if (SIZES[i] <= 40) { TSpec t4 = { dir, SIZES[i], 5, WITH_CHUNK(0, 4) }, t1 = { dir, SIZES[i], 2, WITH_CHUNK(1, 1) }; CAND[NCAND++] = t4; CAND[NCAND++] = t1; }
        }    }
}

static void setup(void)
{
    w_regions_clear();
    MSPT = mc_opt("slow", 0) ? 10 : 1;
    nc_defaults(); NC.csdo = C19_CLIENT ? 2 : 1; NC.freq = 1000 / MSPT;
    TPDO_MODE = mc_opt("tpdo", 0);
    if (TPDO_MODE) { NC.n_tpdo = 1; NC.tpdo[0].present = 1; NC.tpdo[0].cobid = 0x40000181u; NC.tpdo[0].type = 254; NC.tpdo[0].event = (uint16_t)(2 * MSPT); NC.tpdo[0].nmap = 1; NC.tpdo[0].map[0] = NC_MAP(0x2100, 0, 8); }
    if (mc_opt("pool", 0) > 0) NC.tmr_n = mc_opt("pool", 0);      /* --opt pool=1: a timer pool sized exactly for the one timeout the client needs */
    nc_build();
#if C19_CLIENT
    pCobTx = &Csdo2CobTx; pCobRx = &Csdo2CobRx; pSrvNode = &Csdo2Node;
#else
    pCobTx = &CsdoCobTx; pCobRx = &CsdoCobRx; pSrvNode = &CsdoNode;
#endif
    memset(&H, 0, sizeof H); memset(UB, 0, sizeof UB); memset(UBsz, 0, sizeof UBsz);
    W_REG_NOHASH(H); W_REG_NOHASH(UB); W_REG_NOHASH(UBsz);
    TXID = (*pCobTx) + (*pSrvNode); RXID = (*pCobRx) + (*pSrvNode);
    CS = COCSdoFind(&Node, C19_CLIENT);
    if (CS == 0) { fprintf(stderr, "c19: SDO client 0 not available in the world\n"); exit(2); }
    H.act_init = tmr_used_act(); H.tim_init = tmr_used_tim(); H.seq = -1; H.appt = -1; APPT_MODE = mc_opt("appt", 0);
    w_obs_clear();
    if (!S0.w) { snap_init(&S0); for (int i = 0; i < MAXSEQ; i++) { snap_init(&SN[i][0]); snap_init(&SN[i][1]); } }
    snap_save(&S0);
    NSIZES = 0;
    for (int s = 1; s <= 300; s++) SIZES[NSIZES++] = s;
    SIZES[NSIZES++] = 889; SIZES[NSIZES++] = 1000; SIZES[NSIZES++] = 1999; SIZES[NSIZES++] = 2000;
    skip_mask = mc_opt("skip", 0); only_dev = mc_opt("only", -1); sigdev = mc_opt("sigdev", 0); noleak = mc_opt("noleak", 0);
    memset(CID, 0, sizeof CID);
}

static void special_seq(int n, const int (*tr)[8])
{
    int c[2 + 8 * MAXSEQ]; c[0] = 3; c[1] = n;
    for (int i = 0; i < n; i++) memcpy(c + 2 + 8 * i, tr[i], 8 * sizeof(int));
    run_sequence(c, 2 + 8 * n);
}

static const TSpec THIRD[2] = { {UP, 3, 5, 4}, {DOWN, 12, 5, 4} };   /* third transfer; only the first one once two deviations are spent */
static void run_cfg(int cfg, int tier)
{
    setup();
    memset(LV, 0, sizeof LV); NLV = 0;
    if (cfg < 2 * N_SHARD_A) {
        /* part A.  quick: one deviation per sequence, in the first (any size) or in the second (probe) transfer;
         * thorough: three transfers, two deviations */
        CID[0] = 0;
        all_candidates(cfg & 1, cfg >> 1, N_SHARD_A);
        level(0, CAND, NCAND, NCAND, NCAND, 1, 0);
        if (!tier) { MAXDEV = 1; level(1, PROBE, 8, 8, 8, 1, 1); }
        else       { MAXDEV = 2; level(1, PROBE, 8, mc_opt("probes2", 2), 0, 1, 1); level(2, THIRD, 2, 2, 1, 0, 1); }
        enum_level(0, 0);
    } else if (cfg < 2 * N_SHARD_A + 2 * N_SHARD_B) {
        /* part B.  a short first transfer in every end variant, then every size (thorough: with every deviation, and a third transfer) */
        int c = cfg - 2 * N_SHARD_A;
        CID[0] = 1;
        all_candidates(c & 1, c >> 1, N_SHARD_B);
        MAXDEV = 2;
        level(0, FIRST, 8, 8, 8, 2, 0);
        level(1, CAND, NCAND, NCAND, NCAND, tier ? 1 : 0, 1);
        if (tier) level(2, THIRD, 1, 1, 1, 0, 1);
        enum_level(0, 0);
    } else if (cfg == 2 * N_SHARD_A + 2 * N_SHARD_B) {
        /* part C.  probe transfers only, a deviation in each of the first two */
        CID[0] = 2;
        MAXDEV = 2;
        level(0, FIRST, 8, 8, 8, 1, 0);
        level(1, PROBE, 8, 8, 8, 1, 1);
        if (tier) level(2, PROBE, 8, 8, 8, 0, 1);
        enum_level(0, 0);
    } else {                                                     /* part D */
        for (int dir = 0; dir < 2; dir++) for (int si = 0; si < 2; si++) {
            int S = si ? 12 : 3;
            /* 70 s timeout: silence must be reported after 70000 ticks, an answer after 65.6 s is in time */
            const int a[1][8] = { { dir, S, 70000, 0, D_SILENT, 0, 0, 0 } };           special_seq(1, a);
            const int b[1][8] = { { dir, S, 70000, 65600, D_NONE, 0, 0, 0 } };         special_seq(1, b);
            /* a long transfer behind a short one must not be cut short by anything the short one left behind */
            for (int g = 0; g < 3; g++) for (int dv = 0; dv < 2; dv++) {
                const int c[2][8] = { { dir, S, 5, 0, dv ? D_ABORT : D_NONE, 0, 0, 0 }, { !dir, 12, 1000, 100, D_NONE, 0, 0, g * 3 } };   special_seq(2, c);
                const int d[2][8] = { { !dir, 12, 2, 0, dv ? D_ABORT : D_NONE, 1, 0, 0 }, { dir, S, 70000, 300, D_NONE, 0, 0, g } };       special_seq(2, d);
            }
        }
        for (int v = 1; v < 4; v++) for (int dir = 0; dir < 2; dir++) { static const int sz[4] = { 1, 4, 5, 300 }; for (int s = 0; s < 4; s++) disabled_case(v, dir, sz[s]); }
    }
}

static void run_case(const int *c, int n)
{
    setup();
    if (n < 3) return;
    if (c[1] == 3 && c[2] == -1 && n >= 6) disabled_case(c[3], c[4], c[5]);
    else run_sequence(c + 1, n - 1);
}

static const char *cfg_name(int c)
{
    static char b[80];
    if (c < 2 * N_SHARD_A) snprintf(b, sizeof b, "A: every %s (shard %d/%d) + probe", c & 1 ? "download" : "upload", c >> 1, N_SHARD_A);
    else if (c < 2 * N_SHARD_A + 2 * N_SHARD_B) snprintf(b, sizeof b, "B: short transfer, then every %s (shard %d/%d)", c & 1 ? "download" : "upload", (c - 2 * N_SHARD_A) >> 1, N_SHARD_B);
    else if (c == 2 * N_SHARD_A + 2 * N_SHARD_B) snprintf(b, sizeof b, "C: deviations in the second transfer");
    else snprintf(b, sizeof b, "D: 70 s timeout, leftovers, disabled client");
    return b;
}
static const mc_enum E = { "C19", "c19", 2 * N_SHARD_A + 2 * N_SHARD_B + 2, cfg_name, run_cfg, run_case };
int main(int argc, char **argv) { return mc_enum_main(argc, argv, &E); }
