/* node_common.h - configurable "one of everything" node shared by C09..C16, C20, C01 clusters.
 * Set NC (configuration) then call nc_build(); all mutable memory is registered for snapshots. */
#ifndef NODE_COMMON_H
#define NODE_COMMON_H
#include <stdio.h>
#include "mc.h"
#include "world.h"
#include "od.h"

#define NC_OD_MAX 200
#define NC_TMR    12

typedef struct {
    uint8_t  node_id; uint32_t freq; int tmr_n;
    int      hbprod;  uint16_t hb_time;                                   /* 1017h present?, initial value (ms)  */
    int      n_hbc;   struct { uint8_t node; uint16_t time; } hbc[4];     /* 1016h entries                       */
    int      hbc_count_override;                                          /* >0: value of 1016h:0 (may exceed n) */
    int      sync;    uint32_t sync_id, sync_cycle;                       /* 1005h/1006h                         */
    int      emcy;    uint32_t emcy_id; int hist;                         /* 1014h, 1003h depth (0 = absent)     */
    int      n_rpdo;  struct { int present; uint32_t cobid; uint8_t type; uint8_t nmap; uint32_t map[8]; int nomap; } rpdo[4];
    int      n_tpdo;  struct { int present; uint32_t cobid; uint8_t type; uint16_t inhibit, event; uint8_t nmap; uint32_t map[8]; int nomap; } tpdo[4];
    int      para;                                                       /* 1010h:1 = communication parameter group holding 1017h, stored at NVM offset 40h */
    int      sdo_srv; int csdo; int sdo_dyn;                             /* sdo_dyn: 1200h:1/:2 writable with the SDO-id type */
    int      sync_no_cycle;                                                /* 1005h without 1006h */
    int      operational;                                                 /* enter OPERATIONAL after start       */
    int      no_start;                                                    /* leave the node in INIT              */
} NodeCfg;
static NodeCfg NC;

/* ---- world ---- */
static CO_NODE     Node;
static CO_OBJ      OD[NC_OD_MAX];
static uint8_t     ErrReg;
static uint8_t     SdoBuf[CO_SSDO_N * CO_SDO_BUF_BYTE];
static CO_TMR_MEM  TMem[NC_TMR];
static uint16_t    HbTime;
static uint8_t     HbcNum;
static CO_HBCONS   Hbc[4];
static uint32_t    SyncId, SyncCycle, EmcyId;
static uint8_t     HistNum; static uint32_t Hist[8];
static CO_EMCY_TBL EmcyTbl[CO_EMCY_N];
/* PDO communication / mapping parameters (all referenced so that they can be inspected) */
static uint8_t     H8;
static uint32_t    RpCob[4], TpCob[4], RpMap[4][8], TpMap[4][8];
static uint8_t     RpType[4], TpType[4], RpNum[4], TpNum[4];
static uint16_t    TpInh[4], TpEvt[4];
/* application objects */
static uint8_t     A8, P8, B8[8];
static uint16_t    A16, P16, W16[4];
static uint32_t    A32, P32, N32, R32, W32;
static CO_PARA     NcPara; static uint16_t HbDefault;
static uint32_t    CsdoCobTx, CsdoCobRx; static uint8_t CsdoNode;
static uint32_t    Csdo2CobTx, Csdo2CobRx; static uint8_t Csdo2Node;
static uint32_t    SsdoRx, SsdoTx;
static uint8_t     DomData[20]; static CO_OBJ_DOM DomObj;
static CO_NODE_SPEC NcSpec;

#define NC_KEY_A8   CO_KEY(0x2100, 0, CO_OBJ___APRW)
#define NC_KEY_A16  CO_KEY(0x2101, 0, CO_OBJ___APRW)
#define NC_KEY_A32  CO_KEY(0x2102, 0, CO_OBJ___APRW)
#define NC_KEY_P8   CO_KEY(0x2110, 0, CO_OBJ____PRW)
#define NC_KEY_P16  CO_KEY(0x2111, 0, CO_OBJ____PRW)
#define NC_KEY_P32  CO_KEY(0x2112, 0, CO_OBJ____PRW)
#define NC_MAP(idx, sub, bits) CO_LINK(idx, sub, bits)

static void nc_defaults(void)
{
    memset(&NC, 0, sizeof NC);
    NC.node_id = 1; NC.freq = 1000; NC.tmr_n = NC_TMR; NC.sdo_srv = 1;
}

/* nc_prepare(): memory, dictionary and snapshot regions, everything before CONodeInit; nc_start(): CONodeInit (+ start) */
static void nc_prepare(void)
{
    OdB b; int i, k;
    w_reset(NC.freq);
    memset(&Node, 0, sizeof Node); memset(TMem, 0, sizeof TMem); memset(SdoBuf, 0, sizeof SdoBuf); ErrReg = 0;
    memset(Hbc, 0, sizeof Hbc); memset(Hist, 0, sizeof Hist); HistNum = 0;
    memset(RpMap, 0, sizeof RpMap); memset(TpMap, 0, sizeof TpMap);
    A8 = 0x11; P8 = 0x22; A16 = 0x3344; P16 = 0x5566; A32 = 0x778899AA; P32 = 0xBBCCDDEE; N32 = 0x01020304; R32 = 0x0A0B0C0D; W32 = 0x0E0F1011;
    for (i = 0; i < 8; i++) B8[i] = (uint8_t)(0xC0 + i);
    for (i = 0; i < 4; i++) W16[i] = (uint16_t)(0xD0D0 + 0x101 * i);
    od_init(&b, OD, NC_OD_MAX); od_mandatory(&b, &ErrReg);
    if (NC.sdo_srv && !NC.sdo_dyn) od_sdo_server0(&b);
    if (NC.sdo_srv && NC.sdo_dyn) {
        SsdoRx = 0x600u + NC.node_id; SsdoTx = 0x580u + NC.node_id;
        od_add(&b, CO_KEY(0x1200, 0, CO_OBJ_D___R_), CO_TUNSIGNED8,  (CO_DATA)2);
        od_add(&b, CO_KEY(0x1200, 1, CO_OBJ_____RW), CO_TSDO_ID, (CO_DATA)&SsdoRx);
        od_add(&b, CO_KEY(0x1200, 2, CO_OBJ_____RW), CO_TSDO_ID, (CO_DATA)&SsdoTx);
    }
#if CO_SSDO_N > 1
    if (NC.sdo_srv > 1) {                                        /* second SDO server on 640h/5C0h + node id */
        od_add(&b, CO_KEY(0x1201, 0, CO_OBJ_D___R_), CO_TUNSIGNED8,  (CO_DATA)2);
        od_add(&b, CO_KEY(0x1201, 1, CO_OBJ_DN__R_), CO_TUNSIGNED32, (CO_DATA)0x640);
        od_add(&b, CO_KEY(0x1201, 2, CO_OBJ_DN__R_), CO_TUNSIGNED32, (CO_DATA)0x5C0);
    }
#endif
    if (NC.hist > 0) {
        od_add(&b, CO_KEY(0x1003, 0, CO_OBJ_____RW), CO_TEMCY_HIST, (CO_DATA)&HistNum);
        for (i = 0; i < NC.hist; i++) od_add(&b, CO_KEY(0x1003, 1 + i, CO_OBJ_____R_), CO_TEMCY_HIST, (CO_DATA)&Hist[i]);
    }
    if (NC.sync) {
        SyncId = NC.sync_id; SyncCycle = NC.sync_cycle;
        od_add(&b, CO_KEY(0x1005, 0, CO_OBJ_____RW), CO_TSYNC_ID, (CO_DATA)&SyncId);
        if (!NC.sync_no_cycle) od_add(&b, CO_KEY(0x1006, 0, CO_OBJ_____RW), CO_TSYNC_CYCLE, (CO_DATA)&SyncCycle);
    }
    if (NC.emcy) {
        EmcyId = NC.emcy_id;
        od_add(&b, CO_KEY(0x1014, 0, CO_OBJ_____RW), CO_TEMCY_ID, (CO_DATA)&EmcyId);
        for (i = 0; i < CO_EMCY_N; i++) { EmcyTbl[i].Reg = (uint8_t)(i % 3 ? 1 : 2); EmcyTbl[i].Code = (uint16_t)(0x2000 + 0x100 * i); }
    }
    if (NC.n_hbc > 0 || NC.hbc_count_override > 0) {
        HbcNum = (uint8_t)(NC.hbc_count_override > 0 ? NC.hbc_count_override : NC.n_hbc);
        od_add(&b, CO_KEY(0x1016, 0, CO_OBJ_____R_), CO_THB_CONS, (CO_DATA)&HbcNum);
        for (i = 0; i < NC.n_hbc; i++) {
            Hbc[i].NodeId = NC.hbc[i].node; Hbc[i].Time = NC.hbc[i].time; Hbc[i].Tmr = -1;
            od_add(&b, CO_KEY(0x1016, 1 + i, CO_OBJ_____RW), CO_THB_CONS, (CO_DATA)&Hbc[i]);
        }
    }
    if (NC.hbprod) { HbTime = NC.hb_time; od_add(&b, CO_KEY(0x1017, 0, CO_OBJ_____RW), CO_THB_PROD, (CO_DATA)&HbTime); }
    if (NC.para) {
        HbDefault = NC.hb_time;
        NcPara.Offset = 0x40; NcPara.Size = sizeof HbTime; NcPara.Start = (uint8_t *)&HbTime; NcPara.Default = (uint8_t *)&HbDefault;
        NcPara.Type = CO_RESET_COM; NcPara.Ident = (void *)"com"; NcPara.Value = CO_PARA___E;
        od_add(&b, CO_KEY(0x1010, 0, CO_OBJ_D___R_), CO_TPARA_STORE, (CO_DATA)1);
        od_add(&b, CO_KEY(0x1010, 1, CO_OBJ_____RW), CO_TPARA_STORE, (CO_DATA)&NcPara);
        memcpy(&DRV.nvm[0x40], &HbTime, sizeof HbTime);          /* the image the node was shipped with */
    }
    if (NC.csdo) {
        CsdoCobTx = 0x600; CsdoCobRx = 0x580; CsdoNode = 5;   /* the client adds the server node id: requests on 605h, responses on 585h */
        od_add(&b, CO_KEY(0x1280, 0, CO_OBJ_D___R_), CO_TUNSIGNED8, (CO_DATA)3);
        od_add(&b, CO_KEY(0x1280, 1, CO_OBJ_____RW), NC.sdo_dyn ? CO_TSDO_ID : CO_TUNSIGNED32, (CO_DATA)&CsdoCobTx);
        od_add(&b, CO_KEY(0x1280, 2, CO_OBJ_____RW), NC.sdo_dyn ? CO_TSDO_ID : CO_TUNSIGNED32, (CO_DATA)&CsdoCobRx);
        od_add(&b, CO_KEY(0x1280, 3, CO_OBJ_____RW), CO_TUNSIGNED8, (CO_DATA)&CsdoNode);
    }
#if CO_CSDO_N > 1
    if (NC.csdo > 1) {                                        /* second client: server node 6, requests on 606h, responses on 586h */
        Csdo2CobTx = 0x600; Csdo2CobRx = 0x580; Csdo2Node = 6;
        od_add(&b, CO_KEY(0x1281, 0, CO_OBJ_D___R_), CO_TUNSIGNED8, (CO_DATA)3);
        od_add(&b, CO_KEY(0x1281, 1, CO_OBJ_____RW), NC.sdo_dyn ? CO_TSDO_ID : CO_TUNSIGNED32, (CO_DATA)&Csdo2CobTx);
        od_add(&b, CO_KEY(0x1281, 2, CO_OBJ_____RW), NC.sdo_dyn ? CO_TSDO_ID : CO_TUNSIGNED32, (CO_DATA)&Csdo2CobRx);
        od_add(&b, CO_KEY(0x1281, 3, CO_OBJ_____RW), CO_TUNSIGNED8, (CO_DATA)&Csdo2Node);
    }
#endif
    for (i = 0; i < NC.n_rpdo; i++) if (NC.rpdo[i].present) {
        RpCob[i] = NC.rpdo[i].cobid; RpType[i] = NC.rpdo[i].type; RpNum[i] = NC.rpdo[i].nmap;
        od_add(&b, CO_KEY(0x1400 + i, 0, CO_OBJ_D___R_), CO_TUNSIGNED8, (CO_DATA)2);
        od_add(&b, CO_KEY(0x1400 + i, 1, CO_OBJ_____RW), CO_TPDO_ID, (CO_DATA)&RpCob[i]);
        od_add(&b, CO_KEY(0x1400 + i, 2, CO_OBJ_____RW), CO_TPDO_TYPE, (CO_DATA)&RpType[i]);
        if (!NC.rpdo[i].nomap) {
            od_add(&b, CO_KEY(0x1600 + i, 0, CO_OBJ_____RW), CO_TPDO_NUM, (CO_DATA)&RpNum[i]);
            for (k = 0; k < 8; k++) { RpMap[i][k] = NC.rpdo[i].map[k]; od_add(&b, CO_KEY(0x1600 + i, 1 + k, CO_OBJ_____RW), CO_TPDO_MAP, (CO_DATA)&RpMap[i][k]); }
        }
    }
    for (i = 0; i < NC.n_tpdo; i++) if (NC.tpdo[i].present) {
        TpCob[i] = NC.tpdo[i].cobid; TpType[i] = NC.tpdo[i].type; TpNum[i] = NC.tpdo[i].nmap; TpInh[i] = NC.tpdo[i].inhibit; TpEvt[i] = NC.tpdo[i].event;
        od_add(&b, CO_KEY(0x1800 + i, 0, CO_OBJ_D___R_), CO_TUNSIGNED8, (CO_DATA)5);
        od_add(&b, CO_KEY(0x1800 + i, 1, CO_OBJ_____RW), CO_TPDO_ID, (CO_DATA)&TpCob[i]);
        od_add(&b, CO_KEY(0x1800 + i, 2, CO_OBJ_____RW), CO_TPDO_TYPE, (CO_DATA)&TpType[i]);
        od_add(&b, CO_KEY(0x1800 + i, 3, CO_OBJ_____RW), CO_TUNSIGNED16, (CO_DATA)&TpInh[i]);
        od_add(&b, CO_KEY(0x1800 + i, 5, CO_OBJ_____RW), CO_TPDO_EVENT, (CO_DATA)&TpEvt[i]);
        if (!NC.tpdo[i].nomap) {
            od_add(&b, CO_KEY(0x1A00 + i, 0, CO_OBJ_____RW), CO_TPDO_NUM, (CO_DATA)&TpNum[i]);
            for (k = 0; k < 8; k++) { TpMap[i][k] = NC.tpdo[i].map[k]; od_add(&b, CO_KEY(0x1A00 + i, 1 + k, CO_OBJ_____RW), CO_TPDO_MAP, (CO_DATA)&TpMap[i][k]); }
        }
    }
    od_add(&b, NC_KEY_A8,  CO_TUNSIGNED8,  (CO_DATA)&A8);
    od_add(&b, NC_KEY_A16, CO_TUNSIGNED16, (CO_DATA)&A16);
    od_add(&b, NC_KEY_A32, CO_TUNSIGNED32, (CO_DATA)&A32);
    od_add(&b, NC_KEY_P8,  CO_TUNSIGNED8,  (CO_DATA)&P8);
    od_add(&b, NC_KEY_P16, CO_TUNSIGNED16, (CO_DATA)&P16);
    od_add(&b, NC_KEY_P32, CO_TUNSIGNED32, (CO_DATA)&P32);
    for (i = 0; i < 8; i++) od_add(&b, CO_KEY(0x2113, 1 + i, CO_OBJ____PRW), CO_TUNSIGNED8, (CO_DATA)&B8[i]);
    for (i = 0; i < 4; i++) od_add(&b, CO_KEY(0x2114, 1 + i, CO_OBJ____PRW), CO_TUNSIGNED16, (CO_DATA)&W16[i]);
    od_add(&b, CO_KEY(0x2115, 0, CO_OBJ_D_____ | CO_OBJ____PRW), CO_TUNSIGNED32, (CO_DATA)0xD1D2D3D4u);
    for (i = 0; i < 20; i++) DomData[i] = (uint8_t)(0x60 + i);
    DomObj.Offset = 0; DomObj.Size = 20; DomObj.Start = DomData;
    od_add(&b, CO_KEY(0x2130, 0, CO_OBJ_____RW), CO_TDOMAIN, (CO_DATA)&DomObj);
    H8 = 0xC8; od_add(&b, CO_KEY(0xF100, 0, CO_OBJ____PRW), CO_TUNSIGNED8, (CO_DATA)&H8);      /* a mappable object more than 8000h indices above the communication objects */
    od_add(&b, CO_KEY(0x2120, 0, CO_OBJ_____RW), CO_TUNSIGNED32, (CO_DATA)&N32);
    od_add(&b, CO_KEY(0x2121, 0, CO_OBJ____PR_), CO_TUNSIGNED32, (CO_DATA)&R32);
    od_add(&b, CO_KEY(0x2122, 0, CO_OBJ____P_W), CO_TUNSIGNED32, (CO_DATA)&W32);
    NcSpec.NodeId = NC.node_id; NcSpec.Baudrate = 250000; NcSpec.Dict = OD; NcSpec.DictLen = NC_OD_MAX; NcSpec.EmcyCode = NC.emcy ? EmcyTbl : 0;
    NcSpec.TmrMem = TMem; NcSpec.TmrNum = (uint16_t)NC.tmr_n; NcSpec.TmrFreq = NC.freq; NcSpec.Drv = &W_IfDrv; NcSpec.SdoBuf = SdoBuf;
    W_REG(Node); W_REG(OD); W_REG(ErrReg); W_REG(SdoBuf); W_REG(TMem); W_REG(HbTime); W_REG(HbcNum); W_REG(Hbc);
    W_REG(SyncId); W_REG(SyncCycle); W_REG(EmcyId); W_REG(HistNum); W_REG(Hist);
    W_REG(RpCob); W_REG(TpCob); W_REG(RpMap); W_REG(TpMap); W_REG(RpType); W_REG(TpType); W_REG(RpNum); W_REG(TpNum); W_REG(TpInh); W_REG(TpEvt);
    W_REG(H8); W_REG(A8); W_REG(P8); W_REG(B8); W_REG(A16); W_REG(P16); W_REG(W16); W_REG(A32); W_REG(P32); W_REG(N32); W_REG(R32); W_REG(W32);
    W_REG(NcPara); W_REG(HbDefault); W_REG(CsdoCobTx); W_REG(CsdoCobRx); W_REG(CsdoNode); W_REG(Csdo2CobTx); W_REG(Csdo2CobRx); W_REG(Csdo2Node); W_REG(SsdoRx); W_REG(SsdoTx); W_REG(DomData); W_REG(DomObj);
    for (i = 0; i < CO_SSDO_N; i++) w_nohash_range(&Node.Sdo[i].Frm, sizeof Node.Sdo[i].Frm);
    /* these harnesses only use expedited transfers: the server is idle between steps and the multiplexer / abort
     * override latched from the last request are overwritten by the next one before they are read */
    if (CO_SSDO_N == 1) { w_nohash_range(&Node.Sdo[0].Idx, sizeof Node.Sdo[0].Idx); w_nohash_range(&Node.Sdo[0].Sub, sizeof Node.Sdo[0].Sub); w_nohash_range(&Node.Sdo[0].Abort, sizeof Node.Sdo[0].Abort); }
#if USE_CSDO
    for (i = 0; i < CO_CSDO_N; i++) w_nohash_range(&Node.CSdo[i].Frm, sizeof Node.CSdo[i].Frm);
#endif
}

static void nc_start(void)
{
    CONodeInit(&Node, &NcSpec);
    if (!NC.no_start) CONodeStart(&Node);
    if (NC.operational) CONmtSetMode(&Node.Nmt, CO_OPERATIONAL);
}

static void nc_build(void) { nc_prepare(); nc_start(); }

/* ---- helpers ---- */
static void nc_nmt(uint8_t cs, uint8_t target) { uint8_t d[2] = { cs, target }; w_rx(&Node, 0x000, 2, d); }

/* expedited SDO download of `len` bytes; returns 0 = confirmed, else the abort code (or 0xFFFFFFFF if no/odd answer) */
static uint32_t nc_sdo_write(uint16_t idx, uint8_t sub, uint32_t val, int len)
{
    int first = OBS.ntx; uint32_t id = 0x580 + Node.NodeId;
    /* the bytes of an expedited download that carry no data (n of them) are not zero: CiA 301 reserves them, a server must not look at them */
    if (len < 4) val = (val & (0xFFFFFFFFu >> (8 * (4 - len)))) | (0xC35AA500u << (8 * (len - 1)));
    w_rx8(&Node, 0x600 + Node.NodeId, (uint8_t)(0x23 | ((4 - len) << 2)), (uint8_t)idx, (uint8_t)(idx >> 8), sub, (uint8_t)val, (uint8_t)(val >> 8), (uint8_t)(val >> 16), (uint8_t)(val >> 24));
    for (int i = first; i < OBS.ntx && i < W_MAX_TX; i++) if (OBS.tx[i].id == id) {
        if (OBS.tx[i].d[0] == 0x60) return 0;
        if (OBS.tx[i].d[0] == 0x80) return w_get32(OBS.tx[i].d + 4);
    }
    return 0xFFFFFFFFu;
}
/* the application reads (and thereby clears) the node error after every step - unless --opt nopoll=1: the error register of the node is
 * sticky, and an application that never looks at it is legal; nothing a service does may depend on an old, unrelated error */
static int nc_nopoll = -1;
static void nc_poll(void) { if (nc_nopoll < 0) nc_nopoll = mc_opt("nopoll", 0); if (!nc_nopoll) (void)CONodeGetErr(&Node); }

/* segmented SDO download of n <= 7 bytes (one segment), size announced or not; returns 0 if confirmed, else the abort code (0xFFFFFFFF: no or odd answer) */
static uint32_t nc_sdo_write_seg(uint16_t idx, uint8_t sub, const uint8_t *data, int n, int announce)
{
    uint32_t id = 0x580 + Node.NodeId; uint8_t d[7] = { 0x5A, 0x5A, 0x5A, 0x5A, 0x5A, 0x5A, 0x5A }; int first = OBS.ntx, ok = 0;
    memcpy(d, data, (size_t)n);
    w_rx8(&Node, 0x600 + Node.NodeId, (uint8_t)(0x20 | (announce ? 1 : 0)), (uint8_t)idx, (uint8_t)(idx >> 8), sub, (uint8_t)(announce ? n : 0), 0, 0, 0);
    for (int i = first; i < OBS.ntx && i < W_MAX_TX; i++) if (OBS.tx[i].id == id) {
        if (OBS.tx[i].d[0] == 0x60) ok = 1;
        if (OBS.tx[i].d[0] == 0x80) return w_get32(OBS.tx[i].d + 4);
    }
    if (!ok) return 0xFFFFFFFFu;
    first = OBS.ntx;
    w_rx8(&Node, 0x600 + Node.NodeId, (uint8_t)(0x01 | ((7 - n) << 1)), d[0], d[1], d[2], d[3], d[4], d[5], d[6]);
    for (int i = first; i < OBS.ntx && i < W_MAX_TX; i++) if (OBS.tx[i].id == id) {
        if (OBS.tx[i].d[0] == 0x20) return 0;
        if (OBS.tx[i].d[0] == 0x80) return w_get32(OBS.tx[i].d + 4);
    }
    return 0xFFFFFFFFu;
}
/* expedited SDO upload; returns 0 and value, else abort code */
static uint32_t nc_sdo_read(uint16_t idx, uint8_t sub, uint32_t *val)
{
    int first = OBS.ntx; uint32_t id = 0x580 + Node.NodeId;
    w_rx8(&Node, 0x600 + Node.NodeId, 0x40, (uint8_t)idx, (uint8_t)(idx >> 8), sub, 0, 0, 0, 0);
    for (int i = first; i < OBS.ntx && i < W_MAX_TX; i++) if (OBS.tx[i].id == id) {
        if ((OBS.tx[i].d[0] & 0xE3) == 0x43) { uint32_t n = 4 - ((OBS.tx[i].d[0] >> 2) & 3), v = 0; memcpy(&v, OBS.tx[i].d + 4, n); *val = v; return 0; }
        if (OBS.tx[i].d[0] == 0x80) return w_get32(OBS.tx[i].d + 4);
    }
    return 0xFFFFFFFFu;
}
/* frames of the current step with the given identifier */
static int nc_count_tx(uint32_t id) { int n = 0; for (int i = 0; i < OBS.ntx && i < W_MAX_TX; i++) if (OBS.tx[i].id == id) n++; return n; }
static int nc_count_cb(uint8_t kind) { int n = 0; for (int i = 0; i < OBS.ncb && i < W_MAX_CB; i++) if (OBS.cb[i].kind == kind) n++; return n; }
static const WFrame *nc_find_tx(uint32_t id, int nth) { for (int i = 0; i < OBS.ntx && i < W_MAX_TX; i++) if (OBS.tx[i].id == id && nth-- == 0) return &OBS.tx[i]; return 0; }

#endif
