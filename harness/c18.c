/* C18 - the LSS slave follows the CiA 305 state machine.
 * BFS over the real stack (CONodeProcess on 7E5h frames, NMT frames, ticks) in lockstep with a reference
 * LSS slave written from CiA 305 / the property text.
 *
 * What the reference fixes (everything else is an allowed set, the model follows the implementation):
 *   - LSS state {waiting, configuration}: switch-state-global selects the named state; configuration,
 *     inquiry, store and activate services are executed only in configuration state, ignored in waiting state
 *   - switch-state-selective: 44h exactly after vendor, product, revision, serial in this order, all equal
 *     to 1018h:1..4; a mismatch or an out-of-order frame restarts the sequence; only 64..67 touch its progress
 *   - identify-remote-slave: 4Fh exactly after 70..75 in order with the identity inside the ranges; its
 *     progress is separate from the selective sequence
 *   - configure-node-id: 1..127, 255 -> 0, otherwise 1 (pending id unchanged); configure-bit-timing: table 0
 *     and an index with a defined rate -> 0, otherwise 1 (pending rate unchanged)
 *   - store: callback once with the pending values (an unconfigured part: 0 = "unchanged", or the active
 *     value), answer 0 / 2 as the callback succeeds / fails
 *   - every answer: one frame, 7E4h, DLC 8, byte 0 = command specifier, specified bytes only (reserved masked)
 *   - a 7E5h frame never reaches another service or COIfCanReceive
 *   - reset communication / reset node: the stored node id and bit rate are the active ones (boot-up
 *     identifier, Node.NodeId, Node.Baudrate, SDO probe on 600h+id)
 * Left open (all choices accepted): LSS state and pending values after a reset (determined by a behavioural
 * side probe on a copy of the state: inquiry answered? arguments of a store?), sequence progress across a
 * reset, selective frames in configuration state (ignored or processed), answer to 76 (identify
 * non-configured), node id returned by 94 for an unconfigured node (and pending vs. active), reserved bytes,
 * an unstored pending value becoming active at a reset (CiA 305) or not (this stack), everything about
 * bit-timing activation except "no answer, nothing happens in waiting state" (delay 0 included: recorded
 * defect #31 is a liveness matter outside the statement; --opt liveness=1 turns it into an alarm).
 *
 * Environment assumptions: a closed CAN controller receives nothing (frame events are disabled while the
 * driver is closed); during a bit-timing activation the master sends no NMT/SDO traffic and no second
 * activation request (CiA 305 forbids any traffic then; other LSS frames are explored nevertheless);
 * the application's COLssStore/COLssLoad honour the documented contract "argument 0 = leave unchanged"
 * (world.c stores the raw arguments, the harness patches DRV.lss_* accordingly after a successful store).
 *
 * Options: part=1 addressing sub-alphabet, part=2 configuration sub-alphabet (both close), part=0 everything;
 * small=1 fewer argument values; liveness=1 alarm when an activation is not over after twice its delay (#31);
 * reactivate=1 allow a second activation request while one is pending; drvbaud=1 additionally require that
 * the CAN driver was re-enabled with the new rate at the reset (the stack only updates Node.Baudrate). */
#include <stdio.h>
#include <stdlib.h>
#include "mc.h"
#include "world.h"
#include "od.h"

#define LSS_RX 0x7E5u
#define LSS_TX 0x7E4u

static CO_NODE    Node;
static CO_OBJ     OD[24];
static uint8_t    ErrReg;
static uint8_t    SdoBuf[CO_SSDO_N * CO_SDO_BUF_BYTE];
static CO_TMR_MEM TMem[4];

static uint32_t   ID[4];                 /* identity object 1018h:1..4 of this configuration (constant) */
static uint8_t   *Snap;                  /* buffer for the side probe */
static struct WObs ObsKeep;
static int        o_liveness, o_reactivate, o_drvbaud, o_nopoll, o_nostart;

enum { N_PREOP, N_OP, N_STOP, N_ANY, N_INIT };        /* N_INIT: --opt nostart=1, the node is initialised but CONodeStart has not been called yet */

/* ------------------------------------------------------------------ reference LSS slave */
static struct {
    uint8_t  mode;          /* 0 waiting, 1 configuration                                                   */
    uint8_t  sel;           /* set of possible progress values of the selective sequence (bit p: p frames ok) */
    uint8_t  idn;           /* ... of the identify sequence                                                  */
    uint8_t  pend_node;     /* pending node id, 0 = none configured                                          */
    uint8_t  pers_node;     /* persistent node id, 0 = none stored                                           */
    uint8_t  act_node;      /* active node id                                                                */
    uint8_t  nmt;           /* N_*                                                                           */
    uint8_t  activating;    /* bit-timing activation in progress (implementation has not reported its end)   */
    uint8_t  act_rem;       /* liveness option only: ticks until the activation must be over                 */
    uint8_t  pad[3];
    uint32_t pend_baud, pers_baud, act_baud, alt_baud;   /* alt: rate switched to by an activation           */
} M;

/* CiA 305 standard bit timing table (table selector 0) */
static uint32_t ref_rate(int table, int idx)
{
    static const uint32_t T[10] = { 1000000, 800000, 500000, 250000, 125000, 0 /* reserved */, 50000, 20000, 10000, 0 /* automatic */ };
    if (table != 0 || idx < 0 || idx > 9) return 0;
    return T[idx];
}

/* ------------------------------------------------------------------ alphabet */
enum { K_SG, K_SEL, K_IDN, K_NODEID, K_BIT, K_ACT, K_STORE, K_INQ, K_NONCFG, K_UNKNOWN, K_SHORT, K_NMT, K_TICK, K_PROBE };
typedef struct { uint8_t kind; int a, b; } Ev;
static Ev EV[128]; static int NEV;
static void add(int kind, int a, int b) { EV[NEV].kind = (uint8_t)kind; EV[NEV].a = a; EV[NEV].b = b; NEV++; }

static void build_alphabet(void)
{
    static const int NID[] = { 0, 1, 127, 128, 254, 255 }, BIDX[] = { 0, 4, 5, 8, 9, 10 }, NMTCS[] = { 130, 129, 1, 2, 128 };
    /* --opt part=1: addressing sub-alphabet (no configuration services), part=2: configuration sub-alphabet (no
     * selective / identify sequences); both close quickly, the full alphabet (part=0) is explored to a depth bound
     * (thorough: fixpoint).  The two halves interact only through the LSS state, which both contain. */
    int part = mc_opt("part", 0);
    int addr = (part != 2), conf = (part != 1);
    int small = mc_opt("small", 0);     /* fewer argument values: one valid node id besides 255, one valid bit rate */
    NEV = 0;
    add(K_SG, 0, 0); add(K_SG, 1, 0);
    if (addr) for (int k = 0; k < 4; k++) for (int c = 0; c < 3; c++) add(K_SEL, k, c);       /* c: 0 match, 1 match-1, 2 match+1 */
    if (addr) for (int k = 0; k < 6; k++) for (int c = 0; c < 3; c++) add(K_IDN, k, c);
    if (conf) for (unsigned i = 0; i < 6; i++) { if (small && (NID[i] == 1 || NID[i] == 254)) continue; add(K_NODEID, NID[i], 0); }
    if (conf) for (int t = 0; t < 2; t++) for (unsigned i = 0; i < 6; i++) { if (small && (t ? BIDX[i] != 4 : (BIDX[i] == 0 || BIDX[i] == 8 || BIDX[i] == 9))) continue; add(K_BIT, t, BIDX[i]); }
    add(K_ACT, 0, 0); add(K_ACT, 2, 0);
    if (conf) { add(K_STORE, 0, 0); add(K_STORE, 1, 0); }         /* a: the application's store callback fails */
    for (int k = 0; k < 5; k++) add(K_INQ, 90 + k, 0);
    if (mc_opt("nopoll", 0)) add(K_INQ, 94, 1);
    add(K_NONCFG, 0, 0);
    add(K_UNKNOWN, 5, 0);                                         /* command specifier 05h: reserved in CiA 305 */
    add(K_SHORT, 0, 0);                                           /* inquire node id with DLC 1 */
    for (unsigned i = 0; i < 5; i++) add(K_NMT, NMTCS[i], 0);
    add(K_TICK, 0, 0);
    if (mc_opt("nostart", 0)) { add(K_NMT, 130, 1); add(K_NMT, 0, 2); }     /* the application resets the communication through the API (also before the node is started); CONodeStart */
    add(K_PROBE, 1, 0); add(K_PROBE, 127, 0);                     /* SDO upload of 1000h:00 on 600h + id */
}

static uint32_t cls_val(uint32_t match, int c) { return c == 0 ? match : c == 1 ? match - 1u : match + 1u; }

static const char *ev_name(int e)
{
    static char b[96];
    static const char *SELN[] = { "vendor", "product", "revision", "serial" };
    static const char *IDNN[] = { "vendor", "product", "rev-low", "rev-high", "serial-low", "serial-high" };
    static const char *CLS[] = { "match", "match-1", "match+1" };
    const Ev *v = &EV[e];
    switch (v->kind) {
    case K_SG:      snprintf(b, sizeof b, "switch-global(%s)", v->a ? "configuration" : "waiting"); break;
    case K_SEL:     snprintf(b, sizeof b, "selective-%s(%s) [cs %d]", SELN[v->a], CLS[v->b], 64 + v->a); break;
    case K_IDN:     snprintf(b, sizeof b, "identify-%s(%s) [cs %d]", IDNN[v->a], CLS[v->b], 70 + v->a); break;
    case K_NODEID:  snprintf(b, sizeof b, "configure-node-id(%d)", v->a); break;
    case K_BIT:     snprintf(b, sizeof b, "configure-bit-timing(table=%d,index=%d)", v->a, v->b); break;
    case K_ACT:     snprintf(b, sizeof b, "activate-bit-timing(delay=%d)", v->a); break;
    case K_STORE:   snprintf(b, sizeof b, "store-configuration(callback %s)", v->a ? "fails" : "ok"); break;
    case K_INQ:     snprintf(b, sizeof b, "inquire(cs %d)%s", v->a, v->b ? ", the CAN driver refuses the answer" : ""); break;
    case K_NONCFG:  snprintf(b, sizeof b, "identify-non-configured [cs 76]"); break;
    case K_UNKNOWN: snprintf(b, sizeof b, "unknown-cs(%d)", v->a); break;
    case K_SHORT:   snprintf(b, sizeof b, "inquire-node-id-DLC1"); break;
    case K_NMT:     if (v->b) { snprintf(b, sizeof b, "%s", v->b == 1 ? "application: CONmtReset(CO_RESET_COM)" : "application: CONodeStart"); break; }
                    snprintf(b, sizeof b, "nmt(%s)", v->a == 130 ? "reset-communication" : v->a == 129 ? "reset-node" : v->a == 1 ? "start" : v->a == 2 ? "stop" : "enter-pre-operational"); break;
    case K_TICK:    snprintf(b, sizeof b, "tick"); break;
    default:        snprintf(b, sizeof b, "sdo-probe(id=%d)", v->a); break;
    }
    return b;
}

/* ------------------------------------------------------------------ configurations */
static const uint32_t IDENT[3][4] = { { 1, 2, 3, 4 }, { 0, 0, 0, 0 }, { 0xFFFFFFFFu, 0xFFFFFFFFu, 0xFFFFFFFFu, 0xFFFFFFFFu } };
static const char *cfg_name(int c)
{
    static char b[64];
    snprintf(b, sizeof b, "identity=%s node-id=%d", c / 2 == 0 ? "(1,2,3,4)" : c / 2 == 1 ? "(0,0,0,0)" : "(FFFFFFFFh x4)", (c & 1) ? 255 : 1);
    return b;
}

static int build(int cfg)
{
    OdB b; CO_NODE_SPEC spec;
    w_reset(1000);
    memset(&Node, 0, sizeof Node); memset(TMem, 0, sizeof TMem); memset(SdoBuf, 0, sizeof SdoBuf); memset(&M, 0, sizeof M); ErrReg = 0;
    for (int i = 0; i < 4; i++) ID[i] = IDENT[cfg / 2][i];
    od_init(&b, OD, 24); od_mandatory(&b, &ErrReg);
    for (int i = 0; i < 4; i++) od_add(&b, CO_KEY(0x1018, 1 + i, CO_OBJ_D___R_), CO_TUNSIGNED32, (CO_DATA)ID[i]);
    od_sdo_server0(&b);
    spec.NodeId = (cfg & 1) ? 255 : 1; spec.Baudrate = 250000; spec.Dict = OD; spec.DictLen = 24; spec.EmcyCode = 0;
    spec.TmrMem = TMem; spec.TmrNum = 4; spec.TmrFreq = 1000; spec.Drv = &W_IfDrv; spec.SdoBuf = SdoBuf;
    CONodeInit(&Node, &spec);
    o_nostart = mc_opt("nostart", 0);
    if (!o_nostart) CONodeStart(&Node);
    (void)CONodeGetErr(&Node);
    M.mode = 0; M.sel = 1; M.idn = 1; M.act_node = spec.NodeId; M.act_baud = spec.Baudrate; M.nmt = o_nostart ? N_INIT : N_PREOP;
    W_REG(Node); W_REG(OD); W_REG(ErrReg); W_REG(SdoBuf); W_REG(TMem); W_REG(M);
    for (int i = 0; i < CO_SSDO_N; i++) w_nohash_range(&Node.Sdo[i].Frm, sizeof Node.Sdo[i].Frm);
    Snap = realloc(Snap, w_snap_size());
    o_liveness = mc_opt("liveness", 0); o_reactivate = mc_opt("reactivate", 0); o_drvbaud = mc_opt("drvbaud", 0); o_nopoll = mc_opt("nopoll", 0);
    build_alphabet();
    return NEV;
}

/* ------------------------------------------------------------------ sending an LSS request, generic checks */
static const WFrame *Ans; static int NAns;

/* deliver one frame on 7E5h; allowed_cb: callback kind this service may invoke (0 = none) */
static void lss_send(uint8_t dlc, const uint8_t *d, int allowed_cb, int allowed_cb2)
{
    char o[300];
    w_rx(&Node, LSS_RX, dlc, d);
    Ans = 0; NAns = 0;
    w_fmt_obs(o, sizeof o);
    mc_log("    7E5#%02X%02X%02X%02X%02X%02X%02X%02X (dlc %d) -> %s\n", d[0], d[1], d[2], d[3], d[4], d[5], d[6], d[7], dlc, o);
    for (int i = 0; i < OBS.ncb && i < W_MAX_CB; i++) {
        int k = OBS.cb[i].kind;
        if (k == CB_IF_RECEIVE) { mc_fail("lss-forwarded", "the frame on 7E5h (cs %d) was passed on to COIfCanReceive", d[0]); return; }
        if (k != allowed_cb && k != allowed_cb2) { mc_fail("lss-side-effect", "the frame on 7E5h (cs %d) caused callback kind %d (a=%X b=%X)", d[0], k, OBS.cb[i].a, OBS.cb[i].b); return; }
    }
    for (int i = 0; i < OBS.ntx && i < W_MAX_TX; i++) {
        if (OBS.tx[i].id != LSS_TX) { w_fmt_frame(o, sizeof o, &OBS.tx[i]); mc_fail("lss-forwarded", "the frame on 7E5h (cs %d) made another service transmit %s", d[0], o); return; }
        if (!Ans) Ans = &OBS.tx[i];
        NAns++;
    }
    if (NAns > 1) mc_fail("lss-wrong-answer", "%d frames on 7E4h in answer to one request (cs %d)", NAns, d[0]);
}

static void lss_send8(uint8_t cs, uint8_t b1, uint8_t b2, uint8_t b3, uint8_t b4, int cb, int cb2)
{
    uint8_t d[8] = { cs, b1, b2, b3, b4, 0, 0, 0 };
    lss_send(8, d, cb, cb2);
}
static void lss_send32(uint8_t cs, uint32_t v) { lss_send8(cs, (uint8_t)v, (uint8_t)(v >> 8), (uint8_t)(v >> 16), (uint8_t)(v >> 24), 0, 0); }

static void expect_none(const char *why)
{
    char o[64];
    if (NAns) { w_fmt_frame(o, sizeof o, Ans); mc_fail("lss-answer-unexpected", "answer %s although %s", o, why); }
}
/* exactly one well-formed answer with command specifier cs; returns it or NULL (violation recorded) */
static const WFrame *expect_one(uint8_t cs, const char *why)
{
    char o[64];
    if (!NAns) { mc_fail("lss-answer-missing", "no answer although %s (expected 7E4h with cs %d)", why, cs); return 0; }
    if (NAns > 1) return 0;
    if (Ans->dlc != 8 || Ans->d[0] != cs) { w_fmt_frame(o, sizeof o, Ans); mc_fail("lss-wrong-answer", "answer %s: expected DLC 8 and command specifier %d (%s)", o, cs, why); return 0; }
    return Ans;
}

/* advance the set of possible progress values of an n-frame sequence by frame k (m: value acceptable).
 * complete: members for which this frame completes the sequence; other: members that go on without an answer */
static uint8_t seq_advance(uint8_t set, int k, int n, int m, int *complete, int *other)
{
    uint8_t out = 0;
    *complete = 0; *other = 0;
    for (int p = 0; p < n; p++) {
        if (!(set & (1u << p))) continue;
        if (k == 0)            { out |= (uint8_t)(m ? 2u : 1u); (*other)++; }             /* first frame always (re)starts */
        else if (p == k && m)  { if (k == n - 1) (*complete)++; else { out |= (uint8_t)(1u << (k + 1)); (*other)++; } }
        else                   { out |= 1u; (*other)++; }                                 /* mismatch / out of order: restart */
    }
    return out;
}

static int idn_ok(int k, uint32_t v)
{
    switch (k) {
    case 0:  return v == ID[0];
    case 1:  return v == ID[1];
    case 2:  return v <= ID[2];
    case 3:  return v >= ID[2];
    case 4:  return v <= ID[3];
    default: return v >= ID[3];
    }
}

static const WCb *find_cb(int kind, int *count)
{
    const WCb *r = 0; int n = 0;
    for (int i = 0; i < OBS.ncb && i < W_MAX_CB; i++) if (OBS.cb[i].kind == kind) { if (!r) r = &OBS.cb[i]; n++; }
    if (count) *count = n;
    return r;
}

/* during a bit-timing switch-over the node is off the bus (controller closed) or in NMT initialisation */
static int node_away(void) { return !DRV.can_active || CONmtGetMode(&Node.Nmt) == CO_INIT; }

/* ------------------------------------------------------------------ side probe after a reset
 * CiA 305 / the statement do not say in which LSS state and with which pending values a slave comes out of a
 * reset communication.  Determined through behaviour on a copy of the state: is an inquiry answered, and which
 * arguments does a store hand to the application. */
static void side_probe_after_reset(uint8_t old_pn, uint32_t old_pb)
{
    ObsKeep = OBS;
    w_save(Snap);
    w_obs_clear();
    w_rx8(&Node, LSS_RX, 94, 0, 0, 0, 0, 0, 0, 0);
    int mode = (OBS.ntx == 1 && OBS.tx[0].id == LSS_TX && OBS.tx[0].d[0] == 94) ? 1 : 0;
    w_restore(Snap);
    w_obs_clear();
    w_rx8(&Node, LSS_RX, 4, 1, 0, 0, 0, 0, 0, 0);
    w_obs_clear();
    w_rx8(&Node, LSS_RX, 23, 0, 0, 0, 0, 0, 0, 0);
    int n; const WCb *c = find_cb(CB_LSS_STORE, &n);
    uint32_t pb = c ? c->a : 0; uint8_t pn = c ? (uint8_t)c->b : 0;
    w_restore(Snap);                                               /* (restores the model as well: assign afterwards) */
    OBS = ObsKeep;
    M.mode = (uint8_t)mode;
    mc_log("    side probe: LSS state after the reset = %s, store would pass (baud %u, node %u)\n", M.mode ? "configuration" : "waiting", pb, pn);
    if (n != 1) { mc_fail("lss-store-args", "after the reset, switch-global(configuration) + store called the store callback %d times", n); return; }
    if (pn != 0 && pn != old_pn && pn != M.act_node) { mc_fail("lss-store-args", "after the reset a store passes node id %u (pending before the reset %u, active %u)", pn, old_pn, M.act_node); return; }
    if (pb != 0 && pb != old_pb && pb != M.act_baud) { mc_fail("lss-store-args", "after the reset a store passes bit rate %u (pending before the reset %u, active %u)", pb, old_pb, M.act_baud); return; }
    M.pend_node = (pn == M.act_node && pn != old_pn) ? 0 : pn;      /* "active value" and "unchanged" are the same thing */
    M.pend_baud = (pb == M.act_baud && pb != old_pb) ? 0 : pb;
}

/* ------------------------------------------------------------------ one step */
static int step(int e)
{
    const Ev *v = &EV[e];
    int is_frame = (v->kind != K_TICK);
    if (is_frame && !DRV.can_active && !(o_reactivate && v->kind == K_ACT)) return MC_SKIP;      /* a closed controller receives nothing - except, with reactivate=1, a repeated activation request
                                                                                                     * (a driver whose Close is a no-op keeps hearing the bus) */

    switch (v->kind) {
    case K_SG:
        lss_send8(4, (uint8_t)v->a, 0, 0, 0, 0, 0);
        expect_none("switch-state-global is unconfirmed");
        M.mode = (uint8_t)v->a;
        break;

    case K_SEL: {
        int k = v->a, m, c, o; uint32_t val = cls_val(ID[k], v->b);
        uint8_t out;
        lss_send32((uint8_t)(64 + k), val);
        m = (val == ID[k]);
        out = seq_advance(M.sel, k, 4, m, &c, &o);
        if (M.mode == 0) {
            if (k < 3) { expect_none("only the serial-number frame of switch-state-selective is answered"); M.sel = out; }
            else if (NAns) {
                if (!c) { mc_fail("lss-answer-unexpected", "44h although the four selective frames did not arrive in order with matching values (possible progress set %02X, serial %s)", M.sel, m ? "matches" : "differs"); break; }
                (void)expect_one(0x44, "the selective sequence is complete");
                M.mode = 1; M.sel = 1;
            } else {
                if (!o) { mc_fail("lss-answer-missing", "no 44h although vendor, product, revision and serial number arrived in order and all match 1018h"); break; }
                M.sel = out;
            }
        } else {                                                   /* configuration state: ignored or processed, both accepted */
            if (k < 3) { expect_none("only the serial-number frame of switch-state-selective is answered"); M.sel |= out; }
            else if (NAns) {
                if (!c) { mc_fail("lss-answer-unexpected", "44h (in configuration state) although the selective sequence is not complete (progress set %02X)", M.sel); break; }
                (void)expect_one(0x44, "the selective sequence is complete");
                M.sel = 1;
            } else M.sel |= out;
        }
        break; }

    case K_IDN: {
        int k = v->a, m, c, o; uint32_t base = ID[k < 2 ? k : k < 4 ? 2 : 3], val = cls_val(base, v->b);
        uint8_t out;
        lss_send32((uint8_t)(70 + k), val);
        m = idn_ok(k, val);
        out = seq_advance(M.idn, k, 6, m, &c, &o);
        if (k < 5) { expect_none("only the last frame of identify-remote-slave is answered"); M.idn = out; }
        else if (NAns) {
            if (!c) { mc_fail("lss-answer-unexpected", "4Fh although the six identify frames did not arrive in order with the identity inside the ranges (possible progress set %02X, serial-high %s)", M.idn, m ? "fits" : "does not fit"); break; }
            (void)expect_one(0x4F, "the identity is inside the requested ranges");
            M.idn = 1;
        } else {
            if (!o) { mc_fail("lss-answer-missing", "no 4Fh although the six identify frames arrived in order and the identity lies inside the requested ranges"); break; }
            M.idn = out;
        }
        break; }

    case K_NODEID: {
        int ok = (v->a >= 1 && v->a <= 127) || v->a == 255;
        const WFrame *f;
        lss_send8(17, (uint8_t)v->a, 0, 0, 0, 0, 0);
        if (M.mode == 0) { expect_none("configure-node-id arrived in waiting state"); break; }
        f = expect_one(17, "configure-node-id arrived in configuration state");
        if (!f) break;
        if (f->d[1] != (ok ? 0 : 1)) { mc_fail("lss-wrong-answer", "configure-node-id(%d) answered with error code %d, expected %d", v->a, f->d[1], ok ? 0 : 1); break; }
        if (ok) M.pend_node = (uint8_t)v->a;
        break; }

    case K_BIT: {
        uint32_t rate = ref_rate(v->a, v->b);
        const WFrame *f;
        lss_send8(19, (uint8_t)v->a, (uint8_t)v->b, 0, 0, 0, 0);
        if (M.mode == 0) { expect_none("configure-bit-timing arrived in waiting state"); break; }
        f = expect_one(19, "configure-bit-timing arrived in configuration state");
        if (!f) break;
        if (f->d[1] != (rate ? 0 : 1)) { mc_fail("lss-wrong-answer", "configure-bit-timing(table %d, index %d) answered with error code %d, expected %d", v->a, v->b, f->d[1], rate ? 0 : 1); break; }
        if (rate) M.pend_baud = rate;
        break; }

    case K_ACT:
        if (M.nmt == N_INIT) return MC_SKIP;                      /* bit-timing activation of a node that is not started: not explored */
        if (M.activating && !o_reactivate) return MC_SKIP;
        if (M.mode == 0) {
            lss_send8(21, (uint8_t)v->a, 0, 0, 0, 0, 0);
            expect_none("activate-bit-timing is unconfirmed");           /* and no callback at all: checked by lss_send */
        } else {
            lss_send8(21, (uint8_t)v->a, 0, 0, 0, CB_MODE_CHANGE, 0);
            expect_none("activate-bit-timing is unconfirmed");
            /* everything else about the switch-over is outside the statement; the model only remembers that the
             * node may be away and which rate it may come back with */
            if (node_away()) { M.activating = 1; M.act_rem = (uint8_t)(2 * v->a); }
            else if (find_cb(CB_MODE_CHANGE, 0)) M.nmt = N_ANY;
            if (M.pend_baud) M.alt_baud = M.pend_baud;
            if (o_liveness && M.activating && M.act_rem == 0) mc_fail("lss-activate-stuck", "activate-bit-timing(delay 0): node left in NMT mode %d with CAN %s and no switch-over pending", Node.Nmt.Mode, DRV.can_active ? "open" : "closed");
        }
        break;

    case K_STORE: {
        int n; const WCb *c; const WFrame *f;
        int old_has = DRV.lss_has; uint32_t old_baud = DRV.lss_baud; uint8_t old_node = DRV.lss_node;
        DRV.lss_store_fail = v->a;
        lss_send8(23, 0, 0, 0, 0, CB_LSS_STORE, 0);
        DRV.lss_store_fail = 0;
        c = find_cb(CB_LSS_STORE, &n);
        if (M.mode == 0) {
            expect_none("store-configuration arrived in waiting state");
            if (n) mc_fail("lss-store-args", "store callback invoked in waiting state");
            break;
        }
        f = expect_one(23, "store-configuration arrived in configuration state");
        if (!f) break;
        if (n != 1) { mc_fail("lss-store-args", "store-configuration invoked the store callback %d times", n); break; }
        if (M.pend_baud ? c->a != M.pend_baud : (c->a != 0 && c->a != M.act_baud)) {
            mc_fail("lss-store-args", "store callback got bit rate %u, the pending (last accepted) bit rate is %u%s", c->a, M.pend_baud, M.pend_baud ? "" : " (none: 0 or the active rate expected)"); break; }
        if (M.pend_node ? c->b != M.pend_node : (c->b != 0 && c->b != M.act_node)) {
            mc_fail("lss-store-args", "store callback got node id %u, the pending (last accepted) node id is %u%s", c->b, M.pend_node, M.pend_node ? "" : " (none: 0 or the active id expected)"); break; }
        if (f->d[1] != (v->a ? 2 : 0)) { mc_fail("lss-wrong-answer", "store-configuration answered with error code %d, expected %d (callback %s)", f->d[1], v->a ? 2 : 0, v->a ? "failed" : "succeeded"); break; }
        if (!v->a) {
            if (c->a) M.pers_baud = c->a;
            if (c->b) M.pers_node = (uint8_t)c->b;
            /* application contract: an argument of 0 leaves that part of the stored configuration unchanged */
            if (c->a == 0) DRV.lss_baud = old_has ? old_baud : M.act_baud;
            if (c->b == 0) DRV.lss_node = old_has ? old_node : M.act_node;
        }
        break; }

    case K_INQ: {
        const WFrame *f;
        if (v->b) DRV.send_fail = 1;                               /* nopoll=1: the answer is refused by the driver, which registers a node error nobody reads */
        lss_send8((uint8_t)v->a, 0, 0, 0, 0, 0, 0);
        DRV.send_fail = 0;
        if (v->b) { expect_none("the CAN driver refused the transmission"); break; }
        if (M.mode == 0) { expect_none("the inquiry arrived in waiting state"); break; }
        f = expect_one((uint8_t)v->a, "the inquiry arrived in configuration state");
        if (!f) break;
        if (v->a < 94) {
            if (w_get32(f->d + 1) != ID[v->a - 90]) mc_fail("lss-wrong-answer", "inquire(cs %d) returned %08X, 1018h:%d is %08X", v->a, w_get32(f->d + 1), v->a - 89, ID[v->a - 90]);
        } else if (M.act_node != 255 && f->d[1] != M.act_node && !(M.pend_node && f->d[1] == M.pend_node)) {
            mc_fail("lss-wrong-answer", "inquire-node-id returned %u, active node id is %u, pending %u", f->d[1], M.act_node, M.pend_node);
        }
        break; }

    case K_NONCFG:
        lss_send8(76, 0, 0, 0, 0, 0, 0);
        if (NAns == 1) {                                           /* not covered by the statement: answer 50h or none */
            if (Ans->dlc != 8 || Ans->d[0] != 0x50) mc_fail("lss-wrong-answer", "identify-non-configured answered with cs %d dlc %d, only 50h is defined", Ans->d[0], Ans->dlc);
            else if (M.act_node != 255 && M.pend_node != 255) mc_fail("lss-answer-unexpected", "50h (non-configured slave) from a node whose active (%u) and pending (%u) node id are valid", M.act_node, M.pend_node);
        }
        break;

    case K_UNKNOWN:
        lss_send8((uint8_t)v->a, 1, 0, 0, 0, 0, 0);
        expect_none("the command specifier is reserved");
        break;

    case K_SHORT: {
        uint8_t d[8] = { 94, 0, 0, 0, 0, 0, 0, 0 };
        lss_send(1, d, 0, 0);
        if (M.mode == 0) expect_none("the (short) inquiry arrived in waiting state");
        else if (NAns == 1 && Ans->d[0] != 94) mc_fail("lss-wrong-answer", "short inquire-node-id answered with cs %d", Ans->d[0]);
        break; }

    case K_NMT: {
        uint8_t d[2] = { (uint8_t)v->a, 0 };
        char o[300];
        if (M.activating) return MC_SKIP;
        if (v->b == 2) {                                           /* CONodeStart: boot-up on the active node id, PRE-OPERATIONAL */
            if (M.nmt != N_INIT) return MC_SKIP;
            CONodeStart(&Node);
            w_fmt_obs(o, sizeof o); mc_log("    CONodeStart -> %s\n", o);
            if (!(OBS.ntx == 1 && OBS.tx[0].id == 0x700u + M.act_node && OBS.tx[0].dlc == 1 && OBS.tx[0].d[0] == 0) && !(OBS.ntx == 0 && M.act_node == 255))
                mc_fail("lss-nodeid-after-reset", "CONodeStart: %s; the active node id is %u", o, M.act_node);
            M.nmt = N_PREOP;
            break;
        }
        if (M.nmt == N_INIT && !v->b) return MC_SKIP;            /* no NMT service before the node is started */
        if (v->b == 1) CONmtReset(&Node.Nmt, CO_RESET_COM); else
        w_rx(&Node, 0x000, 2, d);
        w_fmt_obs(o, sizeof o); mc_log("    NMT cs %d -> %s\n", v->a, o);
        if (v->a == 1) M.nmt = N_OP; else if (v->a == 2) M.nmt = N_STOP; else if (v->a == 128) M.nmt = N_PREOP;
        if (v->a != 129 && v->a != 130) { if (OBS.ntx) mc_fail("lss-side-effect", "NMT command %d made the node transmit %d frame(s)", v->a, OBS.ntx); break; }
        {
            /* admissible node ids / bit rates after the reset */
            uint8_t  a_node[3]; int nn = 0; uint32_t a_baud[4]; int nb = 0, ok = 0; uint8_t got = 0;
            uint8_t old_pn = M.pend_node; uint32_t old_pb = M.pend_baud;
            a_node[nn++] = M.pers_node ? M.pers_node : M.act_node;
            if (M.pend_node) a_node[nn++] = M.pend_node;
            if (M.pers_baud) a_baud[nb++] = M.pers_baud; else { a_baud[nb++] = M.act_baud; if (M.alt_baud) a_baud[nb++] = M.alt_baud; }
            if (M.pend_baud) a_baud[nb++] = M.pend_baud;
            if (OBS.ntx > 1) { mc_fail("lss-nodeid-after-reset", "%d frames after the reset, expected the boot-up message only", OBS.ntx); break; }
            if (M.nmt == N_INIT) {                                 /* not started: no boot-up message, the node id shows in the node itself */
                if (OBS.ntx) { mc_fail("lss-nodeid-after-reset", "a reset before CONodeStart transmits: %s", o); break; }
                for (int i = 0; i < nn; i++) if (Node.NodeId == a_node[i]) { ok = 1; got = a_node[i]; }
            } else
            if (OBS.ntx == 1) {
                const WFrame *f = &OBS.tx[0];
                for (int i = 0; i < nn; i++) if (f->id == 0x700u + a_node[i] && f->dlc == 1 && f->d[0] == 0) { ok = 1; got = a_node[i]; }
            } else for (int i = 0; i < nn; i++) if (a_node[i] == 255) { ok = 1; got = 255; }    /* an unconfigured node may stay silent */
            if (!ok) { mc_fail("lss-nodeid-after-reset", "after the reset: %s; stored node id %u, pending %u, active before %u -> expected boot-up on %03Xh", o, M.pers_node, M.pend_node, M.act_node, 0x700u + a_node[0]); break; }
            if (Node.NodeId != got) { mc_fail("lss-nodeid-after-reset", "boot-up announced node id %u but Node.NodeId is %u", got, Node.NodeId); break; }
            ok = 0; for (int i = 0; i < nb; i++) if (Node.Baudrate == a_baud[i]) ok = 1;
            if (!ok) { mc_fail("lss-baud-after-reset", "Node.Baudrate is %u after the reset; stored bit rate %u, pending %u, active before %u", Node.Baudrate, M.pers_baud, M.pend_baud, M.act_baud); break; }
            if (o_drvbaud && DRV.baud != Node.Baudrate) { mc_fail("lss-baud-after-reset", "the CAN driver still runs at %u although Node.Baudrate is %u after the reset", DRV.baud, Node.Baudrate); break; }
            M.act_node = got; M.act_baud = Node.Baudrate; M.alt_baud = 0;
            M.nmt = (uint8_t)(M.nmt == N_INIT ? N_INIT : N_PREOP); M.sel = 1; M.idn = 1;                 /* a reset restarts the LSS slave like a fresh start (C20): sequences in progress are dropped */
            side_probe_after_reset(old_pn, old_pb);
        }
        break; }

    case K_TICK: {
        char o[300];
        w_tick(&Node, 1);
        w_fmt_obs(o, sizeof o); mc_log("    tick -> %s  (NMT mode %d, CAN %s)\n", o, Node.Nmt.Mode, DRV.can_active ? "open" : "closed");
        if (!M.activating) {
            if (OBS.ntx || OBS.ncb) mc_fail("lss-side-effect", "a tick outside a bit-timing activation caused %s", o);
            break;
        }
        if (OBS.ntx) { mc_fail("lss-side-effect", "frame(s) transmitted during a bit-timing activation: %s", o); break; }
        if (M.act_rem) M.act_rem--;
        if (!node_away()) { M.activating = 0; M.act_rem = 0; M.nmt = N_ANY; }     /* back: the implementation says when */
        if (o_liveness && M.activating && M.act_rem == 0) mc_fail("lss-activate-stuck", "the bit-timing activation is not over after twice the delay: NMT mode %d, CAN %s", Node.Nmt.Mode, DRV.can_active ? "open" : "closed");
        break; }

    default: {                                                     /* K_PROBE */
        uint32_t id = (uint32_t)v->a; char o[300]; int n = 0; const WFrame *f = 0;
        if (M.activating) return MC_SKIP;
        w_rx8(&Node, 0x600u + id, 0x40, 0x00, 0x10, 0x00, 0, 0, 0, 0);
        w_fmt_obs(o, sizeof o); mc_log("    SDO upload 1000h:00 on %03Xh -> %s\n", 0x600u + id, o);
        for (int i = 0; i < OBS.ntx && i < W_MAX_TX; i++) { if (OBS.tx[i].id == 0x580u + id) { f = &OBS.tx[i]; n++; } else { mc_fail("lss-nodeid-after-reset", "SDO request on %03Xh answered on %03Xh", 0x600u + id, OBS.tx[i].id); break; } }
        if (M.act_node != id || M.nmt == N_STOP || M.nmt == N_INIT) {
            if (n) mc_fail("lss-nodeid-after-reset", "SDO request on %03Xh was answered although the active node id is %u (NMT state %d)", 0x600u + id, M.act_node, M.nmt);
        } else if (M.nmt != N_ANY) {
            if (n != 1 || (f->d[0] & 0xE3) != 0x43 || f->d[1] != 0x00 || f->d[2] != 0x10 || f->d[3] != 0)
                mc_fail("lss-nodeid-after-reset", "SDO request on %03Xh (active node id %u, NMT state %d) got %s", 0x600u + id, M.act_node, M.nmt, o);
        }
        break; }
    }
    if (!o_nopoll) (void)CONodeGetErr(&Node);                      /* the application reads (and clears) the node error - with nopoll=1 it never does: the error register of the node is sticky,
                                                                    * and nothing the LSS slave does may depend on an old, unrelated error */
    return MC_OK;
}

static const mc_harness H = { "C18", "c18", 6, cfg_name, build, ev_name, step, 3, 8, 0 };
int main(int argc, char **argv) { return mc_main(argc, argv, &H); }
