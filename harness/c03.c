/* C03 - an SDO upload delivers exactly the object's bytes for any acknowledge pattern.
 * Deviation-bounded exhaustive enumeration of conforming upload clients (segmented / block with every block
 * size, every acknowledge position, block size changes) against the real server; reference server in lockstep. */
#include <stdlib.h>
#include "sdo_client.h"

static uint8_t *snap0;
static uint8_t  BUF[SDO_DS2 + 32];
static int      sizes_q[] = { 1, 2, 3, 4, 5, 7, 8, 13, 14, 15, 21, 22, 29, 50, 63, 64, 889, 890, 1779, 4000 };
static int      all_sizes[400], n_all;
static const int BS_BIG[] = { 1, 2, 3, 7, 63, 64, 126, 127 };

/* kind 0: domain 2012h of size S, kind 1: string 2023h of length S */
static void set_object(int kind, uint32_t S, int content)
{
    if (kind == 0) {
        DomOB.Size = S; OBJ[O_DOMB].size = S;
        for (uint32_t i = 0; i < S; i++) DomB[i] = (uint8_t)(content ? (0xFF - (i * 5) % 251) : (1 + (i * 3) % 250));
        impl_value(O_DOMB, MV[O_DOMB]);
    } else {
        for (uint32_t i = 0; i < S; i++) StrV[i] = (uint8_t)(content ? (0xFF - (i % 120)) : ('a' + (i % 26)));     /* content 1: bytes >= 88h only (a string is bytes, not signed chars) */
        StrV[S] = 0; OBJ[O_STRV].size = S;
        impl_value(O_STRV, MV[O_STRV]);
    }
}

static int RF_B = -1, RF_J;    /* refused transmission (block, segment) of the case in progress */
static uint64_t outcome(int r, uint32_t len) { return cl_trace ^ ((uint64_t)r << 60) ^ len; }

static int check_upload(int r, int oi, uint32_t len, uint32_t ann, const char *what)
{
    if (r == CL_PROTOCOL) { mc_fail("c03-protocol", "%s: %s", what, cl_err); return 1; }
    if (r == CL_ABORT) { mc_fail("c03-refused", "%s: conforming upload aborted with %08X", what, cl_abort); return 1; }
    if (ann != OBJ[oi].size) { mc_fail("c03-wrong-announced-size", "%s: server announces %u bytes, object has %u", what, ann, OBJ[oi].size); return 1; }
    if (len != OBJ[oi].size) { mc_fail("c03-wrong-length", "%s: client assembled %u bytes, object has %u", what, len, OBJ[oi].size); return 1; }
    if (memcmp(BUF, MV[oi], len)) { uint32_t k = 0; while (BUF[k] == MV[oi][k]) k++; mc_fail("c03-wrong-bytes", "%s: byte %u assembled as %02X, object holds %02X", what, k, BUF[k], MV[oi][k]); return 1; }
    return 0;
}

/* mode 0: segmented/expedited; mode 1: block with block size bs and up to two deviations; the transfer runs twice */
static void one_case(int kind, uint32_t S, int content, int mode, int bs, const int *db, const int *da, const int *dbs, int ndev, int *blocks)
{
    char what[200], smp[240]; uint32_t len = 0, ann = 0; int r, oi = kind ? O_STRV : O_DOMB; uint16_t idx = kind ? 0x2023 : 0x2012;
    w_restore(snap0); w_obs_clear();
    set_object(kind, S, content);
    cl_trace = 0; cl_frames = 0; cl_abort = 0;
    for (int rep = 0; rep < 2; rep++) {
        memset(BUF, 0xEE, sizeof BUF);
        snprintf(what, sizeof what, "%s S=%u content=%d %s bs=%d dev=(%d,%d,%d)(%d,%d,%d) refused=(%d,%d) run %d", kind ? "string" : "domain", S, content, mode ? "block" : "segmented", bs,
                 ndev > 0 ? db[0] : -1, ndev > 0 ? da[0] : -1, ndev > 0 ? dbs[0] : -1, ndev > 1 ? db[1] : -1, ndev > 1 ? da[1] : -1, ndev > 1 ? dbs[1] : -1, RF_B, RF_J, rep);
        cl_refuse_blk = rep == 0 ? RF_B : -1; cl_refuse_seg = RF_J;
        if (mode == 0) r = cl_upload(0, idx, 0, BUF, sizeof BUF, &len, &ann);
        else r = cl_blk_ul(0, idx, 0, (uint8_t)bs, BUF, sizeof BUF, &len, &ann, db, da, dbs, rep == 0 ? ndev : 0);
        cl_refuse_blk = -1; DRV.send_refuse_nth = 0;
        if (rep == 0 && blocks) *blocks = cl_blk_blocks;
        mc_log("  %s -> r=%d len=%u announced=%u frames=%ld\n", what, r, len, ann, cl_frames);
        if (check_upload(r, oi, len, ann, what)) break;
    }
    if (OBS.fatal) mc_fail("safety:fatal-error callback invoked", "%s", what);
    snprintf(smp, sizeof smp, "%s -> %u bytes", what, len);
    mc_case_end(outcome(r, len), 1, smp);
}

static void run_object(int kind, uint32_t S, int tier)
{
    int maxdev = (tier || S <= 70) ? 2 : 1;          /* quick: two deviations for objects up to 70 bytes (needed e.g. for two partial acknowledges in a row) */
    for (int content = 0; content < 2; content++) {
        mc_case(6, kind, (int)S, content, 0, 0, 0);
        one_case(kind, S, content, 0, 0, 0, 0, 0, 0, 0);
        int nbs = S <= 200 ? 127 : (int)(sizeof BS_BIG / sizeof BS_BIG[0]);
        if (content == 1 && !tier) continue;          /* quick: deviations with the first content only */
        for (int bi = 0; bi < nbs && !mc_deadline_hit(); bi++) {
            int bs = S <= 200 ? bi + 1 : BS_BIG[bi], blocks = 0;
            if (!tier && S <= 200 && bs > 9 && bs < 125 && (bs % 16)) continue;      /* quick: block sizes 1..9, multiples of 16, 125..127 */
            if ((uint32_t)bs > (S + 6) / 7 + 1 && bs != 127) continue;                 /* larger block sizes behave like "whole object in one block" */
            mc_case(6, kind, (int)S, content, 1, bs, 0);
            one_case(kind, S, content, 1, bs, 0, 0, 0, 0, &blocks);
            /* deviations */
            int nblk = blocks > 64 ? 64 : blocks;
            /* the server's own CAN driver refuses one segment ("busy"): the frame never reaches the client, which acknowledges the in-order
             * prefix - alone, and together with a change of the block size in that acknowledge */
            {
                int sentr[64]; memcpy(sentr, cl_blk_sent, sizeof sentr);
                for (int b0 = 0; b0 < nblk; b0++) for (int j = 1; j <= sentr[b0]; j++) for (int nb = 0; nb < 2; nb++) {
                    if (S > 200 && !(b0 <= 1 || b0 >= nblk - 2) ) continue;
                    if (S > 200 && !(j <= 2 || j >= sentr[b0] - 1 || j == sentr[b0] / 2)) continue;
                    int db[2] = { b0, -1 }, da[2] = { -1, -1 }, dbs[2] = { nb ? (bs < 127 ? bs + 1 : 126) : 0, 0 };
                    RF_B = b0; RF_J = j;
                    mc_case(9, kind, (int)S, content, 1, bs, 3, b0, j, nb);
                    one_case(kind, S, content, 1, bs, db, da, dbs, nb, 0);
                    RF_B = -1; RF_J = 0;
                }
            }
            for (int b0 = 0; b0 < nblk; b0++) {
                int sent0 = cl_blk_sent[b0]; (void)sent0;
                int sentv[64]; memcpy(sentv, cl_blk_sent, sizeof sentv);
                for (int k0 = -1; k0 < sentv[b0]; k0++) {
                    static const int NB[] = { 0, 1, 2, -1, -2, 127 };        /* 0: unchanged, -1: bs-1, -2: bs+1 */
                    for (unsigned n0 = 0; n0 < sizeof NB / sizeof NB[0]; n0++) {
                        int nb0 = NB[n0] == -1 ? bs - 1 : NB[n0] == -2 ? bs + 1 : NB[n0];
                        if (nb0 < 0 || nb0 > 127 || (NB[n0] < 0 && nb0 == 0) || (k0 == -1 && nb0 == 0)) continue;
                        if (!tier && S > 200 && !(k0 <= 1 || k0 >= sentv[b0] - 2 || k0 == sentv[b0] / 2)) continue;   /* quick, large objects: boundary acknowledge positions */
                        if (!tier && S > 200 && b0 > 2 && b0 < nblk - 2) continue;
                        if (tier && S > 200 && bs < 7 && b0 > 3 && b0 < nblk - 3 && (b0 % 127) > 1) continue;          /* thorough, tiny blocks of a large object: first/last blocks and buffer boundaries */
                        int db[2] = { b0, -1 }, da[2] = { k0, -1 }, dbs[2] = { nb0, 0 }, blocks1 = 0;
                        mc_case(9, kind, (int)S, content, 1, bs, 1, b0, k0, nb0);
                        one_case(kind, S, content, 1, bs, db, da, dbs, 1, &blocks1);
                        if (maxdev < 2 || S > (tier ? 200u : 70u)) continue;
                        int sent1[64]; memcpy(sent1, cl_blk_sent, sizeof sent1);
                        int nblk1 = blocks1 > 64 ? 64 : blocks1;
                        for (int b1 = b0 + 1; b1 < nblk1 && b1 <= b0 + 2; b1++) for (int k1 = 0; k1 < sent1[b1]; k1++) {
                            db[1] = b1; da[1] = k1; dbs[1] = 0;
                            mc_case(12, kind, (int)S, content, 1, bs, 2, b0, k0, nb0, b1, k1, 0);
                            one_case(kind, S, content, 1, bs, db, da, dbs, 2, 0);
                        }
                    }
                }
            }
        }
    }
}

/* basic objects and the fixed strings: both modes, small block sizes, every acknowledge position of the first block */
static const struct { int o; uint16_t idx; uint8_t sub; } BT[] = { {O_U8, 0x2000, 0}, {O_U16, 0x2001, 0}, {O_U32, 0x2002, 0}, {O_U32D, 0x2003, 0}, {O_RO, 0x2004, 0}, {O_NID, 0x2006, 0}, {O_U16D, 0x2007, 0}, {O_U8D, 0x2008, 0}, {O_U32Z, 0x2009, 0},
    {O_DOM3, 0x2010, 0}, {O_DOMA, 0x2011, 0}, {O_STR3, 0x2020, 0}, {O_STR5, 0x2021, 0}, {O_STR12, 0x2022, 0}, {O_SUB0, 0xA030, 0}, {O_SUB1, 0xA030, 1}, {O_RANGE, 0xA040, 0} };
static void basic_case(int t, int mode, int bs, int k0)
{
    uint32_t len = 0, ann = 0; int r = 0; char what[100], smp[160];
    w_restore(snap0); w_obs_clear(); cl_trace = 0; cl_frames = 0;
    for (int rep = 0; rep < 2; rep++) {
        int db[1] = { 0 }, da[1] = { k0 }, dbs[1] = { 0 };
        memset(BUF, 0xEE, sizeof BUF);
        snprintf(what, sizeof what, "object %04X:%02X %s bs=%d ack0=%d run %d", BT[t].idx, BT[t].sub, mode ? "block" : "seg/exp", bs, k0, rep);
        if (mode == 0) r = cl_upload(0, BT[t].idx, BT[t].sub, BUF, sizeof BUF, &len, &ann);
        else r = cl_blk_ul(0, BT[t].idx, BT[t].sub, (uint8_t)bs, BUF, sizeof BUF, &len, &ann, db, da, dbs, k0 >= 0 ? 1 : 0);
        mc_log("  %s -> r=%d len=%u announced=%u\n", what, r, len, ann);
        if (check_upload(r, BT[t].o, len, ann, what)) break;
    }
    snprintf(smp, sizeof smp, "%s -> %u bytes", what, len);
    mc_case_end(outcome(r, len), 1, smp);
}
static void run_basic(void)
{
    for (unsigned t = 0; t < sizeof BT / sizeof BT[0]; t++) for (int mode = 0; mode < 2; mode++) for (int bs = 1; bs <= (mode ? 4 : 1); bs++) for (int k0 = -1; k0 < (mode ? 2 : 0); k0++) {
        mc_case(5, 100 + (int)t, mode, bs, k0, 0);
        basic_case((int)t, mode, bs, k0);
    }
}

/* ---- cfg 17: the same uploads after an earlier transfer the client abandoned (client abort after k requests) or completed ---- */
static uint8_t PAY2[16], UP2[SDO_DS2 + 32];
static const char *const PRE_NAME[] = { "none", "segmented download to 2011h", "block download to 2011h", "segmented upload", "block upload (block size 3)", "one-segment download to 2011h" };
static void history_case(int kind, uint32_t S, int content, int mode, int bs, int pk, int pkk, int k0)
{
    char what[200], smp[240]; uint32_t len = 0, ann = 0; int r, oi = kind ? O_STRV : O_DOMB; uint16_t idx = kind ? 0x2023 : 0x2012;
    int db[1] = { 0 }, da[1] = { k0 }, dbs[1] = { 0 };
    int noabort = pkk >= 100;          /* pkk >= 100: abandoned after pkk - 100 requests WITHOUT a client abort - the next initiate request simply replaces the open transfer */
    int resize = (content >> 2) & 3;       /* content bits 2,3: between the two transfers the application replaces the object by a shorter (1: half, 2: one byte) or a longer (3: +3 bytes) one */
    cl_crc = (content >> 1) & 1; content &= 1;      /* content bit 1: the block initiate requests carry the cc bit */
    w_restore(snap0); w_obs_clear();
    set_object(kind, S, content);
    cl_budget = noabort ? pkk - 100 : pkk; cl_stopped = 0;
    if (pk == 1) (void)cl_seg_dl(0, 0x2011, 0, PAY2, 10, 1);
    else if (pk == 2) (void)cl_blk_dl(0, 0x2011, 0, PAY2, 10, 1, 0, 0);
    else if (pk == 3) (void)cl_upload(0, idx, 0, UP2, sizeof UP2, &len, &ann);
    else if (pk == 5) (void)cl_seg_dl(0, 0x2011, 0, PAY2, 5, 1);          /* an odd number of segments: the toggle bit the transfer leaves behind */
    else (void)cl_blk_ul(0, idx, 0, 3, UP2, sizeof UP2, &len, &ann, 0, 0, 0, 0);
    cl_budget = -1;
    if (cl_stopped && !noabort) cl_client_abort(0);
    cl_stopped = 0;
    if (resize) { uint32_t S2 = resize == 1 ? (S > 1 ? S / 2 : 1) : resize == 2 ? 1 : S + 3; set_object(kind, S2, !content); }     /* the object is the application's: new length, new bytes */
    w_obs_clear();
    cl_trace = 0; cl_frames = 0; cl_abort = 0; len = ann = 0;
    memset(BUF, 0xEE, sizeof BUF);
    snprintf(what, sizeof what, "after %s (%s k=%d): %s S=%u content=%d %s bs=%d ack0=%d", PRE_NAME[pk], pkk < 0 ? "completed" : "abandoned", pkk, kind ? "string" : "domain", S, content, mode ? "block" : "segmented", bs, k0);
    if (mode == 0) r = cl_upload(0, idx, 0, BUF, sizeof BUF, &len, &ann);
    else r = cl_blk_ul(0, idx, 0, (uint8_t)bs, BUF, sizeof BUF, &len, &ann, db, da, dbs, k0 >= 0 ? 1 : 0);
    mc_log("  %s -> r=%d len=%u announced=%u\n", what, r, len, ann);
    (void)check_upload(r, oi, len, ann, what);
    if (OBS.fatal) mc_fail("safety:fatal-error callback invoked", "%s", what);
    snprintf(smp, sizeof smp, "%s -> %u bytes", what, len);
    cl_crc = 0;
    mc_case_end(outcome(r, len) ^ ((uint64_t)pk << 52), 1, smp);
}
static void run_history(int tier)
{
    static const int qs[] = { 1, 4, 5, 7, 8, 14, 15, 22, 50, 64, 890 };
    static const int bsl[] = { 1, 2, 3, 7, 127 };
    int kmax = tier ? 7 : 4;
    for (int pk = 1; pk <= 5; pk++) for (int pkk = -1; pkk <= kmax; pkk++) {
        if (pkk == 0) continue;
        for (int kind = 0; kind < 2; kind++) for (unsigned si = 0; si < (tier ? (unsigned)n_all : sizeof qs / sizeof qs[0]) && !mc_deadline_hit(); si++) {
            uint32_t S = (uint32_t)(tier ? all_sizes[si] : qs[si]);
            if (S > 900) continue;
            mc_case(9, 200, kind, (int)S, 0, 0, 0, pk, pkk, -1);
            history_case(kind, S, 0, 0, 0, pk, pkk, -1);
            for (unsigned b = 0; b < sizeof bsl / sizeof bsl[0]; b++) for (int k0 = -1; k0 <= (S > 100 ? 0 : 2); k0++) {
                mc_case(9, 200, kind, (int)S, 1, 1, bsl[b], pk, pkk, k0);
                history_case(kind, S, 1, 1, bsl[b], pk, pkk, k0);
            }
            /* the earlier transfer is left open without an abort, and the block initiate requests carry the cc bit ("client supports CRC") */
            if (pkk >= 1 && pkk <= 3 && pk != 2 && pk != 4) for (int crc = 0; crc < 2; crc++) {      /* segmented transfers only: a block transfer is ended by an abort, a stray initiate inside it may be refused */
                mc_case(9, 200, kind, (int)S, 2 * crc, 0, 0, pk, 100 + pkk, -1);
                history_case(kind, S, 2 * crc, 0, 0, pk, 100 + pkk, -1);
                mc_case(9, 200, kind, (int)S, 2 * crc, 1, 3, pk, 100 + pkk, -1);
                history_case(kind, S, 2 * crc, 1, 3, pk, 100 + pkk, -1);
            }
            if (pkk == -1) { mc_case(9, 200, kind, (int)S, 2, 1, 3, pk, pkk, -1); history_case(kind, S, 2, 1, 3, pk, pkk, -1); }
            /* the application replaces the object between the earlier transfer and the upload */
            if ((pk == 3 || pk == 4) && (pkk == -1 || pkk == 2) && S + 3 < 900) for (int rz = 1; rz <= 3; rz++) for (int md = 0; md < 2; md++) {
                mc_case(9, 200, kind, (int)S, 4 * rz, md, md ? 3 : 0, pk, pkk, -1);
                history_case(kind, S, 4 * rz, md, md ? 3 : 0, pk, pkk, -1);
            }
        }
    }
}

/* ---- cfg 18: objects whose length does not fit 16 bits (build with SDO_DS2 >= 70100): every mode, and one deviation placed in the
 * first block, around the block that carries byte 65536, and in the last block ---- */
static void run_large(int tier, int shard)
{
    static const uint32_t LS[] = { 65534, 65535, 65536, 65537, 65543, 70000, 131071, 131072, 131079 };
    static const int LBS[] = { 127, 64, 1, 2 };
    static const int NBL[] = { 0, 1, 127 };
    for (unsigned si = 0; si < sizeof LS / sizeof LS[0]; si++) for (int kind = 0; kind < 2; kind++) {
        uint32_t S = LS[si];
        if (S + 32 > sizeof BUF || mc_deadline_hit() || (int)(si & 1) != shard || (!tier && S > 70000)) continue;
        if (kind == 1 && !tier && S != 65536 && S != 70000) continue;
        mc_case(6, kind, (int)S, 0, 0, 0, 0);
        one_case(kind, S, 0, 0, 0, 0, 0, 0, 0, 0);
        for (unsigned bi = 0; bi < (tier ? 4u : 3u); bi++) {
            int bs = LBS[bi], nseg = (int)((S + 6) / 7), nblk = (nseg + bs - 1) / bs, X = (int)(65536u / (7u * (unsigned)bs));
            int bl[6] = { 0, X - 1, X, X + 1, nblk - 2, nblk - 1 };
            mc_case(6, kind, (int)S, 0, 1, bs, 0);
            one_case(kind, S, 0, 1, bs, 0, 0, 0, 0, 0);
            if (kind == 1 && !tier) continue;
            for (int b = 0; b < 6; b++) {
                int b0 = bl[b], sent = b0 < nblk - 1 ? bs : nseg - bs * (nblk - 1), kl[5] = { -1, 0, 1, sent / 2, sent - 1 };
                if (b0 < 0 || b0 >= nblk || (b > 0 && b0 <= bl[b - 1])) continue;
                for (int ki = 0; ki < 5; ki++) for (unsigned n0 = 0; n0 < 3; n0++) {
                    int k0 = kl[ki], nb0 = NBL[n0], dup = 0;
                    for (int j = 0; j < ki; j++) if (kl[j] == k0) dup = 1;
                    if (dup || k0 >= sent || (k0 == -1 && nb0 == 0) || (k0 <= 0 && nb0 == 0 && bs == 1 && ki > 1)) continue;
                    if (!tier && bs <= 2 && nb0 == 127 && b > 0 && b < 5) continue;
                    int db[2] = { b0, -1 }, da[2] = { k0, -1 }, dbs[2] = { nb0, 0 };
                    mc_case(9, kind, (int)S, 0, 1, bs, 1, b0, k0, nb0);
                    one_case(kind, S, 0, 1, bs, db, da, dbs, 1, 0);
                }
            }
        }
    }
}

static void setup(void)
{
    sdo_world_build(0);
    sdo_model_init();
    for (unsigned i = 0; i < sizeof PAY2; i++) PAY2[i] = (uint8_t)(0xE0 ^ (i * 3));
    if (!snap0) snap0 = malloc(w_snap_size());
    w_save(snap0);
    n_all = 0;
    for (int s = 1; s <= 30; s++) all_sizes[n_all++] = s;
    for (int k = 5; k <= 10; k++) for (int d = -1; d <= 1; d++) all_sizes[n_all++] = 7 * k + d;
    for (int s = 885; s <= 900; s += 1) all_sizes[n_all++] = s;
    for (int s = 1777; s <= 1780; s++) all_sizes[n_all++] = s;
    all_sizes[n_all++] = 2000; all_sizes[n_all++] = 3999; all_sizes[n_all++] = 4000;
}

static void run_cfg(int cfg, int tier)
{
    setup();
    if (cfg == 2) { run_basic(); return; }
    if (cfg == 17) { run_history(tier); return; }
    if (cfg == 18 || cfg == 19) { run_large(tier, cfg - 18); return; }
    int *sz = all_sizes; int ns = n_all; (void)sizes_q;
    /* cfg 0: domains, cfg 1: strings; cfg >= 3: thorough shards of the size list */
    int kind = cfg == 1 ? 1 : 0, shard = -1, nshard = 1;
    if (cfg >= 3) { kind = (cfg - 3) & 1; shard = (cfg - 3) >> 1; nshard = 7; }
    for (int i = 0; i < ns && !mc_deadline_hit(); i++) {
        if (shard >= 0 && i % nshard != shard) continue;
        if (kind == 1 && sz[i] > 900 && !tier) continue;
        run_object(kind, (uint32_t)sz[i], tier);
    }
}

static void run_case(const int *c, int n)
{
    setup();
    if (n < 6) return;
    mc_case_v(c + 1, n - 1);
    if (c[1] == 200 && n >= 10) { history_case(c[2], (uint32_t)c[3], c[4], c[5], c[6], c[7], c[8], c[9]); return; }
    if (c[1] >= 100) { basic_case(c[1] - 100, c[2], c[3], c[4]); return; }
    if (c[6] == 3 && n >= 10) {        /* refused transmission of segment c[8] in block c[7], optionally with a block size change */
        int bs = c[5], db[2] = { c[7], -1 }, da[2] = { -1, -1 }, dbs[2] = { c[9] ? (bs < 127 ? bs + 1 : 126) : 0, 0 };
        RF_B = c[7]; RF_J = c[8];
        one_case(c[1], (uint32_t)c[2], c[3], c[4], bs, db, da, dbs, c[9] ? 1 : 0, 0);
        RF_B = -1; RF_J = 0;
        return;
    }
    int db[2] = { n > 7 ? c[7] : -1, n > 10 ? c[10] : -1 }, da[2] = { n > 8 ? c[8] : -1, n > 11 ? c[11] : -1 }, dbs[2] = { n > 9 ? c[9] : 0, n > 12 ? c[12] : 0 };
    one_case(c[1], (uint32_t)c[2], c[3], c[4], c[5], db, da, dbs, c[6], 0);
}

static const char *cfg_name(int c) { static char b[40]; if (c == 0) return "domains"; if (c == 1) return "strings"; if (c == 2) return "basic objects"; if (c == 17) return "after an earlier completed or abandoned transfer"; if (c == 18 || c == 19) return "objects longer than 65535 bytes"; snprintf(b, sizeof b, "%s shard %d/7", (c - 3) & 1 ? "strings" : "domains", (c - 3) >> 1); return b; }
static const mc_enum E = { "C03", "c03", 20, cfg_name, run_cfg, run_case };
int main(int argc, char **argv) { return mc_enum_main(argc, argv, &E); }
