/* C16 (long periods) - communication cycle periods above 6.5535 s (the range of the 16-bit argument of the tick conversion):
 * for each listed period and timer frequency the producer must emit exactly at period and 2*period ticks. */
#include "node_common.h"

static const uint32_t FREQ[] = { 100, 1000 };
static const uint32_t PER_MS[] = { 6000, 6553, 6554, 6600, 7000, 10000, 13107, 65536, 100000 };
#define NP ((int)(sizeof PER_MS / sizeof PER_MS[0]))

static void one(int f, int p)
{
    uint32_t ticks = PER_MS[p] / (1000 / FREQ[f]), us = PER_MS[p] * 1000u, first = 0, second = 0, n = 0; char smp[120];
    w_regions_clear();
    nc_defaults(); NC.freq = FREQ[f]; NC.sync = 1; NC.sync_id = 0x80; NC.sync_cycle = 0;
    nc_build();
    if (nc_sdo_write(0x1006, 0, us, 4) != 0 || nc_sdo_write(0x1005, 0, 0x40000080u, 4) != 0) { mc_fail("sync-long-period-refused", "period %u ms at %u Hz refused", PER_MS[p], FREQ[f]); mc_case_end(0, 1, 0); return; }
    for (uint32_t t = 1; t <= 2 * ticks + 2; t++) {
        w_obs_clear(); w_tick(&Node, 1); mc_steps++;
        if (nc_count_tx(0x80)) { n += (uint32_t)nc_count_tx(0x80); if (!first) first = t; else if (!second) second = t; }
    }
    if (n != 2 || first != ticks || second != 2 * ticks)
        mc_fail("sync-long-period", "1006h = %u ms at %u Hz (%u ticks): %u SYNC frame(s) in %u ticks, first at tick %u, second at %u", PER_MS[p], FREQ[f], ticks, n, 2 * ticks + 2, first, second);
    snprintf(smp, sizeof smp, "1006h=%u ms at %u Hz -> SYNC at ticks %u, %u", PER_MS[p], FREQ[f], first, second);
    mc_case_end(((uint64_t)first << 32) | second, 1, smp);
}
static void run_cfg(int cfg, int tier) { (void)cfg; (void)tier; for (int f = 0; f < 2; f++) for (int p = 0; p < NP; p++) { mc_case(2, f, p); one(f, p); } }
static void run_case(const int *c, int n) { if (n < 3) return; mc_case(2, c[1], c[2]); one(c[1], c[2]); }
static const char *cfg_name(int c) { (void)c; return "long periods"; }
static const mc_enum E = { "C16", "c16long", 1, cfg_name, run_cfg, run_case };
int main(int argc, char **argv) { return mc_enum_main(argc, argv, &E); }
