/* C12 - TPDOs carry the mapped values and obey trigger, inhibit, event and SYNC rules.
 * (a) BFS over triggers, value changes, SYNCs, ticks, NMT changes and parameter writes against a reference TPDO model;
 * (b) option sweep=1: exhaustive sweep over every mapping composition (1..8 objects of 1/2/3/4 bytes totalling <= 8). */
#include "node_common.h"

typedef struct { uint8_t valid, type, active, pending, sync_cnt; uint16_t inh_cfg, evt_cfg, inh, evt, inh_rem, ev_rem; } MT;
static struct { uint8_t op; uint8_t map0; MT t[2]; } M;      /* map0: 3 = TPDO0 maps {A8,P16,B8[0]}, 2 = {A8,P16} (initial), 1 = {A8} */
static int SYNC_N, TWO_EVENT, WIDE;   /* WIDE: TPDO1 maps the 32-bit asynchronous object 2102h instead of the 16-bit 2101h */
/* cfgs 54..: both TPDOs live on timers of their own (inhibit/event in ticks), so that a timer id one of them keeps beyond the
 * life of its action would hit the other one's timer */
static const struct { uint16_t inh0, evt0, inh1, evt1; } TMR2[] = { { 3, 2, 2, 0 }, { 3, 2, 0, 3 }, { 0, 3, 0, 4 }, { 2, 4, 3, 3 }, { 0, 3, 2, 0 }, { 3, 0, 2, 2 } };
#define N_TMR2 ((int)(sizeof TMR2 / sizeof TMR2[0]))
/* cfgs 60..: selected configurations again with the two TPDOs being numbers 2 and 3 (1802h/1A02h, 1803h/1A03h; 1800h/1801h absent):
 * communication/mapping index arithmetic versus the runtime slot, start stagger event + number */
static const int BASE2[] = { 4, 13, 22, 31, 40, 49, 54, 55, 57 };
/* last two cfgs: TPDO0 starts as a synchronous TPDO (type 1 resp. 2) and can be re-typed to 254/255 and back by the legal procedure
 * (invalidate, write type, validate) in any NMT state - what a synchronous activation leaves behind must not survive the re-typing */
#define N_SYNC0 2
#define N_BASE2 ((int)(sizeof BASE2 / sizeof BASE2[0]))
static int TB;
static uint32_t MSPT = 1;     /* --opt slow=1: 100 Hz timer (10 ms per tick); inhibit and event times are then written in units of 10 ms */

enum { E_TRIG0, E_TRIGOBJ, E_WR_CHG, E_WR_SAME, E_WR_P16, E_SYNC, E_TICK, E_START, E_PREOP, E_STOP, E_RESET, E_INVAL, E_REVAL, E_TYPE254, E_TYPE255, E_INH0, E_INH2, E_INH3, E_EVT0, E_EVT3, E_EVT4, E_REMAP1, E_REMAP3, E_WR_A16, E_TYPE1, E_N };
static const char *const EN[] = { "COTPdoTrigPdo(0)", "COTPdoTrigObj(async object)", "write async object (changed)", "write async object (same value)", "write second mapped object", "SYNC", "tick", "NMT start", "NMT pre-op", "NMT stop",
    "NMT reset communication", "SDO 1800h:1 invalid", "SDO 1800h:1 valid", "SDO 1800h:2=254", "SDO 1800h:2=255", "SDO 1800h:3=0", "SDO 1800h:3=2 ticks", "SDO 1800h:3=3 ticks", "SDO 1800h:5=0", "SDO 1800h:5=3 ticks", "SDO 1800h:5=4 ticks", "re-map TPDO0 to 1 object", "re-map TPDO0 to 3 objects", "write async object of TPDO1 (changed)", "SDO 1800h:2=1" };

static const char *cfg_name(int c)
{
    static char b[100]; static const int SN[] = { 1, 2, 3, 240 };
    if (c >= 54 + N_TMR2 + N_BASE2) { snprintf(b, sizeof b, "TPDO0 sync type %d; TPDO1 %s; started OPERATIONAL", c - (54 + N_TMR2 + N_BASE2) + 1, c - (54 + N_TMR2 + N_BASE2) ? "event-driven" : "sync type 2"); return b; }
    if (c >= 54 + N_TMR2) { static char b2[128]; char t[100]; snprintf(t, sizeof t, "%s", cfg_name(BASE2[c - 54 - N_TMR2])); snprintf(b2, sizeof b2, "TPDO numbers 2,3: %s", t); return b2; }
    if (c >= 54) snprintf(b, sizeof b, "TPDO0 inhibit %d event %d; TPDO1 inhibit %d event %d; both event-driven; OPERATIONAL", TMR2[c - 54].inh0, TMR2[c - 54].evt0, TMR2[c - 54].inh1, TMR2[c - 54].evt1);
    else if (c >= 36) snprintf(b, sizeof b, "TPDO0 type %d inhibit %d event %d; TPDO1 event-driven; OPERATIONAL", 254 + (c / 9) % 2, (int[]){ 0, 2, 3 }[(c / 3) % 3], (int[]){ 0, 3, 4 }[c % 3]);
    else snprintf(b, sizeof b, "TPDO0 type %d inhibit %d event %d; TPDO1 sync type %d%s", 254 + (c / 9) % 2, (int[]){ 0, 2, 3 }[(c / 3) % 3], (int[]){ 0, 3, 4 }[c % 3], SN[c % 4], c >= 18 ? " started OPERATIONAL" : "");
    return b;
}

static int build(int cfg)
{
    static const int SN[] = { 1, 2, 3, 240 }; static const uint16_t INH[] = { 0, 2, 3 }, EVT[] = { 0, 3, 4 };
    int sync0 = 0;
    TB = 0;
    if (cfg >= 54 + N_TMR2 + N_BASE2) { sync0 = cfg - (54 + N_TMR2 + N_BASE2) + 1; cfg = sync0 == 1 ? 19 : 36; }   /* 19: TPDO1 sync type 2 (SN[19 % 4 = 3]?) see below; 36: two event TPDOs */
    else if (cfg >= 54 + N_TMR2) { TB = 2; cfg = BASE2[cfg - 54 - N_TMR2]; }
    int c = cfg % 18;
    nc_defaults();
    NC.sync = 1; NC.sync_id = 0x80; NC.sync_cycle = 0;
    NC.n_tpdo = TB + 2;
    NC.tpdo[TB].present = 1; NC.tpdo[TB].cobid = 0x40000181u; NC.tpdo[TB].type = (uint8_t)(254 + (c / 9) % 2); NC.tpdo[TB].inhibit = (uint16_t)(INH[(c / 3) % 3] * 10); NC.tpdo[TB].event = EVT[c % 3];
    NC.tpdo[TB].nmap = 2; NC.tpdo[TB].map[0] = NC_MAP(0x2100, 0, 8); NC.tpdo[TB].map[1] = NC_MAP(0x2111, 0, 16);
    SYNC_N = SN[c % 4]; TWO_EVENT = cfg >= 36;
    NC.tpdo[TB + 1].present = 1; NC.tpdo[TB + 1].cobid = 0x40000281u; NC.tpdo[TB + 1].type = (uint8_t)(TWO_EVENT ? 254 : SYNC_N); NC.tpdo[TB + 1].nmap = 1; NC.tpdo[TB + 1].map[0] = TWO_EVENT ? NC_MAP(0x2101, 0, 16) : NC_MAP(0x2110, 0, 8);
    NC.operational = cfg >= 18;
    if (sync0) { NC.tpdo[TB].type = (uint8_t)sync0; NC.tpdo[TB].inhibit = 0; NC.tpdo[TB].event = 0; if (sync0 == 1) { SYNC_N = 2; NC.tpdo[TB + 1].type = 2; } }
    WIDE = (cfg >= 54);
    if (WIDE) NC.tpdo[TB + 1].map[0] = NC_MAP(0x2102, 0, 32);
    if (cfg >= 54) {
        NC.tpdo[TB].type = 254; NC.tpdo[TB].inhibit = (uint16_t)(TMR2[cfg - 54].inh0 * 10); NC.tpdo[TB].event = TMR2[cfg - 54].evt0;
        NC.tpdo[TB + 1].inhibit = (uint16_t)(TMR2[cfg - 54].inh1 * 10); NC.tpdo[TB + 1].event = TMR2[cfg - 54].evt1;
    }
    /* a synchronous RPDO of type 1 with the number of TPDO1: the SYNC table is indexed by PDO number for both directions */
    NC.n_rpdo = TB + 2; NC.rpdo[TB + 1].present = 1; NC.rpdo[TB + 1].cobid = 0x301; NC.rpdo[TB + 1].type = 1; NC.rpdo[TB + 1].nmap = 1; NC.rpdo[TB + 1].map[0] = NC_MAP(0x2112, 0, 32);
    MSPT = mc_opt("slow", 0) ? 10 : 1; NC.freq = 1000 / MSPT;
    for (int i = 0; i < 2; i++) { NC.tpdo[TB + i].inhibit = (uint16_t)(NC.tpdo[TB + i].inhibit * MSPT); NC.tpdo[TB + i].event = (uint16_t)(NC.tpdo[TB + i].event * MSPT); }
    nc_build();
    (void)CONodeGetErr(&Node);
    memset(&M, 0, sizeof M);
    M.t[0].valid = 1; M.t[0].type = NC.tpdo[TB].type; M.t[0].inh_cfg = INH[(c / 3) % 3]; M.t[0].evt_cfg = EVT[c % 3];
    M.t[1].valid = 1; M.t[1].type = (uint8_t)(TWO_EVENT ? 254 : SYNC_N); M.map0 = 2;
    if (sync0) { M.t[0].type = (uint8_t)sync0; M.t[0].inh_cfg = 0; M.t[0].evt_cfg = 0; if (sync0 == 1) M.t[1].type = 2; }
    if (cfg >= 54) { M.t[0].type = 254; M.t[0].inh_cfg = TMR2[cfg - 54].inh0; M.t[0].evt_cfg = TMR2[cfg - 54].evt0; M.t[1].inh_cfg = TMR2[cfg - 54].inh1; M.t[1].evt_cfg = TMR2[cfg - 54].evt1; }
    if (NC.operational) { M.op = 1; for (int i = 0; i < 2; i++) { MT *t = &M.t[i]; t->active = 1; t->inh = t->inh_cfg; t->evt = t->type >= 254 ? t->evt_cfg : 0; t->ev_rem = (uint16_t)(t->evt ? t->evt + TB + i : 0); } }
    W_REG(M);
    return E_N;
}
static const char *ev_name(int e) { return EN[e]; }

/* expected TPDO frames of the step, in order */
static struct { int n; WFrame f[8]; } X;
/* --opt cbtrig=1: the application triggers TPDO0 again from inside the COPdoTransmit callback of a TPDO0 frame (not from the nested one): with an inhibit
 * time the new trigger has to wait for the end of the inhibit time that this very transmission started - and must not be lost */
static int CBTRIG, cb_nested, m_nested;
static void trigger(int i);
static void c12_cb_hook(uint8_t kind, uint32_t a, uint32_t b, uint32_t c)
{
    (void)b; (void)c;
    if (kind == CB_PDO_TRANSMIT && CBTRIG && !cb_nested && (a & 0x7FF) == 0x181) { cb_nested = 1; COTPdoTrigPdo(Node.TPdo, (uint16_t)TB); cb_nested = 0; }
}
static void transmit(int i)
{
    MT *t = &M.t[i]; WFrame *f = &X.f[X.n < 8 ? X.n : 7]; X.n++;
    memset(f, 0, sizeof *f);
    if (i == 0) { f->id = 0x181; f->dlc = (uint8_t)(M.map0 == 1 ? 1 : M.map0 == 2 ? 3 : 4); f->d[0] = A8; if (M.map0 >= 2) { f->d[1] = (uint8_t)P16; f->d[2] = (uint8_t)(P16 >> 8); } if (M.map0 == 3) f->d[3] = B8[0]; }
    else if (TWO_EVENT && WIDE) { f->id = 0x281; f->dlc = 4; f->d[0] = (uint8_t)A32; f->d[1] = (uint8_t)(A32 >> 8); f->d[2] = (uint8_t)(A32 >> 16); f->d[3] = (uint8_t)(A32 >> 24); }
    else if (TWO_EVENT) { f->id = 0x281; f->dlc = 2; f->d[0] = (uint8_t)A16; f->d[1] = (uint8_t)(A16 >> 8); }
    else { f->id = 0x281; f->dlc = 1; f->d[0] = P8; }
    if (t->inh) t->inh_rem = t->inh;
    if (t->evt) t->ev_rem = t->evt;
    if (i == 0 && CBTRIG && !m_nested) { m_nested = 1; trigger(0); m_nested = 0; }
}
static void trigger(int i) { MT *t = &M.t[i]; if (!t->active) return; if (t->inh_rem > 0) t->pending = 1; else transmit(i); }
static void deactivate(int i) { MT *t = &M.t[i]; t->active = 0; t->pending = 0; t->inh_rem = 0; t->ev_rem = 0; t->sync_cnt = 0; t->inh = 0; t->evt = 0; }
static void activate(int i)
{
    MT *t = &M.t[i]; deactivate(i);
    if (!t->valid || !M.op) return;
    t->active = 1; t->inh = t->inh_cfg; t->evt = t->type >= 254 ? t->evt_cfg : 0; t->ev_rem = (uint16_t)(t->evt ? t->evt + TB + i : 0);
}

static int step(int e)
{
    uint8_t d[8] = { 0 }; uint32_t r;
    X.n = 0;
    CBTRIG = mc_opt("cbtrig", 0); w_cb_hook = CBTRIG ? c12_cb_hook : 0;
    if (e >= E_INVAL && !(M.op || 1)) return MC_SKIP;
    switch (e) {
    case E_TRIG0: trigger(0); COTPdoTrigPdo(Node.TPdo, (uint16_t)TB); break;
    case E_TRIGOBJ: { CO_OBJ *o = CODictFind(&Node.Dict, CO_DEV(0x2100, 0)); trigger(0); COTPdoTrigObj(Node.TPdo, o); break; }
    case E_WR_CHG: { uint8_t nv = (uint8_t)(A8 == 0x11 ? 0x12 : 0x11);
        /* the frame carries the new value */
        { uint8_t old = A8; A8 = nv; trigger(0); A8 = old; }
        (void)CODictWrByte(&Node.Dict, CO_DEV(0x2100, 0), nv); break; }
    case E_WR_SAME: (void)CODictWrByte(&Node.Dict, CO_DEV(0x2100, 0), A8); break;
    case E_WR_A16: { uint16_t nv = (uint16_t)(A16 == 0x3344 ? 0x4433 : 0x3344);
        if (!TWO_EVENT) return MC_SKIP;
        if (WIDE) {                                   /* the change is in the upper half only: a comparison narrower than the object would miss it */
            uint32_t nv32 = A32 == 0x778899AAu ? 0x118899AAu : 0x778899AAu;
            { uint32_t old = A32; A32 = nv32; trigger(1); A32 = old; }
            (void)CODictWrLong(&Node.Dict, CO_DEV(0x2102, 0), nv32); break;
        }
        { uint16_t old = A16; A16 = nv; trigger(1); A16 = old; }
        (void)CODictWrWord(&Node.Dict, CO_DEV(0x2101, 0), nv); break; }
    case E_REMAP1: case E_REMAP3: {
        /* the CiA 301 re-mapping procedure in one go: invalidate, count 0, entries, count, validate */
        int n = e == E_REMAP1 ? 1 : 3; uint32_t r = 0;
        if (!TWO_EVENT || CONmtGetMode(&Node.Nmt) == CO_STOP) return MC_SKIP;
        r |= nc_sdo_write((uint16_t)(0x1800 + TB), 1, 0xC0000181u, 4); r |= nc_sdo_write((uint16_t)(0x1A00 + TB), 0, 0, 1);
        r |= nc_sdo_write((uint16_t)(0x1A00 + TB), 1, NC_MAP(0x2100, 0, 8), 4);
        if (n == 3) { r |= nc_sdo_write((uint16_t)(0x1A00 + TB), 2, NC_MAP(0x2111, 0, 16), 4); r |= nc_sdo_write((uint16_t)(0x1A00 + TB), 3, NC_MAP(0x2113, 1, 8), 4); }
        r |= nc_sdo_write((uint16_t)(0x1A00 + TB), 0, (uint32_t)n, 1);
        M.t[0].valid = 0; deactivate(0); M.map0 = (uint8_t)n;
        r |= nc_sdo_write((uint16_t)(0x1800 + TB), 1, 0x40000181u, 4);
        M.t[0].valid = 1; activate(0);
        if (r != 0) mc_fail("tpdo-param-write", "re-mapping procedure refused (%08X)", r);
        break; }
    case E_WR_P16: (void)CODictWrWord(&Node.Dict, CO_DEV(0x2111, 0), (uint16_t)(P16 == 0x5566 ? 0x6655 : 0x5566)); break;     /* mapped but not asynchronous: no trigger */
    case E_SYNC:
        for (int i = 0; i < 2; i++) { MT *t = &M.t[i]; if (t->active && t->type >= 1 && t->type <= 240) { if (++t->sync_cnt == t->type) { t->sync_cnt = 0; transmit(i); } } }
        w_rx(&Node, 0x80, 0, d); break;
    case E_TICK:
        for (int i = 0; i < 2; i++) {
            MT *t = &M.t[i]; if (!t->active) continue;
            int sent = 0;
            if (t->inh_rem > 0 && --t->inh_rem == 0 && t->pending) { t->pending = 0; transmit(i); sent = 1; }                /* ties: inhibit first */
            if (!sent && t->ev_rem > 0 && --t->ev_rem == 0) { if (t->inh_rem > 0) t->pending = 1; else transmit(i); }        /* a transmission restarts the event time */
        }
        w_tick(&Node, 1); break;
    case E_START: if (!M.op) { M.op = 1; activate(0); activate(1); } nc_nmt(1, 0); break;
    case E_PREOP: M.op = 0; deactivate(0); deactivate(1); nc_nmt(128, 0); break;
    case E_STOP:  M.op = 0; deactivate(0); deactivate(1); nc_nmt(2, 0); break;
    case E_RESET: M.op = 0; deactivate(0); deactivate(1); nc_nmt(130, 0); break;
    default: {
        /* SDO parameter writes: not possible in STOPPED; detect by asking the node */
        if (CONmtGetMode(&Node.Nmt) == CO_STOP) return MC_SKIP;
        MT *t = &M.t[0];
        /* how an inhibit time interacts with SYNC-driven transmission is not fixed by the statement: the two never meet here */
        if ((e == E_INH2 || e == E_INH3) && t->type <= 240) return MC_SKIP;
        if (e == E_TYPE1 && t->inh_cfg) return MC_SKIP;
        if (e == E_INVAL) { r = nc_sdo_write((uint16_t)(0x1800 + TB), 1, 0xC0000181u, 4); if (r == 0) { t->valid = 0; deactivate(0); } }
        else if (e == E_REVAL) { int was = t->valid; r = nc_sdo_write((uint16_t)(0x1800 + TB), 1, 0x40000181u, 4); if (r == 0 && !was) { t->valid = 1; activate(0); } }
        else if (e == E_TYPE254 || e == E_TYPE255) { r = nc_sdo_write((uint16_t)(0x1800 + TB), 2, e == E_TYPE254 ? 254 : 255, 1); if (r == 0) t->type = (uint8_t)(e == E_TYPE254 ? 254 : 255); }
        else if (e == E_TYPE1) { r = nc_sdo_write((uint16_t)(0x1800 + TB), 2, 1, 1); if (r == 0) t->type = 1; }
        else if (e >= E_INH0 && e <= E_INH3) { uint16_t v = (uint16_t)(e == E_INH0 ? 0 : e == E_INH2 ? 2 : 3); r = nc_sdo_write((uint16_t)(0x1800 + TB), 3, v * 10u * MSPT, 2); if (r == 0) t->inh_cfg = v; }
        else { uint16_t v = (uint16_t)(e == E_EVT0 ? 0 : e == E_EVT3 ? 3 : 4);
            r = nc_sdo_write((uint16_t)(0x1800 + TB), 5, v * MSPT, 2);
            if (r == 0) { t->evt_cfg = v;
                if (t->active) {      /* the event time is re-timed from the write; a running inhibit time is ended by it and a waiting transmission is sent */
                    t->evt = t->type >= 254 ? v : 0; t->ev_rem = t->evt; t->inh_rem = 0;      /* an event time belongs to the event-driven types: a synchronous TPDO is not sent by a timer */
                    if (t->pending) { t->pending = 0; transmit(0); }
                } }
        }
        if (r != 0 && r != CO_SDO_ERR_RANGE && r != CO_SDO_ERR_TOS && r != CO_SDO_ERR_OBJ_MAP && r != CO_SDO_ERR_PARA_INCOMP) mc_fail("tpdo-param-write", "'%s' answered with %08X", EN[e], r);
        break; }
    }
    nc_poll();                   
    /* ---- compare TPDO frames ---- */
    {
        int n = 0, used[8] = { 0 };
        for (int i = 0; i < OBS.ntx; i++) {
            const WFrame *f = &OBS.tx[i];
            if (f->id == 0x581 || (f->id == 0x701 && e == E_RESET)) continue;
            /* the order among different TPDOs within one step is not specified: match per identifier, in order */
            int k = 0;
            while (k < X.n && k < 8 && (used[k] || X.f[k].id != f->id)) k++;
            if (k < X.n && k < 8) {
                const WFrame *w = &X.f[k]; used[k] = 1;
                if (f->dlc != w->dlc || memcmp(f->d, w->d, 8)) {
                    char a[40], b[40]; w_fmt_frame(a, sizeof a, f); w_fmt_frame(b, sizeof b, w);
                    mc_fail("tpdo-frame-content", "TPDO frame #%d on '%s' is %s, expected %s", n, EN[e], a, b); return MC_OK; }
            } else if (X.n > 0 && n < X.n) {
                char a[40]; w_fmt_frame(a, sizeof a, f);
                mc_fail("tpdo-frame-content", "TPDO frame #%d on '%s' is %s, which is not among the %d expected", n, EN[e], a, X.n); return MC_OK; }
            n++;
        }
        if (n != X.n) {
            mc_fail(n > X.n ? "tpdo-unexpected" : "tpdo-missing", "%d TPDO frame(s) on '%s', expected %d (TPDO0: active=%d inhibit %u/%u pending=%d event %u/%u; TPDO1: active=%d sync %d/%d)", n, EN[e], X.n,
                    M.t[0].active, M.t[0].inh_rem, M.t[0].inh, M.t[0].pending, M.t[0].ev_rem, M.t[0].evt, M.t[1].active, M.t[1].sync_cnt, M.t[1].type);
            return MC_OK; }
        if (nc_count_cb(CB_PDO_TRANSMIT) != X.n) { mc_fail("tpdo-transmit-callback", "%d COPdoTransmit call(s), expected %d", nc_count_cb(CB_PDO_TRANSMIT), X.n); return MC_OK; }
    }
    return MC_OK;
}

static const mc_harness H = { "C12", "c12", 54 + N_TMR2 + N_BASE2 + N_SYNC0, cfg_name, build, ev_name, step, 8, 7 };
int main(int argc, char **argv) { return mc_main(argc, argv, &H); }
