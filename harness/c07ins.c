/* C07 (insertion orders and magnitudes) - every timed action fires exactly when due.
 * Exhaustive enumeration (depth-first, prefixes shared through snapshots) of operation sequences over an alphabet with SIX distinct
 * start delays, so that a new action can be queued before the first, between any two, equal to any and behind the last of up to five
 * pending events (the BFS of c07.c has at most three distinct delays: an insertion behind the second and before a third pending event
 * cannot occur there).  After EVERY prefix the remaining schedule is run to completion on a copy and compared tick by tick with a
 * reference list of due ticks.
 *   cfg 0..N_SHARD-1  "orders":  ops = create one-shot with delay 1..6 | create cyclic (1,2) (3,2) (2,5) | tick | delete k-th created;
 *                                sequences up to length L (quick 6, thorough 8), sharded by the first operation
 *   cfg N_SHARD       "long":    delays around and above 65535 ticks (16-bit seams in the remaining-delay arithmetic) mixed with short
 *                                ones, time advanced by letting the hardware down-counter run (no service call can be missed that way) */
#include <stdio.h>
#include <stdlib.h>
#include <stdint.h>
#include "mc.h"
#include "world.h"
#include "od.h"

#define POOL    6
#define MAXOPS  8
#define MAXACT  8
static CO_NODE    Node;
static CO_OBJ     OD[16];
static uint8_t    ErrReg;
static uint8_t    SdoBuf[CO_SSDO_N * CO_SDO_BUF_BYTE];
static CO_TMR_MEM TMem[POOL];

typedef struct { int live; int16_t id; uint64_t due; uint32_t period; } Ref;
static struct { Ref r[MAXACT]; int n; uint64_t now; } M;
static int fired[MAXACT];
static int FAILED;
#define FAIL(sig, ...) do { if (!FAILED) { FAILED = 1; mc_fail(sig, __VA_ARGS__); } } while (0)

static void cb(void *p) { int i = (int)(intptr_t)p; if (i >= 0 && i < MAXACT) fired[i]++; w_cb(CB_TMR_ACTION, (uint32_t)i, 0, 0); }

/* ---- operations: code = 100 + delay index (one-shot), 200 + k (cyclic), 1 tick, 300 + k delete k-th created ---- */
static const uint32_t SHORT_D[] = { 1, 2, 3, 4, 5, 6 };
static const uint32_t CYC[][2]  = { { 1, 2 }, { 3, 2 }, { 2, 5 } };
static const uint32_t LONG_D[]  = { 1, 3, 4464, 65535, 65536, 65537, 70000, 131075 };
static int LONGMODE;

static int n_live(void) { int n = 0; for (int i = 0; i < M.n; i++) n += M.r[i].live; return n; }

static void op_create(uint32_t start, uint32_t period)
{
    int k = M.n, expect_ok = n_live() < POOL && k < MAXACT;
    if (k >= MAXACT) return;
    int16_t id = COTmrCreate(&Node.Tmr, start, period, cb, (void *)(intptr_t)k);
    mc_steps++;
    mc_log("    create(start=%u,cycle=%u) -> %d\n", start, period, id);
    if (!expect_ok) { if (id >= 0) FAIL("create-succeeded-unexpectedly", "create returned %d although all %d slots are in use", id, POOL); return; }
    if (id < 0) { FAIL("create-failed-unexpectedly", "create(%u,%u) failed with %d of %d slots in use", start, period, n_live(), POOL); return; }
    M.r[k].live = 1; M.r[k].id = id; M.r[k].due = M.now + (start ? start : period); M.r[k].period = period; M.n++;
}
static void op_delete(int k)
{
    if (k >= M.n) return;
    int16_t r = COTmrDelete(&Node.Tmr, M.r[k].id);
    mc_steps++;
    mc_log("    delete(#%d id %d) -> %d (%s)\n", k, M.r[k].id, r, M.r[k].live ? "live" : "not live");
    if (M.r[k].live && r < 0) FAIL("delete-live-failed", "delete of the live action #%d (id %d) returned %d", k, M.r[k].id, r);
    M.r[k].live = 0;
}
/* one tick: service + processing step; the callbacks of the step must be exactly the actions due on this tick */
static void op_tick(void)
{
    memset(fired, 0, sizeof fired);
    M.now++;
    w_obs_clear(); w_tick(&Node, 1); mc_steps++;
    for (int i = 0; i < M.n && !FAILED; i++) {
        int due = M.r[i].live && M.r[i].due == M.now;
        if (fired[i] > 1) FAIL("callback-twice", "action #%d ran %d times on tick %llu", i, fired[i], (unsigned long long)M.now);
        else if (fired[i] && !M.r[i].live) FAIL("callback-of-dead-action", "action #%d ran on tick %llu although it was deleted or had finished", i, (unsigned long long)M.now);
        else if (fired[i] && !due) FAIL("callback-not-due", "action #%d ran on tick %llu, it is due on tick %llu", i, (unsigned long long)M.now, (unsigned long long)M.r[i].due);
        else if (!fired[i] && due) FAIL("expiry-lost", "action #%d is due on tick %llu and did not run in the processing step of that tick", i, (unsigned long long)M.now);
        if (due) { if (M.r[i].period) M.r[i].due += M.r[i].period; else M.r[i].live = 0; }
    }
    if (OBS.fatal) FAIL("safety:fatal-error callback invoked", "during a tick");
}
/* let the hardware counter run for as long as neither the implementation nor the reference expects anything */
static void fast_forward(void)
{
    uint64_t next = UINT64_MAX;
    for (int i = 0; i < M.n; i++) if (M.r[i].live && M.r[i].due < next) next = M.r[i].due;
    if (next == UINT64_MAX || next <= M.now + 2 || DRV.tcnt <= 2) return;
    uint64_t k = next - M.now - 1;
    if (k > DRV.tcnt - 1) k = DRV.tcnt - 1;          /* never run past the point where the counter reaches zero: the service must see that tick */
    DRV.tcnt -= (uint32_t)k; M.now += k; W_NOW += (uint32_t)k;
}

static void apply(int code)
{
    if (code == 1) op_tick();
    else if (code >= 300) op_delete(code - 300);
    else if (code >= 200) op_create(CYC[code - 200][0], CYC[code - 200][1]);
    else op_create(LONGMODE ? LONG_D[code - 100] : SHORT_D[code - 100], 0);
}

/* run the remaining schedule to its end on a copy of the state */
static uint8_t *snapF; static typeof(M) Mf;
static uint64_t finish_check(void)
{
    uint64_t h = 1469598103934665603ull; int guard = 0, cyc = 0;
    w_save(snapF); Mf = M;
    for (int i = 0; i < M.n; i++) if (M.r[i].live && M.r[i].period) cyc = 1;
    for (int t = 0; t < (LONGMODE ? 40 : 16) && !FAILED; t++) {
        if (LONGMODE) fast_forward();
        op_tick();
        for (int i = 0; i < M.n; i++) h = (h ^ (uint64_t)(fired[i] + 3 * i)) * 1099511628211ull;
        if (!cyc && n_live() == 0 && ++guard > 2) break;
    }
    if (!FAILED && !cyc && n_live() != 0) FAIL("expiry-lost", "%d action(s) still pending at the end of the horizon", n_live());
    if (!FAILED) {   /* pools: every slot free again once nothing is pending */
        if (!cyc) { int n = 0; for (CO_TMR_ACTION *a = Node.Tmr.Acts; a && n <= POOL; a = a->Next) n++; if (n != POOL) FAIL("pool-not-conserved", "%d of %d action slots free after all actions finished", n, POOL); }
    }
    w_restore(snapF); M = Mf;
    return h;
}

static uint8_t *snapL[MAXOPS + 1]; static typeof(M) ML[MAXOPS + 1];
static int OPS[MAXOPS + 1], NOPS, LMAX;

static void describe(char *b, size_t n)
{
    int k = 0; b[0] = 0;
    for (int i = 0; i < NOPS && k < (int)n - 24; i++) {
        int c = OPS[i];
        if (c == 1) k += snprintf(b + k, n - (size_t)k, "tick ");
        else if (c >= 300) k += snprintf(b + k, n - (size_t)k, "del#%d ", c - 300);
        else if (c >= 200) k += snprintf(b + k, n - (size_t)k, "cyc(%u,%u) ", CYC[c - 200][0], CYC[c - 200][1]);
        else k += snprintf(b + k, n - (size_t)k, "one(%u) ", LONGMODE ? LONG_D[c - 100] : SHORT_D[c - 100]);
    }
}

static void node_check(void)
{
    int v[MAXOPS + 2]; char smp[200]; uint64_t h;
    v[0] = LONGMODE; for (int i = 0; i < NOPS; i++) v[1 + i] = OPS[i];
    mc_case_v(v, NOPS + 1);
    h = FAILED ? 0 : finish_check();
    describe(smp, sizeof smp);
    mc_case_end(h, 1, smp);
}

static void dfs(int depth)
{
    if (mc_deadline_hit()) return;
    if (depth >= LMAX) return;
    w_save(snapL[depth]); ML[depth] = M;
    int nshort = LONGMODE ? (int)(sizeof LONG_D / sizeof LONG_D[0]) : (int)(sizeof SHORT_D / sizeof SHORT_D[0]);
    int ncyc = LONGMODE ? 0 : 3;
    for (int a = 0; a < nshort + ncyc + 1 + M.n; a++) {
        int code = a < nshort ? 100 + a : a < nshort + ncyc ? 200 + (a - nshort) : a == nshort + ncyc ? 1 : 300 + (a - nshort - ncyc - 1);
        if (code >= 100 && code < 300 && M.n >= (LONGMODE ? 4 : 5)) continue;       /* at most five (four) actions per sequence */
        if (code >= 300 && !ML[depth].r[code - 300].live) continue;                   /* deleting a finished action: nothing specified */
        FAILED = 0;
        OPS[depth] = code; NOPS = depth + 1;
        apply(code);
        node_check();
        if (!FAILED) dfs(depth + 1);
        w_restore(snapL[depth]); M = ML[depth]; FAILED = 0;
    }
}

static void setup(void)
{
    OdB b; CO_NODE_SPEC spec;
    w_regions_clear();
    w_reset(1000);
    memset(&Node, 0, sizeof Node); memset(TMem, 0, sizeof TMem); memset(&M, 0, sizeof M); memset(SdoBuf, 0, sizeof SdoBuf); ErrReg = 0;
    od_init(&b, OD, 16); od_mandatory(&b, &ErrReg);
    spec.NodeId = 1; spec.Baudrate = 250000; spec.Dict = OD; spec.DictLen = 16; spec.EmcyCode = 0;
    spec.TmrMem = TMem; spec.TmrNum = POOL; spec.TmrFreq = 1000; spec.Drv = &W_IfDrv; spec.SdoBuf = SdoBuf;
    CONodeInit(&Node, &spec);
    CONodeStart(&Node);
    (void)CONodeGetErr(&Node);
    W_REG(Node); W_REG(OD); W_REG(ErrReg); W_REG(TMem);
    if (!snapF) { snapF = malloc(w_snap_size()); for (int i = 0; i <= MAXOPS; i++) snapL[i] = malloc(w_snap_size()); }
    w_obs_clear(); FAILED = 0; NOPS = 0;
}

#define N_SHARD 10          /* first operation of the "orders" part: 6 one-shots, 3 cyclic, tick */
static void run_cfg(int cfg, int tier)
{
    setup();
    if (cfg == N_SHARD) { LONGMODE = 1; LMAX = tier ? 6 : 5; dfs(0); return; }
    LONGMODE = 0; LMAX = tier ? 8 : 6;
    /* shard: the first operation is fixed */
    {
        int code = cfg < 6 ? 100 + cfg : cfg < 9 ? 200 + (cfg - 6) : 1;
        w_save(snapL[0]); ML[0] = M;
        OPS[0] = code; NOPS = 1;
        apply(code); node_check();
        if (!FAILED) dfs(1);
    }
}

static void run_case(const int *c, int n)
{
    setup();
    if (n < 2) return;
    LONGMODE = c[1];
    NOPS = 0;
    for (int i = 2; i < n && i - 2 < MAXOPS; i++) { OPS[NOPS++] = c[i]; mc_log("  op %d: code %d\n", i - 2, c[i]); apply(c[i]); if (FAILED) break; }
    mc_case_v(c + 1, n - 1);
    { char smp[200]; uint64_t h = FAILED ? 0 : finish_check(); describe(smp, sizeof smp); mc_case_end(h, 1, smp); }
}

static const char *cfg_name(int c) { static char b[64]; if (c == N_SHARD) return "long delays (16-bit seams)"; snprintf(b, sizeof b, "insertion orders, shard %d/%d", c, N_SHARD); return b; }
static const mc_enum E = { "C07", "c07ins", N_SHARD + 1, cfg_name, run_cfg, run_case };
int main(int argc, char **argv) { return mc_enum_main(argc, argv, &E); }
