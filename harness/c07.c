/* C07 - every timed action fires exactly when due, exactly once per expiry.
 * BFS over the real timer manager in lockstep with a reference timer. */
#include <stdio.h>
#include <sanitizer/asan_interface.h>
#include "mc.h"
#include "world.h"
#include "od.h"

#define MAXPOOL 16
static CO_NODE    Node;
static CO_OBJ     OD[16];
static uint8_t    ErrReg;
static uint8_t    SdoBuf[CO_SSDO_N * CO_SDO_BUF_BYTE];
static CO_TMR_MEM TMem[MAXPOOL];

typedef struct { uint8_t live, kind, due_now, fired; int16_t id; uint32_t rem, period; } MSlot;
static struct { MSlot s[MAXPOOL]; int pool; int in_tick; } M;

static const int POOLS[] = { 1, 2, 3, 4, 16 };
static int NKIND = 4, NT = 4;          /* callback kinds, time values 0..NT-1 */
static int ev_create0, ev_delete0, ev_tick, n_ev;

static const char *cfg_name(int c) { static char b[32]; snprintf(b, sizeof b, "pool=%d", POOLS[c]); return b; }

static int m_free_slots(void)
{
    int n = 0;
    for (int i = 0; i < M.pool; i++) if (!M.s[i].live && !M.s[i].due_now) n++;
    return n;
}

static void act_cb(void *p);

/* create on implementation + model; returns 0 ok */
static void do_create(uint32_t start, uint32_t cycle, int kind, int from_cb)
{
    int expect_fail = (start == 0 && cycle == 0) || m_free_slots() == 0;
    int m = -1;
    for (int i = 0; i < M.pool; i++) if (!M.s[i].live && !M.s[i].due_now) { m = i; break; }
    /* the callback parameter must be known before the call: use the slot the model would take */
    int16_t id = COTmrCreate(&Node.Tmr, start, cycle, act_cb, m >= 0 ? (void *)&M.s[m] : (void *)&M.s[0]);
    mc_log("    create(start=%u,cycle=%u,kind=%d)%s -> %d\n", start, cycle, kind, from_cb ? " [in callback]" : "", id);
    if (expect_fail) {
        if (id >= 0) mc_fail("create-succeeded-unexpectedly", "create(%u,%u) returned %d although %s", start, cycle, id,
                             (start == 0 && cycle == 0) ? "both times are zero" : "no slot is free");
        return;
    }
    if (id < 0) { mc_fail("create-failed-unexpectedly", "create(%u,%u) failed although %d slot(s) are free", start, cycle, m_free_slots()); return; }
    if (id >= M.pool) { mc_fail("create-bad-id", "create returned id %d outside 0..%d", id, M.pool - 1); return; }
    for (int i = 0; i < M.pool; i++) if (M.s[i].live && M.s[i].id == id) { mc_fail("create-duplicate-id", "create returned id %d which is still live", id); return; }
    M.s[m].live = 1; M.s[m].kind = (uint8_t)kind; M.s[m].id = id; M.s[m].fired = 0; M.s[m].due_now = 0;
    M.s[m].rem = start ? start : cycle; M.s[m].period = cycle;
}

static void do_delete_id(int id)
{
    int m = -1;
    for (int i = 0; i < M.pool; i++) if (M.s[i].live && M.s[i].id == id) m = i;
    int16_t r = COTmrDelete(&Node.Tmr, (int16_t)id);
    mc_log("    delete(%d) -> %d (%s)\n", id, r, m >= 0 ? "live" : "not live");
    if (m >= 0) {
        if (r != 0) { mc_fail("delete-live-failed", "delete of live action id %d returned %d", id, r); return; }
        M.s[m].live = 0;
    }
    /* deleting something that is not live: return value not constrained by the statement */
}

static void act_cb(void *p)
{
    MSlot *s = (MSlot *)p;
    int m = (int)(s - M.s);
    w_cb(CB_TMR_ACTION, (uint32_t)m, 0, 0);
    mc_log("    callback of model slot %d (id %d, kind %d)\n", m, s->id, s->kind);
    if (m < 0 || m >= M.pool) { mc_fail("callback-bad-para", "callback with foreign parameter"); return; }
    if (!M.in_tick || !s->live) { mc_fail("callback-of-dead-action", "callback for slot %d which is not live (deleted or never created)", m); return; }
    if (!s->due_now) { mc_fail("callback-not-due", "callback for slot %d (id %d) which is not due on this tick (remaining %u)", m, s->id, s->rem); return; }
    if (s->fired) { mc_fail("callback-twice", "callback for slot %d ran twice for one expiry", m); return; }
    s->fired = 1;
    if (s->period == 0) s->live = 0;         /* one-shot (slot stays reserved until the step ends: due_now) */
    else s->rem = s->period;
    switch (s->kind) {
    case 1: {                                 /* delete another live action - also one that fell due on this very tick and has not run yet */
        for (int i = 0; i < M.pool; i++) if (i != m && M.s[i].live) {
            int waiting = M.s[i].due_now && !M.s[i].fired;
            do_delete_id(M.s[i].id);
            if (waiting && !M.s[i].live) { M.s[i].due_now = 1; M.s[i].fired = 1; }    /* cancelled: must not run any more, slot stays reserved for this step */
            break; }
        break; }
    case 4: {                                 /* delete the LAST other live action (kind 1 takes the first): with three actions on one tick the victim is not the neighbour of the running one */
        for (int i = M.pool - 1; i >= 0; i--) if (i != m && M.s[i].live) {
            int waiting = M.s[i].due_now && !M.s[i].fired;
            do_delete_id(M.s[i].id);
            if (waiting && !M.s[i].live) { M.s[i].due_now = 1; M.s[i].fired = 1; }
            break; }
        break; }
    case 2:                                   /* create a one-shot */
        if (m_free_slots() > 0) do_create(1, 0, 0, 1);
        break;
    case 3:                                   /* delete itself if cyclic */
        if (s->period > 0 && s->live) do_delete_id(s->id);
        break;
    default: break;
    }
}

static int build(int cfg)
{
    OdB b; CO_NODE_SPEC spec;
    int pool = POOLS[cfg];
    w_reset(1000);
    memset(&Node, 0, sizeof Node); memset(TMem, 0, sizeof TMem); memset(&M, 0, sizeof M); memset(SdoBuf, 0, sizeof SdoBuf); ErrReg = 0;
    M.pool = pool;
    if (pool >= 16) { NKIND = 2; NT = 3; } else if (pool >= 4) { NKIND = 4; NT = 3; } else { NKIND = 4; NT = 4; }
    NKIND = mc_opt("kinds", NKIND); NT = mc_opt("times", NT);
    od_init(&b, OD, 16); od_mandatory(&b, &ErrReg);
    spec.NodeId = 1; spec.Baudrate = 250000; spec.Dict = OD; spec.DictLen = 16; spec.EmcyCode = 0;
    spec.TmrMem = TMem; spec.TmrNum = (uint16_t)pool; spec.TmrFreq = 1000; spec.Drv = &W_IfDrv; spec.SdoBuf = SdoBuf;
    ASAN_UNPOISON_MEMORY_REGION(TMem, sizeof TMem);
    CONodeInit(&Node, &spec);
    CONodeStart(&Node);
    (void)CONodeGetErr(&Node);
    if (pool < MAXPOOL) ASAN_POISON_MEMORY_REGION(&TMem[pool], sizeof(CO_TMR_MEM) * (size_t)(MAXPOOL - pool));
    W_REG(Node); W_REG(OD); W_REG(ErrReg); W_REG(M);
    w_region(TMem, sizeof(CO_TMR_MEM) * (size_t)pool, 1);
    ev_create0 = 0;
    ev_delete0 = NT * NT * NKIND;
    ev_tick = ev_delete0 + (pool <= 4 ? pool : 4) + 2;     /* ids -1 .. min(pool,4) ; for pool 16: ids -1..3 and 16 */
    n_ev = ev_tick + 1;
    return n_ev;
}

static int del_id_of(int k)   /* k-th delete event -> id */
{
    int nids = (M.pool <= 4 ? M.pool : 4);
    if (k == 0) return -1;
    if (k <= nids) return k - 1;
    return M.pool;               /* == Max: out of range */
}

static const char *ev_name(int e)
{
    static char b[64];
    if (e < ev_delete0) { int k = e / (NT * NT), r = e % (NT * NT); snprintf(b, sizeof b, "create(start=%d,cycle=%d,kind=%d)", r / NT, r % NT, k); }
    else if (e < ev_tick) snprintf(b, sizeof b, "delete(id=%d)", del_id_of(e - ev_delete0));
    else snprintf(b, sizeof b, "tick");
    return b;
}

static int step(int e)
{
    if (e < ev_delete0) {
        int k = e / (NT * NT), r = e % (NT * NT);
        do_create((uint32_t)(r / NT), (uint32_t)(r % NT), k, 0);
    } else if (e < ev_tick) {
        do_delete_id(del_id_of(e - ev_delete0));
    } else {
        int ndue = 0;
        for (int i = 0; i < M.pool; i++) if (M.s[i].live) { M.s[i].rem--; if (M.s[i].rem == 0) { M.s[i].due_now = 1; M.s[i].fired = 0; ndue++; } }
        M.in_tick = 1;
        w_tick(&Node, 1);
        M.in_tick = 0;
        for (int i = 0; i < M.pool; i++) {
            if (M.s[i].due_now && !M.s[i].fired) mc_fail("expiry-lost", "action in model slot %d (id %d) fell due on this tick but its callback did not run", i, M.s[i].id);
            M.s[i].due_now = 0; M.s[i].fired = 0;
        }
        mc_log("    tick: %d action(s) due\n", ndue);
    }
    if (Node.Tmr.Elapsed != 0) mc_fail("elapsed-left", "elapsed list not empty after processing");
    (void)CONodeGetErr(&Node);                        /* the application reads (and thereby clears) the node error */
    for (int i = 0; i < M.pool; i++) if (!M.s[i].live) memset(&M.s[i], 0, sizeof M.s[i]);   /* canonical dead slots */
    return MC_OK;
}

static const mc_harness H = { "C07", "c07", 5, cfg_name, build, ev_name, step, 4, 8 };
int main(int argc, char **argv) { return mc_main(argc, argv, &H); }
