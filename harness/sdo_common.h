/* sdo_common.h - world (dictionary, node) and reference SDO server shared by C02..C05 and C01/sdo.
 *
 * The reference server encodes what the property statements and CiA 301 fix; where they leave a
 * choice the model computes the set of admissible responses and follows the branch the
 * implementation took (DESIGN.md appendix B).  Included by exactly one translation unit per binary. */
#ifndef SDO_COMMON_H
#define SDO_COMMON_H
#include <stdio.h>
#include "mc.h"
#include "world.h"
#include "od.h"

#ifndef SDO_DS1
#define SDO_DS1 10          /* domain that fits the transfer buffer   */
#endif
#ifndef SDO_DS2
#define SDO_DS2 30          /* domain larger than the (scaled) buffer */
#endif
#ifndef SDO_NODEID
#define SDO_NODEID 5
#endif
#define SDO_MAXDATA (SDO_DS2 + 16)

/* ------------------------------------------------------------------ world */
static CO_NODE    Node;
static CO_OBJ     OD[64];
static uint8_t    ErrReg;
static uint8_t    SdoBuf[CO_SSDO_N * CO_SDO_BUF_BYTE];
static CO_TMR_MEM TMem[4];
static uint8_t    V8;
static uint16_t   V16;
static uint32_t   V32, V32ro, V32wo, V32nid, V32sub, V32range, V32user;
static uint8_t    Dom3[3], DomA[SDO_DS1], DomB[SDO_DS2];
static CO_OBJ_DOM DomO3, DomOA, DomOB;
static uint8_t    Str3[4], Str5[6], Str12[13], StrV[SDO_DS2 + 1], StrW[13];
static CO_OBJ_STR StrO3, StrO5, StrO12, StrOV, StrOW;

/* user types */
static uint32_t UtSize(CO_OBJ *o, CO_NODE *n, uint32_t w) { (void)o; (void)n; (void)w; return 4; }
static CO_ERR UtRead(CO_OBJ *o, CO_NODE *n, void *b, uint32_t s) { (void)n; if (s != 4) return CO_ERR_BAD_ARG; *(uint32_t *)b = *(uint32_t *)o->Data; return CO_ERR_NONE; }
static CO_ERR UtRangeWrite(CO_OBJ *o, CO_NODE *n, void *b, uint32_t s)
{
    (void)n; if (s != 4) return CO_ERR_BAD_ARG;
    if (*(uint32_t *)b > 100u) return CO_ERR_OBJ_RANGE;
    *(uint32_t *)o->Data = *(uint32_t *)b; return CO_ERR_NONE;
}
#define SDO_USER_ABORT 0x08000022u      /* a code none of the stack's own paths produces */
static CO_ERR UtUserWrite(CO_OBJ *o, CO_NODE *n, void *b, uint32_t s)
{
    if (s != 4) return CO_ERR_BAD_ARG;
    /* the type supplies its own abort code; its return value is one the stack maps itself (200) or an unspecific one (everything else):
     * the application-supplied code has to win in both cases */
    if (*(uint32_t *)b > 100u) { COObjTypeUserSDOAbort(o, n, SDO_USER_ABORT); return *(uint32_t *)b == 200u ? CO_ERR_OBJ_RANGE : CO_ERR_TYPE_WR; }
    *(uint32_t *)o->Data = *(uint32_t *)b; return CO_ERR_NONE;
}
/* a parameter group over the 32-bit variable 2002h whose NVM image differs from RAM (changed and not saved): reading 1010h must not load it */
#if CO_SSDO_N > 1
static uint32_t S1Id[2]; static const uint32_t S1IdDflt[2] = { 0x6C1, 0x5C1 }; static CO_PARA SdoPara3;
#endif
static uint32_t CsId[2];      /* COB-IDs of SDO client 0 (1280h:1/:2): they share the type function of the server COB-IDs 1200h */
static CO_PARA SdoPara, SdoPara2; static uint32_t SdoParaDflt = 0x0D0E0F00u;      /* second group: reset type node, over 2001h */
static const CO_OBJ_TYPE UtRange = { UtSize, 0, UtRead, UtRangeWrite, 0 };
static const CO_OBJ_TYPE UtUser  = { UtSize, 0, UtRead, UtUserWrite, 0 };

enum { K_BASIC, K_DOMAIN, K_STRING, K_RANGE, K_USER };
typedef struct { uint16_t idx; uint8_t sub, rd, wr, kind; uint32_t size; uint8_t *mem; uint8_t direct, nid; } ODesc;
enum { O_U8, O_U16, O_U32, O_U32D, O_RO, O_WO, O_NID, O_U16D, O_U8D, O_U32Z, O_PSTORE0, O_DOM3, O_DOMA, O_DOMB, O_STR3, O_STR5, O_STR12, O_STRV, O_STRW, O_SUB0, O_SUB1, O_RANGE, O_USER, O_N };
static ODesc OBJ[O_N];
static uint8_t MV[O_N][SDO_DS2 + 1];       /* the model's copy of every object's SDO-visible value */
static uint8_t MV0[O_N][SDO_DS2 + 1];      /* ... and the initial values */

static void sdo_def(int i, uint16_t idx, uint8_t sub, int rd, int wr, int kind, uint32_t size, void *mem, int direct, int nid)
{
    OBJ[i].idx = idx; OBJ[i].sub = sub; OBJ[i].rd = (uint8_t)rd; OBJ[i].wr = (uint8_t)wr; OBJ[i].kind = (uint8_t)kind;
    OBJ[i].size = size; OBJ[i].mem = mem; OBJ[i].direct = (uint8_t)direct; OBJ[i].nid = (uint8_t)nid;
}

static void impl_value(int i, uint8_t *out)     /* SDO-visible value as stored by the implementation */
{
    const ODesc *o = &OBJ[i];
    if (o->direct) {
        CO_OBJ *e = CODictFind(&Node.Dict, CO_DEV(o->idx, o->sub));
        uint32_t v = e ? (uint32_t)e->Data : 0xDEADBEEF;
        if (o->nid) v += Node.NodeId;
        memcpy(out, &v, o->size);
    } else if (o->nid) {
        uint32_t v; memcpy(&v, o->mem, 4); v += Node.NodeId; memcpy(out, &v, 4);
    } else memcpy(out, o->mem, o->size);
}

static void sdo_world_build(uint32_t nmt_operational)
{
    OdB b; CO_NODE_SPEC spec; int i;
    w_reset(1000);
    memset(&Node, 0, sizeof Node); memset(TMem, 0, sizeof TMem); memset(SdoBuf, 0, sizeof SdoBuf); ErrReg = 0;
    V8 = 0x11; V16 = 0x2222; V32 = 0x33333333; V32ro = 0x44444444; V32wo = 0x55555555; V32nid = 0x66; V32sub = 0x77777777; V32range = 7; V32user = 8;
    for (i = 0; i < 3; i++) Dom3[i] = (uint8_t)(0xA0 + i);
    for (i = 0; i < SDO_DS1; i++) DomA[i] = (uint8_t)(0xB0 + i);
    for (i = 0; i < SDO_DS2; i++) DomB[i] = (uint8_t)(0x40 + (i % 0x3F));
    memcpy(Str3, "abc", 4); memcpy(Str5, "hello", 6); memcpy(Str12, "hello, world", 13); memcpy(StrW, "write me not", 13);
    DomO3.Offset = 0; DomO3.Size = 3; DomO3.Start = Dom3;
    DomOA.Offset = 0; DomOA.Size = SDO_DS1; DomOA.Start = DomA;
    DomOB.Offset = 0; DomOB.Size = SDO_DS2; DomOB.Start = DomB;
    for (i = 0; i < 9; i++) StrV[i] = (uint8_t)('A' + i);
    StrV[9] = 0; StrOV.Offset = 0; StrOV.Start = StrV;
    StrO3.Offset = 0; StrO3.Start = Str3; StrO5.Offset = 0; StrO5.Start = Str5; StrO12.Offset = 0; StrO12.Start = Str12; StrOW.Offset = 0; StrOW.Start = StrW;
    od_init(&b, OD, 64); od_mandatory(&b, &ErrReg); od_sdo_server0(&b);
#if CO_SSDO_N > 1
    /* the second server's identifiers are writable and live in a stored communication parameter group (1010h:3): RAM and NVM can differ at a reset */
    S1Id[0] = 0x6C1; S1Id[1] = 0x5C1;
    od_add(&b, CO_KEY(0x1201, 0, CO_OBJ_D___R_), CO_TUNSIGNED8,  (CO_DATA)2);
    od_add(&b, CO_KEY(0x1201, 1, CO_OBJ_____RW), CO_TSDO_ID, (CO_DATA)&S1Id[0]);
    od_add(&b, CO_KEY(0x1201, 2, CO_OBJ_____RW), CO_TSDO_ID, (CO_DATA)&S1Id[1]);
    SdoPara3.Offset = 0x70; SdoPara3.Size = 8; SdoPara3.Start = (uint8_t *)S1Id; SdoPara3.Default = (uint8_t *)S1IdDflt; SdoPara3.Type = CO_RESET_COM; SdoPara3.Ident = (void *)"s1"; SdoPara3.Value = CO_PARA___E;
    memcpy(&DRV.nvm[0x70], S1Id, 8);
    od_add(&b, CO_KEY(0x1010, 3, CO_OBJ_____RW), CO_TPARA_STORE, (CO_DATA)&SdoPara3);
#endif
    CsId[0] = 0x60A; CsId[1] = 0x58A;
    od_add(&b, CO_KEY(0x1280, 0, CO_OBJ_D___R_), CO_TUNSIGNED8,  (CO_DATA)3);
    od_add(&b, CO_KEY(0x1280, 1, CO_OBJ_____RW), CO_TSDO_ID, (CO_DATA)&CsId[0]);
    od_add(&b, CO_KEY(0x1280, 2, CO_OBJ_____RW), CO_TSDO_ID, (CO_DATA)&CsId[1]);
    od_add(&b, CO_KEY(0x1280, 3, CO_OBJ_D___R_), CO_TUNSIGNED8,  (CO_DATA)10);
    SdoPara.Offset = 0x60; SdoPara.Size = 4; SdoPara.Start = (uint8_t *)&V32; SdoPara.Default = (uint8_t *)&SdoParaDflt; SdoPara.Type = CO_RESET_COM; SdoPara.Ident = (void *)"v32"; SdoPara.Value = CO_PARA___E;
    SdoPara2.Offset = 0x68; SdoPara2.Size = 2; SdoPara2.Start = (uint8_t *)&V16; SdoPara2.Default = (uint8_t *)&SdoParaDflt; SdoPara2.Type = CO_RESET_NODE; SdoPara2.Ident = (void *)"v16"; SdoPara2.Value = CO_PARA___E;
    od_add(&b, CO_KEY(0x1010, 0, CO_OBJ_D___R_), CO_TPARA_STORE, (CO_DATA)(CO_SSDO_N > 1 ? 3 : 2));
    od_add(&b, CO_KEY(0x1010, 1, CO_OBJ_____RW), CO_TPARA_STORE, (CO_DATA)&SdoPara);
    od_add(&b, CO_KEY(0x1010, 2, CO_OBJ_____RW), CO_TPARA_STORE, (CO_DATA)&SdoPara2);
    memcpy(&DRV.nvm[0x60], &V32, 4); memcpy(&DRV.nvm[0x68], &V16, 2);  /* the image the node starts from */
    od_add(&b, CO_KEY(0x2000, 0, CO_OBJ_____RW), CO_TUNSIGNED8,  (CO_DATA)&V8);
    od_add(&b, CO_KEY(0x2001, 0, CO_OBJ_____RW), CO_TUNSIGNED16, (CO_DATA)&V16);
    od_add(&b, CO_KEY(0x2002, 0, CO_OBJ_____RW), CO_TUNSIGNED32, (CO_DATA)&V32);
    od_add(&b, CO_KEY(0x2003, 0, CO_OBJ_D___RW), CO_TUNSIGNED32, (CO_DATA)0x12345678);
    od_add(&b, CO_KEY(0x2004, 0, CO_OBJ_____R_), CO_TUNSIGNED32, (CO_DATA)&V32ro);
    od_add(&b, CO_KEY(0x2005, 0, CO_OBJ______W), CO_TUNSIGNED32, (CO_DATA)&V32wo);
    od_add(&b, CO_KEY(0x2006, 0, CO_OBJ__N__RW), CO_TUNSIGNED32, (CO_DATA)&V32nid);
    od_add(&b, CO_KEY(0x2007, 0, CO_OBJ_D___RW), CO_TUNSIGNED16, (CO_DATA)0);           /* direct value whose content is 0: Data == 0 is a value here, not "no data" */
    od_add(&b, CO_KEY(0x2008, 0, CO_OBJ_D___RW), CO_TUNSIGNED8,  (CO_DATA)0);
    od_add(&b, CO_KEY(0x2009, 0, CO_OBJ_D___RW), CO_TUNSIGNED32, (CO_DATA)0);
    od_add(&b, CO_KEY(0x2010, 0, CO_OBJ_____RW), CO_TDOMAIN, (CO_DATA)&DomO3);
    od_add(&b, CO_KEY(0x2011, 0, CO_OBJ_____RW), CO_TDOMAIN, (CO_DATA)&DomOA);
    od_add(&b, CO_KEY(0x2012, 0, CO_OBJ_____RW), CO_TDOMAIN, (CO_DATA)&DomOB);
    od_add(&b, CO_KEY(0x2020, 0, CO_OBJ_____R_), CO_TSTRING, (CO_DATA)&StrO3);
    od_add(&b, CO_KEY(0x2021, 0, CO_OBJ_____R_), CO_TSTRING, (CO_DATA)&StrO5);
    od_add(&b, CO_KEY(0x2022, 0, CO_OBJ_____R_), CO_TSTRING, (CO_DATA)&StrO12);
    od_add(&b, CO_KEY(0x2023, 0, CO_OBJ_____R_), CO_TSTRING, (CO_DATA)&StrOV);
    /* a string whose key says "writable" although the string type has no write function: every download to it has to be refused -
     * with exactly one abort frame, whatever the transfer mode, and the server is idle afterwards */
    od_add(&b, CO_KEY(0x2024, 0, CO_OBJ_____RW), CO_TSTRING, (CO_DATA)&StrOW);
    od_add(&b, CO_KEY(0xA030, 0, CO_OBJ_D___R_), CO_TUNSIGNED8,  (CO_DATA)1);
    od_add(&b, CO_KEY(0xA030, 1, CO_OBJ_____RW), CO_TUNSIGNED32, (CO_DATA)&V32sub);
    od_add(&b, CO_KEY(0xA040, 0, CO_OBJ_____RW), &UtRange, (CO_DATA)&V32range);
    od_add(&b, CO_KEY(0xA041, 0, CO_OBJ_____RW), &UtUser,  (CO_DATA)&V32user);
    sdo_def(O_U8,   0x2000, 0, 1, 1, K_BASIC, 1, &V8, 0, 0);
    sdo_def(O_U16,  0x2001, 0, 1, 1, K_BASIC, 2, &V16, 0, 0);
    sdo_def(O_U32,  0x2002, 0, 1, 1, K_BASIC, 4, &V32, 0, 0);
    sdo_def(O_U32D, 0x2003, 0, 1, 1, K_BASIC, 4, 0, 1, 0);
    sdo_def(O_RO,   0x2004, 0, 1, 0, K_BASIC, 4, &V32ro, 0, 0);
    sdo_def(O_WO,   0x2005, 0, 0, 1, K_BASIC, 4, &V32wo, 0, 0);
    sdo_def(O_NID,  0x2006, 0, 1, 1, K_BASIC, 4, &V32nid, 0, 1);
    sdo_def(O_PSTORE0, 0x1010, 0, 1, 0, K_BASIC, 1, 0, 1, 0);
    sdo_def(O_U16D, 0x2007, 0, 1, 1, K_BASIC, 2, 0, 1, 0);
    sdo_def(O_U8D,  0x2008, 0, 1, 1, K_BASIC, 1, 0, 1, 0);
    sdo_def(O_U32Z, 0x2009, 0, 1, 1, K_BASIC, 4, 0, 1, 0);
    sdo_def(O_DOM3, 0x2010, 0, 1, 1, K_DOMAIN, 3, Dom3, 0, 0);
    sdo_def(O_DOMA, 0x2011, 0, 1, 1, K_DOMAIN, SDO_DS1, DomA, 0, 0);
    sdo_def(O_DOMB, 0x2012, 0, 1, 1, K_DOMAIN, SDO_DS2, DomB, 0, 0);
    sdo_def(O_STR3, 0x2020, 0, 1, 0, K_STRING, 3, Str3, 0, 0);
    sdo_def(O_STR5, 0x2021, 0, 1, 0, K_STRING, 5, Str5, 0, 0);
    sdo_def(O_STR12,0x2022, 0, 1, 0, K_STRING, 12, Str12, 0, 0);
    sdo_def(O_STRV, 0x2023, 0, 1, 0, K_STRING, 9, StrV, 0, 0);
    sdo_def(O_STRW, 0x2024, 0, 1, 1, K_STRING, 12, StrW, 0, 0);
    sdo_def(O_SUB0, 0xA030, 0, 1, 0, K_BASIC, 1, 0, 1, 0);
    sdo_def(O_SUB1, 0xA030, 1, 1, 1, K_BASIC, 4, &V32sub, 0, 0);
    sdo_def(O_RANGE,0xA040, 0, 1, 1, K_RANGE, 4, &V32range, 0, 0);
    sdo_def(O_USER, 0xA041, 0, 1, 1, K_USER, 4, &V32user, 0, 0);
    spec.NodeId = SDO_NODEID; spec.Baudrate = 250000; spec.Dict = OD; spec.DictLen = 64; spec.EmcyCode = 0;
    spec.TmrMem = TMem; spec.TmrNum = 4; spec.TmrFreq = 1000; spec.Drv = &W_IfDrv; spec.SdoBuf = SdoBuf;
    CONodeInit(&Node, &spec);
    CONodeStart(&Node);
    if (nmt_operational) CONmtSetMode(&Node.Nmt, CO_OPERATIONAL);
    (void)CONodeGetErr(&Node);
    { uint32_t other = 0xDEADBEEFu; memcpy(&DRV.nvm[0x60], &other, 4); memcpy(&DRV.nvm[0x68], &other, 2); }   /* NVM and RAM differ from now on */
    W_REG(SdoPara); W_REG(SdoPara2); W_REG(CsId);
#if CO_SSDO_N > 1
    W_REG(S1Id); W_REG(SdoPara3);
#endif
    memset(MV, 0, sizeof MV);
    for (i = 0; i < O_N; i++) impl_value(i, MV[i]);
    memcpy(MV0, MV, sizeof MV0);
    W_REG(Node); W_REG(OD); W_REG(ErrReg); W_REG(SdoBuf); W_REG(TMem);
    W_REG(V8); W_REG(V16); W_REG(V32); W_REG(V32ro); W_REG(V32wo); W_REG(V32nid); W_REG(V32sub); W_REG(V32range); W_REG(V32user);
    W_REG(Dom3); W_REG(DomA); W_REG(DomB); W_REG(DomO3); W_REG(DomOA); W_REG(DomOB);
    W_REG(StrO3); W_REG(StrO5); W_REG(StrO12); W_REG(StrOV); W_REG(StrV); W_REG(StrOW); W_REG(StrW);
    W_REG(MV);
    for (i = 0; i < CO_SSDO_N; i++) w_nohash_range(&Node.Sdo[i].Frm, sizeof Node.Sdo[i].Frm);   /* points into the stack */
}

/* Coarse state identity (option coarse=1): while a server is idle, the fields every initiate request
 * re-initialises before reading them (latched multiplexer, buffer cursor/content, segment and block counters)
 * and the read/write offsets of objects no server addresses are zeroed for hashing only.  The merged states are
 * assumed to have equal futures; the fine-grained explorations (coarse=0) check exactly that assumption to
 * their depth bound - stale-field reads such as the A3h-while-idle defect are found there. */
static struct { CO_SDO sdo[CO_SSDO_N]; uint8_t buf[sizeof SdoBuf]; uint32_t off[8]; int active; } SdoSave;
static void sdo_prehash(int phase);
static int sdo_coarse;
static int sdo_find(uint16_t idx, uint8_t sub) { for (int i = 0; i < O_N; i++) if (OBJ[i].idx == idx && OBJ[i].sub == sub) return i; return -1; }
static int sdo_index_exists(uint16_t idx)
{
    /* the statement: "unknown index 0602 0000h, unknown sub-index 0609 0011h".  The index exists if any sub of it does. */
    for (int i = 0; i < O_N; i++) if (OBJ[i].idx == idx) return 1;
    if (idx == 0x1000 || idx == 0x1001 || idx == 0x1018 || idx == 0x1200 || idx == 0x1280) return 1;
#if CO_SSDO_N > 1
    if (idx == 0x1201) return 1;
#endif
    return 0;
}

/* ------------------------------------------------------------------ reference server */
enum { S_IDLE, S_SEGDL, S_SEGUL, S_BLKDL, S_BLKDL_END, S_BLKUL_INIT, S_BLKUL, S_BLKUL_END, S_UNSPEC };
static const char *const S_NAME[] = { "idle", "seg-download", "seg-upload", "blk-download", "blk-download-end", "blk-upload-init", "blk-upload", "blk-upload-end", "unspecified" };
typedef struct {
    uint8_t  st; int8_t obj; uint8_t tog, announced;
    uint32_t ann_size, got, off;
    uint8_t  blksize, next, sent, seqerr, final_seen;
    uint32_t blk_off;                    /* upload: offset at the start of the block in flight */
    uint8_t  data[SDO_MAXDATA];
} SModel;
static SModel SM[CO_SSDO_N];
static int    sdo_srv_off[CO_SSDO_N];    /* server switched off through its COB-ID 12xxh:1 (bit 31): requests on its identifier get no answer */
static int    sdo_dirty_obj[CO_SSDO_N];  /* object whose content the model no longer predicts (open/unspecified download), -1 none */

static void sm_reset(SModel *m) { memset(m, 0, sizeof *m); m->obj = -1; m->st = S_IDLE; }
static void sdo_model_init(void)
{
    for (int i = 0; i < CO_SSDO_N; i++) { sm_reset(&SM[i]); sdo_dirty_obj[i] = -1; }
    W_REG(SM); W_REG(sdo_dirty_obj); memset(sdo_srv_off, 0, sizeof sdo_srv_off); W_REG(sdo_srv_off);
    sdo_coarse = mc_opt("coarse", 0);
    if (sdo_coarse) w_prehash = sdo_prehash;
}

static uint32_t f_mux(const uint8_t *d) { return ((uint32_t)d[1]) | ((uint32_t)d[2] << 8) | ((uint32_t)d[3] << 16); }
static int r_is_abort(const WFrame *r, int n) { return n == 1 && r[0].dlc == 8 && r[0].d[0] == 0x80; }

static char sdo_diag[700];
static const char *sdo_ctx = "";
#define SDO_FAIL(sig, ...) do { snprintf(sdo_diag, sizeof sdo_diag, __VA_ARGS__); sdo_fail(sig, srvno, m, req, resp, nresp); return; } while (0)
static void sdo_fail(const char *sig, int srvno, const SModel *m, const uint8_t *req, const WFrame *resp, int nresp)
{
    char fr[64] = "-"; if (nresp > 0) w_fmt_frame(fr, sizeof fr, &resp[0]);
    mc_fail(sig, "%sserver %d in model state '%s' (object %04X:%02X), request %02X %02X %02X %02X %02X %02X %02X %02X -> %d frame(s), first %s: %s",
            sdo_ctx, srvno, S_NAME[m->st], m->obj >= 0 ? OBJ[m->obj].idx : 0, m->obj >= 0 ? OBJ[m->obj].sub : 0,
            req[0], req[1], req[2], req[3], req[4], req[5], req[6], req[7], nresp, fr, sdo_diag);
}

/* dictionary image comparison: every object the model predicts must equal the model's copy */
static int sdo_image_check(char *why, size_t n)
{
    uint8_t v[SDO_DS2 + 1];
    for (int i = 0; i < O_N; i++) {
        int dirty = 0;
        for (int s = 0; s < CO_SSDO_N; s++) if (sdo_dirty_obj[s] == i) dirty = 1;
        if (dirty) continue;
        impl_value(i, v);
        if (memcmp(v, MV[i], OBJ[i].size) != 0) {
            uint32_t k = 0; while (k < OBJ[i].size && v[k] == MV[i][k]) k++;
            snprintf(why, n, "object %04X:%02X differs from the reference at byte %u: has %02X, expected %02X", OBJ[i].idx, OBJ[i].sub, k, v[k], MV[i][k]);
            return 1;
        }
    }
    return 0;
}
static void sdo_adopt(int i) { if (i >= 0) impl_value(i, MV[i]); }

/* verdict of an initiate request from idle.  Returns the abort code the server MUST answer with, 0 if the
 * request has to be accepted, or 1 if both an abort (any code) and acceptance are admissible. */
#define V_ACCEPT 0u
#define V_EITHER 1u
static uint32_t verdict_lookup(uint16_t idx, uint8_t sub, int write, int *oi)
{
    int i = sdo_find(idx, sub);
    *oi = i;
    if (i < 0) {
        /* entries of the harness dictionary that the model does not track individually (1000h, 1018h, 1200h ...) */
        CO_OBJ *e = CODictFind(&Node.Dict, CO_DEV(idx, sub));
        if (e) return V_EITHER;
        if (sub != 0 && sdo_index_exists(idx)) return CO_SDO_ERR_SUB;
        return CO_SDO_ERR_OBJ;
    }
    if (write && !OBJ[i].wr) return CO_SDO_ERR_WR;
    if (!write && !OBJ[i].rd) return CO_SDO_ERR_RD;
    return V_ACCEPT;
}

/* type acceptance of a complete value */
static uint32_t verdict_value(int i, const uint8_t *val, uint32_t len)
{
    uint32_t v = 0;
    if (OBJ[i].kind == K_RANGE || OBJ[i].kind == K_USER) {
        if (len != 4) return CO_SDO_ERR_TOS;
        memcpy(&v, val, 4);
        if (v > 100u) return OBJ[i].kind == K_RANGE ? CO_SDO_ERR_RANGE : SDO_USER_ABORT;
    }
    return 0;
}

static void model_commit(SModel *m, int srvno, uint32_t len)
{
    (void)srvno;
    memcpy(MV[m->obj], m->data, len);      /* bytes [len, size) stay untouched */
}

/* Evaluate request `req` as a request to an idle server.  Returns 1 if the observed response is admissible
 * (model state updated), 0 otherwise with sdo_diag filled. */
static int idle_row(SModel *m, int srvno, const uint8_t *req, const WFrame *resp, int nresp, const char **sig)
{
    uint8_t  cmd = req[0];
    uint16_t idx = (uint16_t)(req[1] | (req[2] << 8)); uint8_t sub = req[3];
    int oi; uint32_t vd, code;
    *sig = "sdo-bad-response";
    sm_reset(m);
    if (nresp != 1) { *sig = "sdo-response-count"; snprintf(sdo_diag, sizeof sdo_diag, "exactly one response frame expected"); return 0; }
    const uint8_t *r = resp[0].d;
    if (resp[0].dlc != 8) { snprintf(sdo_diag, sizeof sdo_diag, "response DLC %d, expected 8", resp[0].dlc); return 0; }
    code = w_get32(r + 4);
    #define NEED_ABORT(c, what) do { if (r[0] != 0x80 || code != (c) || f_mux(r) != f_mux(req)) { *sig = "sdo-wrong-verdict"; \
        snprintf(sdo_diag, sizeof sdo_diag, "%s: expected abort %08X for %04X:%02X", what, (unsigned)(c), idx, sub); return 0; } return 1; } while (0)

    #define NEED_ANY_ABORT(what) do { if (r[0] != 0x80 || f_mux(r) != f_mux(req)) { *sig = "sdo-wrong-verdict"; \
        snprintf(sdo_diag, sizeof sdo_diag, "%s: expected an abort for %04X:%02X", what, idx, sub); return 0; } return 1; } while (0)

    if ((cmd & 0xE0) == 0x20) {                                   /* initiate download */
        int e = (cmd >> 1) & 1, s = cmd & 1, n = (cmd >> 2) & 3;
        if (cmd & 0x10) { if (r[0] == 0x80) return 1; /* reserved bit set: abort admissible, else treat as if clear */ }
        vd = verdict_lookup(idx, sub, 1, &oi);
        if (vd == V_EITHER) { if (r[0] == 0x80) return 1; if (r[0] == 0x60 && f_mux(r) == f_mux(req)) { if (!e) { m->st = S_UNSPEC; } return 1; }
            snprintf(sdo_diag, sizeof sdo_diag, "untracked object: neither abort nor confirmation"); return 0; }
        if (vd != V_ACCEPT) NEED_ABORT(vd, "lookup/access");
        if (OBJ[oi].kind == K_STRING) NEED_ANY_ABORT("download to an object whose type cannot be written");
        uint32_t S = OBJ[oi].size;
        if (e) {
            uint32_t L = s ? (uint32_t)(4 - n) : S;
            if (!s && S > 4) { if (r[0] == 0x80) return 1; *sig = "sdo-wrong-verdict"; snprintf(sdo_diag, sizeof sdo_diag, "expedited download without size to an object of %u bytes must be aborted", S); return 0; }
            if (L > S) NEED_ABORT(CO_SDO_ERR_LEN_HIGH, "length too high");
            if (L < S) {
                if (OBJ[oi].kind == K_DOMAIN) {   /* partial write of a domain: abort 0607 0013 or acceptance are both admissible */
                    if (r[0] == 0x80 && code == CO_SDO_ERR_LEN_SMALL && f_mux(r) == f_mux(req)) return 1;
                } else NEED_ABORT(CO_SDO_ERR_LEN_SMALL, "length too low");
            }
            code = verdict_value(oi, req + 4, L);
            if (code) { vd = code; code = w_get32(r + 4); NEED_ABORT(vd, "value rejected by type"); }
            code = w_get32(r + 4);
            if (r[0] != 0x60 || f_mux(r) != f_mux(req)) { *sig = "sdo-wrong-verdict"; snprintf(sdo_diag, sizeof sdo_diag, "valid expedited download of %u byte(s) must be confirmed with 60h and the request multiplexer", L); return 0; }
            memcpy(MV[oi], req + 4, L);
            return 1;
        }
        /* segmented */
        uint32_t L = s ? w_get32(req + 4) : 0;
        if (s && L > S) NEED_ABORT(CO_SDO_ERR_LEN_HIGH, "announced length too high");
        if (s && L < S) {
            if (OBJ[oi].kind != K_DOMAIN) NEED_ABORT(CO_SDO_ERR_LEN_SMALL, "announced length too low");
            if (r[0] == 0x80 && code == CO_SDO_ERR_LEN_SMALL && f_mux(r) == f_mux(req)) return 1;
        }
        if (s && L == 0) { if (r[0] == 0x80) return 1; }
        if (r[0] != 0x60 || f_mux(r) != f_mux(req)) { *sig = "sdo-wrong-verdict"; snprintf(sdo_diag, sizeof sdo_diag, "valid initiate segmented download must be confirmed with 60h and the request multiplexer"); return 0; }
        if (s && L == 0) s = 0;                                   /* "size 0 indicated" is read as no indication */
        m->st = S_SEGDL; m->obj = (int8_t)oi; m->tog = 0; m->got = 0; m->announced = (uint8_t)s; m->ann_size = L;
        return 1;
    }
    if ((cmd & 0xE0) == 0x40) {                                   /* initiate upload */
        if (cmd != 0x40) { if (r[0] == 0x80) return 1; }
        vd = verdict_lookup(idx, sub, 0, &oi);
        if (vd == V_EITHER) { if (r[0] == 0x80) return 1; if ((r[0] & 0xE0) == 0x40 && f_mux(r) == f_mux(req)) { if (!(r[0] & 2)) m->st = S_UNSPEC; return 1; }
            snprintf(sdo_diag, sizeof sdo_diag, "untracked object: neither abort nor upload response"); return 0; }
        if (vd != V_ACCEPT) NEED_ABORT(vd, "lookup/access");
        uint32_t S = OBJ[oi].size;
        if (f_mux(r) != f_mux(req)) { *sig = "sdo-wrong-multiplexer"; snprintf(sdo_diag, sizeof sdo_diag, "upload response carries multiplexer %06X instead of the request's", f_mux(r)); return 0; }
        if ((r[0] & 0xE3) == 0x43 && S <= 4) {                    /* expedited, size indicated */
            uint32_t n = (r[0] >> 2) & 3;
            if (4 - n != S) { *sig = "sdo-wrong-size"; snprintf(sdo_diag, sizeof sdo_diag, "expedited upload announces %u byte(s), object has %u", 4 - n, S); return 0; }
            if (memcmp(r + 4, MV[oi], S) != 0) { *sig = "sdo-wrong-data"; snprintf(sdo_diag, sizeof sdo_diag, "expedited upload data %02X%02X%02X%02X differs from the object content %02X%02X%02X%02X (first %u byte(s) count)", r[4], r[5], r[6], r[7], MV[oi][0], MV[oi][1], MV[oi][2], MV[oi][3], S); return 0; }
            return 1;
        }
        if (r[0] == 0x41) {                                       /* segmented, size indicated */
            if (code != S) { *sig = "sdo-wrong-size"; snprintf(sdo_diag, sizeof sdo_diag, "upload announces %u bytes, object has %u", code, S); return 0; }
            m->st = S_SEGUL; m->obj = (int8_t)oi; m->tog = 0; m->off = 0;
            return 1;
        }
        *sig = "sdo-wrong-verdict"; snprintf(sdo_diag, sizeof sdo_diag, "valid initiate upload of a %u-byte object not answered with 43h|n / 41h", S); return 0;
    }
    if ((cmd & 0xE1) == 0xC0) {                                   /* initiate block download */
        int s = (cmd >> 1) & 1;
        if (cmd & 0x18) { if (r[0] == 0x80) return 1; }
        vd = verdict_lookup(idx, sub, 1, &oi);
        if (vd == V_EITHER) { if (r[0] == 0x80) return 1; m->st = S_UNSPEC; return 1; }
        if (vd != V_ACCEPT) NEED_ABORT(vd, "lookup/access");
        if (OBJ[oi].kind == K_STRING) NEED_ANY_ABORT("download to an object whose type cannot be written");
        uint32_t S = OBJ[oi].size, L = s ? w_get32(req + 4) : 0;
        if (s && L > S) NEED_ABORT(CO_SDO_ERR_LEN_HIGH, "announced length too high");
        if (s && L < S && OBJ[oi].kind != K_DOMAIN) { if (r[0] == 0x80 && code == CO_SDO_ERR_LEN_SMALL && f_mux(r) == f_mux(req)) return 1; }
        if (s && L == 0) { if (r[0] == 0x80) return 1; }
        if ((r[0] & 0xFB) != 0xA0 || f_mux(r) != f_mux(req)) { *sig = "sdo-wrong-verdict"; snprintf(sdo_diag, sizeof sdo_diag, "valid initiate block download must be confirmed with A0h and the request multiplexer"); return 0; }
        if (r[4] < 1 || r[4] > 127) { snprintf(sdo_diag, sizeof sdo_diag, "block size %u outside 1..127", r[4]); return 0; }
        if (s && L == 0) s = 0;
        m->st = S_BLKDL; m->obj = (int8_t)oi; m->got = 0; m->announced = (uint8_t)s; m->ann_size = L; m->blksize = r[4]; m->next = 1; m->seqerr = 0; m->final_seen = 0;
        return 1;
    }
    if ((cmd & 0xE3) == 0xA0) {                                   /* initiate block upload */
        vd = verdict_lookup(idx, sub, 0, &oi);
        if (vd == V_EITHER) { if (r[0] == 0x80) return 1; m->st = S_UNSPEC; return 1; }
        if (vd != V_ACCEPT) NEED_ABORT(vd, "lookup/access");
        if (req[4] < 1 || req[4] > 127) NEED_ABORT(CO_SDO_ERR_BLK_SIZE, "block size outside 1..127");
        uint32_t S = OBJ[oi].size;
        if (f_mux(r) != f_mux(req)) { *sig = "sdo-wrong-multiplexer"; snprintf(sdo_diag, sizeof sdo_diag, "block upload response carries multiplexer %06X", f_mux(r)); return 0; }
        if ((r[0] & 0xE0) == 0x40 && req[5] != 0) {               /* protocol switch to segmented/expedited upload is allowed when pst != 0 */
            snprintf(sdo_diag, sizeof sdo_diag, "protocol switch not modelled"); return 0;
        }
        if ((r[0] & 0xFB) != 0xC2) { *sig = "sdo-wrong-verdict"; snprintf(sdo_diag, sizeof sdo_diag, "valid initiate block upload must be answered with C2h (size indicated)"); return 0; }
        if (code != S) { *sig = "sdo-wrong-size"; snprintf(sdo_diag, sizeof sdo_diag, "block upload announces %u bytes, object has %u", code, S); return 0; }
        m->st = S_BLKUL_INIT; m->obj = (int8_t)oi; m->off = 0; m->blksize = req[4];
        return 1;
    }
    /* everything else is no initiate request: from idle it has to be refused */
    if (r[0] != 0x80) { *sig = "sdo-not-refused"; snprintf(sdo_diag, sizeof sdo_diag, "request that opens no transfer must be answered with an abort"); return 0; }
    if ((cmd & 0xE0) == 0xE0 && code != CO_SDO_ERR_CMD) { *sig = "sdo-wrong-verdict"; snprintf(sdo_diag, sizeof sdo_diag, "undefined command specifier must be refused with 0504 0001h, got %08X", code); return 0; }
    return 1;
    #undef NEED_ABORT
    #undef NEED_ANY_ABORT
}

/* upload block streaming check: frames resp[0..n) must be segments 1..k of the data starting at m->off */
static int check_block_stream(SModel *m, const WFrame *resp, int nresp, uint8_t blksize)
{
    uint32_t S = OBJ[m->obj].size, off = m->off; int k;
    uint32_t remaining = S - off;
    int expect = (int)((remaining + 6) / 7); if (expect > blksize) expect = blksize; if (expect < 1) expect = 1;
    if (expect > CO_SDO_BUF_SEG) expect = CO_SDO_BUF_SEG;       /* only differs from CiA 301 on the scaled-down verification buffer */
    if (nresp != expect) { snprintf(sdo_diag, sizeof sdo_diag, "%d segment(s) streamed, expected %d (remaining %u bytes, block size %u)", nresp, expect, remaining, blksize); return 0; }
    for (k = 0; k < nresp; k++) {
        const uint8_t *r = resp[k].d; uint32_t len = S - off > 7 ? 7 : S - off; int last = (off + len == S);
        if (resp[k].dlc != 8) { snprintf(sdo_diag, sizeof sdo_diag, "segment %d has DLC %d", k + 1, resp[k].dlc); return 0; }
        if ((r[0] & 0x7F) != k + 1) { snprintf(sdo_diag, sizeof sdo_diag, "segment %d carries sequence number %d", k + 1, r[0] & 0x7F); return 0; }
        if (((r[0] >> 7) & 1) != last) { snprintf(sdo_diag, sizeof sdo_diag, "segment %d: last flag %d, expected %d", k + 1, r[0] >> 7, last); return 0; }
        if (memcmp(r + 1, MV[m->obj] + off, len) != 0) { snprintf(sdo_diag, sizeof sdo_diag, "segment %d data differs from object bytes [%u,%u)", k + 1, off, off + len); return 0; }
        off += len;
    }
    m->blk_off = m->off; m->sent = (uint8_t)nresp;
    return 1;
}

/* one request to server srvno; resp = frames the implementation sent on the server's TX identifier */
static void sdo_model_step(int srvno, const uint8_t *req, const WFrame *resp, int nresp)
{
    SModel *m = &SM[srvno];
    uint8_t cmd = req[0]; const uint8_t *r = nresp ? resp[0].d : 0;
    const char *sig = "sdo-bad-response"; char why[200];
    int st0;
    /* safety-only runs (C01) keep exploring behind a reference mismatch: never trust a half-updated model */
    if (m->st != S_IDLE && m->st != S_UNSPEC && (m->obj < 0 || m->obj >= O_N || m->got > SDO_MAXDATA)) { m->st = S_UNSPEC; m->obj = -1; m->got = 0; }
    st0 = m->st;

    if (cmd == 0x80) {                                            /* client abort: closes whatever is open */
        if (nresp > 1) SDO_FAIL("sdo-response-count", "more than one frame in answer to a client abort");
        if (st0 == S_SEGDL || st0 == S_BLKDL || st0 == S_BLKDL_END || st0 == S_UNSPEC) { sdo_adopt(sdo_dirty_obj[srvno]); }
        sdo_dirty_obj[srvno] = -1;
        sm_reset(m);
        goto image;
    }
    switch (st0) {
    case S_UNSPEC:
        /* the client left the protocol in a way CiA 301 does not resolve: only safety is judged until the
         * transfer is closed by an abort of either side */
        if (r_is_abort(resp, nresp)) { sdo_adopt(sdo_dirty_obj[srvno]); sdo_dirty_obj[srvno] = -1; sm_reset(m); goto image; }
        if ((((cmd & 0xE0) == 0x20) || ((cmd & 0xE0) == 0x40) || ((cmd & 0xE1) == 0xC0) || ((cmd & 0xE3) == 0xA0)) && nresp > 0) {
            /* an initiate request that is answered: it must be answered as the new request it is */
            int d = sdo_dirty_obj[srvno];
            sdo_adopt(d); sdo_dirty_obj[srvno] = -1;
            if (!idle_row(m, srvno, req, resp, nresp, &sig)) {
                snprintf(why, sizeof why, "%s", sdo_diag); m->st = S_UNSPEC;
                SDO_FAIL("sdo-initiate-during-transfer", "initiate request after an out-of-protocol exchange is neither aborted nor handled as the new request: %s", why);
            }
        }
        goto image;
    case S_IDLE:
        if (!idle_row(m, srvno, req, resp, nresp, &sig)) SDO_FAIL(sig, "%s", (snprintf(why, sizeof why, "%s", sdo_diag), why));
        break;
    case S_SEGDL:
        if ((cmd & 0xE0) == 0x00) {
            int t = (cmd >> 4) & 1, n = (cmd >> 1) & 7, c = cmd & 1; uint32_t S = OBJ[m->obj].size, len = (uint32_t)(7 - n);
            if (nresp != 1 || resp[0].dlc != 8) SDO_FAIL("sdo-response-count", "download segment must be answered with exactly one 8-byte frame");
            if (t != m->tog) {
                if (r[0] != 0x80 || w_get32(r + 4) != CO_SDO_ERR_TBIT) SDO_FAIL("sdo-wrong-verdict", "toggle error must be refused with 0503 0000h");
                sdo_adopt(m->obj); sdo_dirty_obj[srvno] = -1; sm_reset(m); break;
            }
            uint32_t limit = m->announced ? m->ann_size : S;
            if (n == 0 && m->announced && limit - m->got < 7) len = limit - m->got;   /* lenient reading of n=0 when the size is known */
            if (m->got + len > S || (m->announced && m->got + len > m->ann_size)) {   /* more data than fits */
                if (r[0] == 0x80) { sdo_adopt(m->obj); sdo_dirty_obj[srvno] = -1; sm_reset(m); break; }
                SDO_FAIL("sdo-overlong-download-accepted", "segment carries %u byte(s) beyond the %u the object/announcement allows but is not refused", m->got + len - (m->announced ? m->ann_size : S), m->announced ? m->ann_size : S);
            }
            memcpy(m->data + m->got, req + 1, len); m->got += len;
            if (r[0] == 0x80) {
                /* admissible refusals: a basic object whose byte count does not match; announced size not met at the end */
                int ok = 0;
                if (c && OBJ[m->obj].kind != K_DOMAIN && m->got != S) ok = 1;
                if (c && m->announced && m->got != m->ann_size) ok = 1;
                if (!c && OBJ[m->obj].kind != K_DOMAIN && m->got >= S) ok = 1;     /* continuing past a complete basic value */
                if (!c && len < 7) ok = 1;                                          /* short segment that is not the last: implementation-defined */
                if (!c && OBJ[m->obj].kind != K_DOMAIN) ok = 1;                     /* basic types in several segments: implementation-defined */
                if (c) { uint32_t vc = OBJ[m->obj].kind != K_DOMAIN && m->got == S ? verdict_value(m->obj, m->data, S) : 0; if (vc) ok = 1;
                    /* the complete value is rejected by the object's type and nothing else is wrong: the type's code, whatever the transfer kind */
                    if (vc && !(m->announced && m->got != m->ann_size) && w_get32(r + 4) != vc)
                        SDO_FAIL("sdo-wrong-abort-code", "segmented download of a value the type rejects refused with %08X, the type's code is %08X", w_get32(r + 4), vc); }
                if (!ok) SDO_FAIL("sdo-wrong-verdict", "conforming download segment (t=%d n=%d c=%d, %u bytes so far) refused with %08X", t, n, c, m->got, w_get32(r + 4));
                sdo_adopt(m->obj); sdo_dirty_obj[srvno] = -1; sm_reset(m); break;
            }
            if ((r[0] & 0xEF) != 0x20 || ((r[0] >> 4) & 1) != t) SDO_FAIL("sdo-wrong-toggle", "segment response %02X, expected %02X", r[0], 0x20 | (t << 4));
            m->tog ^= 1;
            if (c) {
                if (OBJ[m->obj].kind != K_DOMAIN && m->got != S) SDO_FAIL("sdo-wrong-verdict", "download of %u byte(s) to a %u-byte basic object confirmed", m->got, S);
                if (OBJ[m->obj].kind != K_DOMAIN && verdict_value(m->obj, m->data, S)) SDO_FAIL("sdo-wrong-verdict", "value rejected by the type but download confirmed");
                if (m->announced && m->got != m->ann_size) { sdo_adopt(m->obj); }   /* announced size not met: CiA 301 leaves the reaction open */
                else model_commit(m, srvno, m->got);
                sdo_dirty_obj[srvno] = -1; sm_reset(m);
            } else sdo_dirty_obj[srvno] = m->obj;
            break;
        }
        goto out_of_protocol;
    case S_SEGUL:
        if ((cmd & 0xE0) == 0x60) {
            int t = (cmd >> 4) & 1; uint32_t S = OBJ[m->obj].size, len = S - m->off > 7 ? 7 : S - m->off; int last = (m->off + len == S);
            if (nresp != 1 || resp[0].dlc != 8) SDO_FAIL("sdo-response-count", "upload segment request must be answered with exactly one 8-byte frame");
            if (cmd & 0x0F) { if (r[0] == 0x80) { sm_reset(m); break; } }
            if (t != m->tog) {
                if (r[0] != 0x80 || w_get32(r + 4) != CO_SDO_ERR_TBIT) SDO_FAIL("sdo-wrong-verdict", "toggle error must be refused with 0503 0000h");
                sm_reset(m); break;
            }
            if (r[0] & 0xE0) SDO_FAIL("sdo-wrong-verdict", "conforming upload segment request answered with %02X", r[0]);
            if (((r[0] >> 4) & 1) != t) SDO_FAIL("sdo-wrong-toggle", "upload segment response toggle %d, expected %d", (r[0] >> 4) & 1, t);
            if ((uint32_t)(7 - ((r[0] >> 1) & 7)) != len) SDO_FAIL("sdo-wrong-size", "upload segment carries %d byte(s), expected %u", 7 - ((r[0] >> 1) & 7), len);
            if ((r[0] & 1) != last) SDO_FAIL("sdo-wrong-last-flag", "upload segment c=%d, expected %d", r[0] & 1, last);
            if (memcmp(r + 1, MV[m->obj] + m->off, len) != 0) SDO_FAIL("sdo-wrong-data", "upload segment data differs from object bytes [%u,%u)", m->off, m->off + len);
            m->off += len; m->tog ^= 1;
            if (last) sm_reset(m);
            break;
        }
        goto out_of_protocol;
    case S_BLKDL: {
        int seq = cmd & 0x7F, c = cmd >> 7; uint32_t S = OBJ[m->obj].size;
        sdo_dirty_obj[srvno] = m->obj;
        if (nresp > 1) SDO_FAIL("sdo-response-count", "more than one frame in answer to a block download segment");
        {
            uint32_t limit = m->announced ? m->ann_size : S;
            int inorder = (!m->seqerr && seq == m->next);
            if (inorder && m->got >= limit) {                     /* a segment beyond what the object/announcement holds */
                if (!r_is_abort(resp, nresp)) SDO_FAIL("sdo-overlong-download-accepted", "block segment beyond the object/announced size (%u bytes received) not refused", m->got);
                sdo_adopt(m->obj); sdo_dirty_obj[srvno] = -1; sm_reset(m); break;
            }
            if (nresp == 1 && r[0] == 0x80) {
                if (inorder) SDO_FAIL("sdo-wrong-verdict", "conforming block segment %d refused with %08X", seq, w_get32(r + 4));
                sdo_adopt(m->obj); sdo_dirty_obj[srvno] = -1; sm_reset(m); break;
            }
            if (inorder) {
                if (m->got + 7 <= SDO_MAXDATA) memcpy(m->data + m->got, req + 1, 7);
                m->got += 7; m->next++;
                if (c) m->final_seen = 1;
            } else m->seqerr = 1;
        }
        if (c || seq == m->blksize) {                             /* block ends: acknowledge */
            int ack = m->next - 1;
            if (nresp != 1) SDO_FAIL("sdo-response-count", "end of block (seq %d%s) not acknowledged", seq, c ? ", last" : "");
            if (r[0] != 0xA2) SDO_FAIL("sdo-wrong-verdict", "end of block answered with %02X instead of A2h", r[0]);
            if (r[1] != ack) SDO_FAIL("sdo-wrong-ackseq", "block acknowledge reports sequence %d, last in-order segment was %d", r[1], ack);
            if (r[2] < 1 || r[2] > 127) SDO_FAIL("sdo-bad-blksize", "next block size %d outside 1..127", r[2]);
            m->blksize = r[2]; m->next = 1;
            if (m->final_seen && !m->seqerr) m->st = S_BLKDL_END;
            if (m->seqerr) m->final_seen = 0;
            m->seqerr = 0;
        } else if (nresp != 0) SDO_FAIL("sdo-response-count", "segment %d inside a block of %d answered with a frame", seq, m->blksize);
        break; }
    case S_BLKDL_END:
        if ((cmd & 0xE3) == 0xC1) {
            uint32_t n = (cmd >> 2) & 7, S = OBJ[m->obj].size, total = m->got >= n ? m->got - n : 0;
            if (nresp != 1 || resp[0].dlc != 8) SDO_FAIL("sdo-response-count", "end block download must be answered with exactly one frame");
            if (r[0] == 0x80) {
                int ok = (total > S) || (m->announced && total != m->ann_size) || (OBJ[m->obj].kind != K_DOMAIN && total != S) || m->got < n ||
                         (OBJ[m->obj].kind != K_DOMAIN && total == S && verdict_value(m->obj, m->data, S));
                if (!ok) SDO_FAIL("sdo-wrong-verdict", "conforming end of block download (%u bytes) refused with %08X", total, w_get32(r + 4));
                if (OBJ[m->obj].kind != K_DOMAIN && total == S && m->got >= n && !(m->announced && total != m->ann_size)) {
                    uint32_t vc = verdict_value(m->obj, m->data, S);
                    if (vc && w_get32(r + 4) != vc) SDO_FAIL("sdo-wrong-abort-code", "block download of a value the type rejects refused with %08X, the type's code is %08X", w_get32(r + 4), vc);
                }
                sdo_adopt(m->obj); sdo_dirty_obj[srvno] = -1; sm_reset(m); break;
            }
            if (r[0] != 0xA1) SDO_FAIL("sdo-wrong-verdict", "end block download answered with %02X instead of A1h", r[0]);
            if (total > S) SDO_FAIL("sdo-overlong-download-accepted", "block download of %u bytes to a %u-byte object confirmed", total, S);
            if (OBJ[m->obj].kind != K_DOMAIN && total != S) SDO_FAIL("sdo-wrong-verdict", "block download of %u byte(s) to a %u-byte basic object confirmed", total, S);
            if (m->announced && total != m->ann_size) sdo_adopt(m->obj);
            else { if (total <= SDO_MAXDATA) model_commit(m, srvno, total); }
            sdo_dirty_obj[srvno] = -1; sm_reset(m);
            break;
        }
        /* anything else after the final segment: the server cannot tell it from a segment; not resolved by CiA 301 */
        if (r_is_abort(resp, nresp)) { sdo_adopt(m->obj); sdo_dirty_obj[srvno] = -1; sm_reset(m); break; }
        m->st = S_UNSPEC; sdo_dirty_obj[srvno] = m->obj;
        break;
    case S_BLKUL_INIT:
        if (cmd == 0xA3) {
            if (r_is_abort(resp, nresp)) SDO_FAIL("sdo-wrong-verdict", "start of block upload refused");
            if (!check_block_stream(m, resp, nresp, m->blksize)) SDO_FAIL("sdo-wrong-block-data", "%s", (snprintf(why, sizeof why, "%s", sdo_diag), why));
            m->st = S_BLKUL;
            break;
        }
        goto out_of_protocol;
    case S_BLKUL:
    blkul_ack:
        if ((cmd & 0xE3) == 0xA2) {
            uint32_t S = OBJ[m->obj].size; int ack = req[1], nb = req[2];
            if (ack > m->sent) {
                if (!r_is_abort(resp, nresp)) SDO_FAIL("sdo-wrong-verdict", "acknowledge of %d segments when only %d were sent must be aborted", ack, m->sent);
                sm_reset(m); break;
            }
            uint32_t newoff = m->blk_off + (uint32_t)ack * 7; if (newoff > S) newoff = S;
            if (ack == m->sent && newoff == S) {                  /* everything delivered: end of block upload */
                uint32_t lastlen = S % 7 ? S % 7 : (S ? 7 : 0);
                if (nresp != 1 || resp[0].dlc != 8) SDO_FAIL("sdo-response-count", "final acknowledge must be answered with the end-of-block-upload frame");
                if ((r[0] & 0xE3) != 0xC1) SDO_FAIL("sdo-wrong-verdict", "final acknowledge answered with %02X instead of C1h|n", r[0]);
                if ((uint32_t)((r[0] >> 2) & 7) != 7 - lastlen) SDO_FAIL("sdo-wrong-size", "end of block upload reports n=%d, expected %u", (r[0] >> 2) & 7, 7 - lastlen);
                m->st = S_BLKUL_END; break;
            }
            if (nb < 1 || nb > 127) {
                if (!r_is_abort(resp, nresp)) SDO_FAIL("sdo-wrong-verdict", "block size %d outside 1..127 must be aborted", nb);
                sm_reset(m); break;
            }
            if (r_is_abort(resp, nresp)) SDO_FAIL("sdo-wrong-verdict", "conforming block acknowledge (ackseq %d of %d, next block size %d) refused", ack, m->sent, nb);
            m->off = newoff; m->blksize = (uint8_t)nb;
            if (!check_block_stream(m, resp, nresp, m->blksize)) SDO_FAIL("sdo-wrong-block-data", "after acknowledging %d of %d: %s", ack, st0 == S_BLKUL ? SM[srvno].sent : 0, (snprintf(why, sizeof why, "%s", sdo_diag), why));
            break;
        }
        if (cmd == 0xA1 && (nresp == 0 || r_is_abort(resp, nresp))) { sm_reset(m); break; }   /* premature end confirmation: closing silently is tolerated */
        goto out_of_protocol;
    case S_BLKUL_END:
        if (cmd == 0xA1) {
            if (nresp != 0) SDO_FAIL("sdo-response-count", "end-of-block-upload confirmation must not be answered");
            sm_reset(m); break;
        }
        if ((cmd & 0xE3) == 0xA2) goto blkul_ack;                 /* a further acknowledge instead of the confirmation: go-back-N is still admissible */
        goto out_of_protocol;
    default: break;
    }
    goto image;

out_of_protocol:
    /* a request that does not belong to the open transfer */
    {
        int isinit = ((cmd & 0xE0) == 0x20) || ((cmd & 0xE0) == 0x40) || ((cmd & 0xE1) == 0xC0) || ((cmd & 0xE3) == 0xA0);
        int dl = (st0 == S_SEGDL);
        if (r_is_abort(resp, nresp)) { if (dl) sdo_adopt(m->obj); sdo_dirty_obj[srvno] = -1; sm_reset(m); goto image; }
        if (isinit) {
            if (dl) sdo_adopt(m->obj);
            sdo_dirty_obj[srvno] = -1;
            if (!idle_row(m, srvno, req, resp, nresp, &sig)) {
                snprintf(why, sizeof why, "%s", sdo_diag);
                m->st = (uint8_t)st0;
                SDO_FAIL("sdo-initiate-during-transfer", "initiate request while a transfer is open is neither aborted nor handled as the new request: %s", why);
            }
            goto image;
        }
        if (nresp != 1) { m->st = (uint8_t)st0; SDO_FAIL("sdo-response-count", "out-of-protocol request must be answered with exactly one frame"); }
        m->st = S_UNSPEC; if (dl) sdo_dirty_obj[srvno] = m->obj;
    }
image:
    if (sdo_image_check(why, sizeof why)) { snprintf(sdo_diag, sizeof sdo_diag, "%s", why); sdo_fail("sdo-dictionary-changed", srvno, m, req, resp, nresp); }
}

/* The application rewrites its objects with their initial values whenever every server is idle (an environment
 * action that is part of each BFS step).  Every write has been compared with the reference before this happens;
 * it keeps the product "protocol state x dictionary content" from exploding. */
static int sdo_content_force;      /* the C05 probes rewrite the objects even while another server has a transfer open */
static void sdo_content_reset(void)
{
    if (!sdo_content_force) for (int n = 0; n < CO_SSDO_N; n++) if (SM[n].st != S_IDLE || sdo_dirty_obj[n] >= 0) return;
    for (int i = 0; i < O_N; i++) {
        if (sdo_content_force) impl_value(i, MV[i]);          /* what an unfinished download on another server has already stored */
        const ODesc *o = &OBJ[i];
        if (!memcmp(MV[i], MV0[i], o->size)) continue;
        if (o->direct) {
            CO_OBJ *e = CODictFind(&Node.Dict, CO_DEV(o->idx, o->sub)); uint32_t v = 0; memcpy(&v, MV0[i], o->size);
            if (o->nid) v -= Node.NodeId;
            if (e) e->Data = (CO_DATA)v;
        } else if (o->nid) { uint32_t v; memcpy(&v, MV0[i], 4); v -= Node.NodeId; memcpy(o->mem, &v, 4); }
        else memcpy(o->mem, MV0[i], o->size);
        memcpy(MV[i], MV0[i], o->size);
    }
}

static void sdo_prehash(int phase)
{
    uint32_t *offs[8] = { &DomO3.Offset, &DomOA.Offset, &DomOB.Offset, &StrO3.Offset, &StrO5.Offset, &StrO12.Offset, &StrOV.Offset, &StrOW.Offset };
    void *odat[8] = { &DomO3, &DomOA, &DomOB, &StrO3, &StrO5, &StrO12, &StrOV, &StrOW };
    if (phase == 0) {
        memcpy(SdoSave.sdo, Node.Sdo, sizeof SdoSave.sdo); memcpy(SdoSave.buf, SdoBuf, sizeof SdoBuf);
        for (int k = 0; k < 8; k++) SdoSave.off[k] = *offs[k];
        for (int n = 0; n < CO_SSDO_N; n++) {
            CO_SDO *s = &Node.Sdo[n]; int st = SM[n].st;
            int seg = (st == S_SEGDL || st == S_SEGUL), blk = (st == S_BLKDL || st == S_BLKDL_END || st == S_BLKUL_INIT || st == S_BLKUL || st == S_BLKUL_END);
            if (st == S_UNSPEC) continue;
            if (st == S_IDLE && (s->Obj != 0 || s->Blk.State != BLK_IDLE)) continue;       /* model and implementation disagree about idleness: keep everything */
            s->Abort = 0;
            if (st == S_IDLE) { s->Idx = 0; s->Sub = 0; }
            /* coarse=2 ("residue"): the cursors, counters and flags a finished transfer leaves behind stay part of the state
             * identity - only buffer bytes and multiplexer are dropped - so that a later transfer which wrongly depends on
             * such a leftover is explored from every leftover value */
            if (!seg && sdo_coarse < 2) memset(&s->Seg, 0, sizeof s->Seg);
            if (!blk && sdo_coarse < 2) { CO_SDO_BLK_STATE keep = s->Blk.State; memset(&s->Blk, 0, sizeof s->Blk); s->Blk.State = keep; }
            if (st == S_BLKDL || st == S_BLKDL_END) {                                       /* the buffer holds unflushed segments: content up to the fill level is live */
                if (s->Buf.Num < CO_SDO_BUF_BYTE) memset(SdoBuf + (size_t)n * CO_SDO_BUF_BYTE + s->Buf.Num, 0, CO_SDO_BUF_BYTE - s->Buf.Num);
            } else {
                if (sdo_coarse < 2) { s->Buf.Num = 0; s->Buf.Cur = s->Buf.Start; }
                memset(SdoBuf + (size_t)n * CO_SDO_BUF_BYTE, 0, CO_SDO_BUF_BYTE);
            }
        }
        for (int k = 0; k < 8; k++) {
            int used = 0;
            for (int n = 0; n < CO_SSDO_N; n++) if (Node.Sdo[n].Obj && (void *)Node.Sdo[n].Obj->Data == odat[k]) used = 1;
            if (!used) *offs[k] = 0;
        }
    } else {
        memcpy(Node.Sdo, SdoSave.sdo, sizeof SdoSave.sdo); memcpy(SdoBuf, SdoSave.buf, sizeof SdoBuf);
        for (int k = 0; k < 8; k++) *offs[k] = SdoSave.off[k];
    }
}

/* send one request frame to server srvno and run the model on the answer */
static const uint32_t SDO_RX[2] = { 0x600 + SDO_NODEID, 0x6C1 }, SDO_TX[2] = { 0x580 + SDO_NODEID, 0x5C1 };
static void sdo_request(int srvno, const uint8_t *req)
{
    WFrame mine[W_MAX_TX]; int n = 0, first = OBS.ntx, ref0 = OBS.nrefused;
    w_rx(&Node, SDO_RX[srvno], 8, req);
    mc_steps++;
    for (int i = first; i <= OBS.ntx && i < W_MAX_TX; i++) {
        /* a frame the driver refused (send_refuse_nth) never reaches the client, but the reference server judges what the server handed
         * to the driver: it is put back at its place in the stream */
        for (int k = ref0; k < OBS.nrefused && k < 4; k++) if (OBS.refused_pos[k] == i && OBS.refused[k].id == SDO_TX[srvno] && n < W_MAX_TX) mine[n++] = OBS.refused[k];
        if (i == OBS.ntx) break;
        if (OBS.tx[i].id == SDO_TX[srvno]) mine[n++] = OBS.tx[i];
        else { mc_fail("sdo-foreign-frame", "request to server %d produced a frame with identifier %03X", srvno, OBS.tx[i].id); return; }
    }
    if (mc_verbose) { char o[600]; w_fmt_obs(o, sizeof o); mc_log("    req %02X %02X %02X %02X %02X %02X %02X %02X -> %s [model %s]\n", req[0], req[1], req[2], req[3], req[4], req[5], req[6], req[7], o, S_NAME[SM[srvno].st]); }
    sdo_model_step(srvno, req, mine, n);
}

#endif
