/* C10 (long periods, fast timers) - heartbeat periods whose tick count does not fit 16 bits (timer frequencies above 1 kHz with
 * heartbeat times of several seconds), with another timer user armed, elapsing or deleted while the producer has more than 65535
 * ticks to go.  For every (frequency, heartbeat time, interference) the heartbeat frames must come exactly at write + k * period. */
#include "node_common.h"

static const uint32_t FREQ[]  = { 1000, 2000, 10000, 20000 };
static const uint32_t HB_MS[] = { 3000, 6554, 10000, 32768, 65535 };
#define NF ((int)(sizeof FREQ / sizeof FREQ[0]))
#define NH ((int)(sizeof HB_MS / sizeof HB_MS[0]))
enum { I_NONE, I_TPDO_EVENT, I_APP_SHORT, I_APP_LONG_DELETED, I_SYNC_PROD, I_N };
static const char *const IN[] = { "no other timer", "NMT start arms a TPDO event timer (100 ms) while the producer waits", "application timer of 3 ticks created while the producer waits",
                                  "application timer longer than the heartbeat created first and deleted while both wait", "SYNC producer (50 ms) switched on while the producer waits" };
static void app_cb(void *p) { (void)p; }

static void one(int f, int h, int k)
{
    uint64_t period = (uint64_t)HB_MS[h] * FREQ[f] / 1000u; uint32_t t0, n = 0, bad = 0; uint64_t horizon = 2 * period + 5, t; char smp[160]; int16_t app = -1;
    uint64_t seen[4] = { 0, 0, 0, 0 };
    w_regions_clear();
    nc_defaults(); NC.freq = FREQ[f]; NC.hbprod = 1; NC.hb_time = 0;
    NC.sync = 1; NC.sync_id = 0x80; NC.sync_cycle = 50000;
    NC.n_tpdo = 1; NC.tpdo[0].present = 1; NC.tpdo[0].cobid = 0x40000181u; NC.tpdo[0].type = 254; NC.tpdo[0].event = 100; NC.tpdo[0].nmap = 1; NC.tpdo[0].map[0] = NC_MAP(0x2100, 0, 8);
    nc_build();
    if (k == I_APP_LONG_DELETED) app = COTmrCreate(&Node.Tmr, (uint32_t)(period + 1000), 0, app_cb, 0);
    for (int i = 0; i < 7; i++) { w_tick(&Node, 1); }
    if (nc_sdo_write(0x1017, 0, HB_MS[h], 2) != 0) { mc_fail("hb-write-refused", "1017h = %u ms at %u Hz refused", HB_MS[h], FREQ[f]); mc_case_end(0, 1, 0); return; }
    t0 = 7;
    for (t = t0 + 1; t <= t0 + horizon; t++) {
        if (t == t0 + 20) {
            if (k == I_TPDO_EVENT) nc_nmt(1, 0);
            else if (k == I_APP_SHORT) (void)COTmrCreate(&Node.Tmr, 3, 0, app_cb, 0);
            else if (k == I_APP_LONG_DELETED && app >= 0) (void)COTmrDelete(&Node.Tmr, app);
            else if (k == I_SYNC_PROD) (void)nc_sdo_write(0x1005, 0, 0x40000080u, 4);
        }
        /* let the hardware counter run while nothing can happen: neither a heartbeat is due nor does the driver reach zero */
        if (DRV.tcnt > 2 && t != t0 + 20 && t < t0 + horizon) {
            uint64_t next_due = t0 + ((t - t0 - 1) / period + 1) * period, k2 = DRV.tcnt - 1;
            if (t + k2 > next_due - 1) k2 = next_due > t + 1 ? next_due - 1 - t : 0;
            if (t <= t0 + 20 && t + k2 >= t0 + 20) k2 = t0 + 20 - t > 0 ? t0 + 19 - t : 0;
            if (k2 > 0 && k2 < DRV.tcnt) { DRV.tcnt -= (uint32_t)k2; W_NOW += (uint32_t)k2; t += k2; }
        }
        w_obs_clear(); w_tick(&Node, 1); mc_steps++;
        if (nc_count_tx(0x700u + NC.node_id)) {
            int c = nc_count_tx(0x700u + NC.node_id);
            if (n < 4) seen[n] = t - t0;
            n += (uint32_t)c;
            if ((t - t0) % period != 0 || c != 1) bad++;
        } else if ((t - t0) % period == 0) bad++;
    }
    if (bad || n != 2)
        mc_fail("hb-long-period", "1017h = %u ms at %u Hz (%llu ticks), %s: %u heartbeat(s) within %llu ticks, at %llu, %llu, %llu after the write; expected exactly at %llu and %llu",
                HB_MS[h], FREQ[f], (unsigned long long)period, IN[k], n, (unsigned long long)horizon, (unsigned long long)seen[0], (unsigned long long)seen[1], (unsigned long long)seen[2],
                (unsigned long long)period, (unsigned long long)(2 * period));
    snprintf(smp, sizeof smp, "1017h=%u ms at %u Hz, %s -> heartbeats %llu, %llu ticks after the write", HB_MS[h], FREQ[f], IN[k], (unsigned long long)seen[0], (unsigned long long)seen[1]);
    mc_case_end((seen[0] << 24) ^ seen[1] ^ ((uint64_t)k << 60), 1, smp);
}
static void run_cfg(int cfg, int tier) { (void)cfg; (void)tier; for (int f = 0; f < NF; f++) for (int h = 0; h < NH; h++) for (int k = 0; k < I_N; k++) { mc_case(3, f, h, k); one(f, h, k); } }
static void run_case(const int *c, int n) { if (n < 4) return; mc_case(3, c[1], c[2], c[3]); one(c[1], c[2], c[3]); }
static const char *cfg_name(int c) { (void)c; return "long heartbeat periods on fast timers"; }
static const mc_enum E = { "C10", "c10long", 1, cfg_name, run_cfg, run_case };
int main(int argc, char **argv) { return mc_enum_main(argc, argv, &E); }
