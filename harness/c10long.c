/* C10 (long periods, fast timers) - heartbeat periods whose tick count does not fit 16 bits (timer frequencies above 1 kHz with
 * heartbeat times of several seconds), with another timer user armed, elapsing or deleted while the producer has more than 65535
 * ticks to go.  For every (frequency, heartbeat time, interference) the heartbeat frames must come exactly at write + k * period. */
#include "node_common.h"

static const uint32_t FREQ[]  = { 1000, 2000, 10000, 20000 };
static const uint32_t HB_MS[] = { 3000, 6554, 10000, 32768, 65535 };
#define NF ((int)(sizeof FREQ / sizeof FREQ[0]))
#define NH ((int)(sizeof HB_MS / sizeof HB_MS[0]))
enum { I_NONE, I_TPDO_EVENT, I_APP_SHORT, I_APP_LONG_DELETED, I_SYNC_PROD, I_N };
static const char *const IN[] = { "no other timer", "NMT start arms a TPDO event timer (100 ms) while the producer waits", "application timer of 3 ticks created while the producer waits",
                                  "application timer longer than the heartbeat created first and deleted while both wait", "SYNC producer (50 ms) switched on while the producer waits" };
static void app_cb(void *p) { (void)p; }

static void one(int f, int h, int k)
{
    uint64_t period = (uint64_t)HB_MS[h] * FREQ[f] / 1000u; uint32_t t0, n = 0, bad = 0; uint64_t horizon = 2 * period + 5, t; char smp[160]; int16_t app = -1;
    uint64_t seen[4] = { 0, 0, 0, 0 };
    w_regions_clear();
    nc_defaults(); NC.freq = FREQ[f]; NC.hbprod = 1; NC.hb_time = 0;
    NC.sync = 1; NC.sync_id = 0x80; NC.sync_cycle = 50000;
    NC.n_tpdo = 1; NC.tpdo[0].present = 1; NC.tpdo[0].cobid = 0x40000181u; NC.tpdo[0].type = 254; NC.tpdo[0].event = 100; NC.tpdo[0].nmap = 1; NC.tpdo[0].map[0] = NC_MAP(0x2100, 0, 8);
    nc_build();
    if (k == I_APP_LONG_DELETED) app = COTmrCreate(&Node.Tmr, (uint32_t)(period + 1000), 0, app_cb, 0);
    for (int i = 0; i < 7; i++) { w_tick(&Node, 1); }
    if (nc_sdo_write(0x1017, 0, HB_MS[h], 2) != 0) { mc_fail("hb-write-refused", "1017h = %u ms at %u Hz refused", HB_MS[h], FREQ[f]); mc_case_end(0, 1, 0); return; }
    t0 = 7;
    for (t = t0 + 1; t <= t0 + horizon; t++) {
        if (t == t0 + 20) {
            if (k == I_TPDO_EVENT) nc_nmt(1, 0);
            else if (k == I_APP_SHORT) (void)COTmrCreate(&Node.Tmr, 3, 0, app_cb, 0);
            else if (k == I_APP_LONG_DELETED && app >= 0) (void)COTmrDelete(&Node.Tmr, app);
            else if (k == I_SYNC_PROD) (void)nc_sdo_write(0x1005, 0, 0x40000080u, 4);
        }
        /* let the hardware counter run while nothing can happen: neither a heartbeat is due nor does the driver reach zero */
        if (DRV.tcnt > 2 && t != t0 + 20 && t < t0 + horizon) {
            uint64_t next_due = t0 + ((t - t0 - 1) / period + 1) * period, k2 = DRV.tcnt - 1;
            if (t + k2 > next_due - 1) k2 = next_due > t + 1 ? next_due - 1 - t : 0;
            if (t <= t0 + 20 && t + k2 >= t0 + 20) k2 = t0 + 20 - t > 0 ? t0 + 19 - t : 0;
            if (k2 > 0 && k2 < DRV.tcnt) { DRV.tcnt -= (uint32_t)k2; W_NOW += (uint32_t)k2; t += k2; }
        }
        w_obs_clear(); w_tick(&Node, 1); mc_steps++;
        if (nc_count_tx(0x700u + NC.node_id)) {
            int c = nc_count_tx(0x700u + NC.node_id);
            if (n < 4) seen[n] = t - t0;
            n += (uint32_t)c;
            if ((t - t0) % period != 0 || c != 1) bad++;
        } else if ((t - t0) % period == 0) bad++;
    }
    if (bad || n != 2)
        mc_fail("hb-long-period", "1017h = %u ms at %u Hz (%llu ticks), %s: %u heartbeat(s) within %llu ticks, at %llu, %llu, %llu after the write; expected exactly at %llu and %llu",
                HB_MS[h], FREQ[f], (unsigned long long)period, IN[k], n, (unsigned long long)horizon, (unsigned long long)seen[0], (unsigned long long)seen[1], (unsigned long long)seen[2],
                (unsigned long long)period, (unsigned long long)(2 * period));
    snprintf(smp, sizeof smp, "1017h=%u ms at %u Hz, %s -> heartbeats %llu, %llu ticks after the write", HB_MS[h], FREQ[f], IN[k], (unsigned long long)seen[0], (unsigned long long)seen[1]);
    mc_case_end((seen[0] << 24) ^ seen[1] ^ ((uint64_t)k << 60), 1, smp);
}
/* ---- cfg 1: the producer's timer queued into a crowded list.  Every sequence of up to 6 (7) operations over {application one-shot of 2, 4, 9, 13, 30 ticks,
 * application cyclic timer of 3 and of 10 ticks, tick, 1017h := 7 ms} that contains exactly one write: the heartbeat is linked before, between (after one, two, ...
 * pending events) and behind the other users' events; afterwards the heartbeats must come exactly 7, 14, 21, 28 ticks after the write ---- */
enum { Q_ONE0 = 0, Q_CYC0 = 5, Q_TICK = 7, Q_WRITE = 8, Q_N = 9 };
static const uint32_t QD[7] = { 2, 4, 9, 13, 30, 3, 10 };
static void crowd_case(const int *ops, int n)
{
    long tw = -1, t = 0; int bad = 0, nhb = 0; char smp[200], *q = smp; long seen[6] = { 0 };
    w_regions_clear();
    nc_defaults(); NC.hbprod = 1; NC.hb_time = 0; NC.tmr_n = 8; nc_build();
    for (int i = 0; i < n && !bad; i++) {
        w_obs_clear();
        if (ops[i] < Q_CYC0) (void)COTmrCreate(&Node.Tmr, QD[ops[i]], 0, app_cb, 0);
        else if (ops[i] < Q_TICK) (void)COTmrCreate(&Node.Tmr, QD[ops[i]], QD[ops[i]], app_cb, 0);
        else if (ops[i] == Q_TICK) { w_tick(&Node, 1); t++; }
        else { if (nc_sdo_write(0x1017, 0, 7, 2) != 0) { mc_fail("hb-write-refused", "1017h = 7 ms refused"); bad = 1; } w_obs_clear(); tw = t; }
        mc_steps++;
        if (nc_count_tx(0x700u + NC.node_id)) { int c = nc_count_tx(0x700u + NC.node_id); if (nhb < 6) seen[nhb] = t - tw; nhb += c; if (tw < 0 || (t - tw) % 7 != 0 || c != 1) bad = 2; }
        else if (ops[i] == Q_TICK && tw >= 0 && t > tw && (t - tw) % 7 == 0) bad = 2;
        q += snprintf(q, sizeof smp - (size_t)(q - smp) - 40, "%s%s%u", i ? "," : "", ops[i] < Q_CYC0 ? "one-shot " : ops[i] < Q_TICK ? "cyclic " : ops[i] == Q_TICK ? "tick" : "1017h:=", ops[i] < Q_TICK ? QD[ops[i]] : ops[i] == Q_TICK ? 0u : 7u);
    }
    for (long end = t + 30; t < end && bad != 1; ) {
        w_obs_clear(); w_tick(&Node, 1); t++; mc_steps++;
        if (nc_count_tx(0x700u + NC.node_id)) { int c = nc_count_tx(0x700u + NC.node_id); if (nhb < 6) seen[nhb] = t - tw; nhb += c; if ((t - tw) % 7 != 0 || c != 1) bad = 2; }
        else if ((t - tw) % 7 == 0) bad = 2;
    }
    if (bad == 2) mc_fail("hb-crowded-list", "operations [%s] (heartbeat time written at tick %ld): heartbeats %ld, %ld, %ld, %ld ticks after the write, expected 7, 14, 21, 28", smp, tw, seen[0], seen[1], seen[2], seen[3]);
    snprintf(q, 40, " -> %ld,%ld,%ld,%ld", seen[0], seen[1], seen[2], seen[3]);
    mc_case_end((uint64_t)(seen[0] | seen[1] << 8 | seen[2] << 16 | seen[3] << 24) ^ ((uint64_t)nhb << 40), 1, smp);
}
static void run_crowd(int tier)
{
    int maxn = tier ? 7 : 6, ops[8], ctx[10];
    for (int n = 1; n <= maxn; n++) {
        long total = 1; for (int i = 0; i < n; i++) total *= Q_N;
        for (long code = 0; code < total && !mc_deadline_hit(); code++) {
            long c = code; int w = 0;
            for (int i = 0; i < n; i++) { ops[i] = (int)(c % Q_N); c /= Q_N; w += ops[i] == Q_WRITE; }
            if (w != 1) continue;
            ctx[0] = 4; ctx[1] = n; for (int i = 0; i < n; i++) ctx[2 + i] = ops[i];
            mc_case_v(ctx, 2 + n);
            crowd_case(ops, n);
        }
    }
}
static void run_cfg(int cfg, int tier) { (void)tier; if (cfg == 1) { run_crowd(tier); return; } for (int f = 0; f < NF; f++) for (int h = 0; h < NH; h++) for (int k = 0; k < I_N; k++) { mc_case(3, f, h, k); one(f, h, k); } }
static void run_case(const int *c, int n) { if (n >= 3 && c[1] == 4) { mc_case_v(c + 1, n - 1); crowd_case(c + 3, c[2]); return; } if (n < 4) return; mc_case(3, c[1], c[2], c[3]); one(c[1], c[2], c[3]); }
static const char *cfg_name(int c) { return c ? "producer timer queued into a crowded timer list" : "long heartbeat periods on fast timers"; }
static const mc_enum E = { "C10", "c10long", 2, cfg_name, run_cfg, run_case };
int main(int argc, char **argv) { return mc_enum_main(argc, argv, &E); }
