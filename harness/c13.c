/* C13 - RPDO bytes reach exactly the mapped objects, at the right moment.
 * BFS over RPDO frames, SYNC, local writes and NMT changes for every table of 3 channels x {absent, async, sync, invalid};
 * the complete application-object image is compared with a reference after every step. */
#include "node_common.h"

enum { K_ABSENT, K_ASYNC, K_SYNC, K_INVALID };
typedef struct { uint8_t p8, b0, b1; uint16_t p16; uint32_t p32; } Img;
static struct { uint8_t op; uint8_t kind[3]; uint8_t pend[3]; uint8_t pdata[3][8]; Img img; } M;
static const uint32_t RID[3] = { 0x201, 0x301, 0x401 };
static const uint8_t  MLEN[3] = { 4, 2, 4 };
static const uint8_t  PAT[2][8] = { { 0xA1, 0xA2, 0xA3, 0xA4, 0xA5, 0xA6, 0xA7, 0xA8 }, { 0x5F, 0x5E, 0x5D, 0x5C, 0x5B, 0x5A, 0x59, 0x58 } };

enum { E_FRAME0 = 0 /* 3 ch x 2 pat x 2 dlc = 12 */, E_NEIGH0 = 12 /* 3 */, E_SYNC = 15, E_LOCAL, E_START, E_PREOP, E_STOP, E_TICK, E_SYNCWR, E_N };

static const char *cfg_name(int c) { static char b[48]; static const char *const K[] = { "absent", "async", "sync", "invalid" }; snprintf(b, sizeof b, "ch0=%s ch1=%s ch2=%s%s", K[c % 4], K[(c / 4) % 4], K[(c / 16) % 4], c >= 64 ? " OPERATIONAL" : ""); return b; }

static int build(int cfg)
{
    nc_defaults();
    NC.sync = 1; NC.sync_id = 0x80;
    /* --opt base=1: the three channels are RPDO numbers 1..3 (1401h.., RPDO #0 absent) instead of 0..2 */
    int B = mc_opt("base", 0) ? 1 : 0;
    NC.n_rpdo = B + 3;
    for (int ch = 0; ch < 3; ch++) {
        int k = (cfg >> (2 * ch)) & 3;
        NC.rpdo[B + ch].present = (k != K_ABSENT);
        NC.rpdo[B + ch].cobid = RID[ch] | (k == K_INVALID ? 0x80000000u : 0);
        NC.rpdo[B + ch].type = (uint8_t)(k == K_SYNC ? 1 : 255);
    }
    NC.rpdo[B + 0].nmap = 3; NC.rpdo[B + 0].map[0] = NC_MAP(0x2110, 0, 8); NC.rpdo[B + 0].map[1] = NC_MAP(0x0005, 0, 8); NC.rpdo[B + 0].map[2] = NC_MAP(0x2111, 0, 16);
    NC.rpdo[B + 1].nmap = 2; NC.rpdo[B + 1].map[0] = NC_MAP(0x2113, 1, 8); NC.rpdo[B + 1].map[1] = NC_MAP(0x2113, 2, 8);
    NC.rpdo[B + 2].nmap = 1; NC.rpdo[B + 2].map[0] = NC_MAP(0x2112, 0, 32);
    NC.operational = (cfg >= 64);
    nc_build();
    (void)CONodeGetErr(&Node);
    memset(&M, 0, sizeof M);
    for (int ch = 0; ch < 3; ch++) M.kind[ch] = (uint8_t)((cfg >> (2 * ch)) & 3);
    M.op = (uint8_t)NC.operational;
    M.img.p8 = P8; M.img.b0 = B8[0]; M.img.b1 = B8[1]; M.img.p16 = P16; M.img.p32 = P32;
    W_REG(M);
    return E_N;
}

static const char *ev_name(int e)
{
    static char b[64];
    if (e < E_NEIGH0) snprintf(b, sizeof b, "RPDO ch%d frame pattern %c DLC %s", e / 4, 'A' + (e / 2) % 2, e % 2 ? "mapped length" : "8");
    else if (e < E_SYNC) snprintf(b, sizeof b, "frame on neighbouring id %03X", RID[e - E_NEIGH0] + 1);
    else snprintf(b, sizeof b, "%s", (const char *[]){ "SYNC", "local write", "NMT start", "NMT pre-op", "NMT stop", "tick", "refused write 1005h = 40000081h (producer on another identifier, no cycle time)" }[e - E_SYNC]);
    return b;
}

static void apply(int ch, const uint8_t *d)
{
    if (ch == 0) { M.img.p8 = d[0]; M.img.p16 = (uint16_t)(d[2] | (d[3] << 8)); }
    else if (ch == 1) { M.img.b0 = d[0]; M.img.b1 = d[1]; }
    else M.img.p32 = w_get32(d);
}

static int step(int e)
{
    uint8_t d[8] = { 0 };
    if (e < E_NEIGH0) {
        int ch = e / 4, pat = (e / 2) % 2, dlc = e % 2 ? MLEN[ch] : 8;
        if (M.kind[ch] == K_ABSENT) return MC_SKIP;
        memcpy(d, PAT[pat], 8); for (int i = dlc; i < 8; i++) d[i] = 0;
        if (M.op && M.kind[ch] == K_ASYNC) apply(ch, d);
        if (M.op && M.kind[ch] == K_SYNC) { M.pend[ch] = 1; memcpy(M.pdata[ch], d, 8); }
        w_rx(&Node, RID[ch], (uint8_t)dlc, d);
    } else if (e < E_SYNC) {
        memcpy(d, PAT[0], 8); w_rx(&Node, RID[e - E_NEIGH0] + 1, 8, d);
    } else switch (e) {
    case E_SYNC:
        if (M.op) for (int ch = 0; ch < 3; ch++) if (M.kind[ch] == K_SYNC && M.pend[ch] == 1) { apply(ch, M.pdata[ch]); M.pend[ch] = 0; }
        w_rx(&Node, 0x80, 0, d); break;
    case E_LOCAL: P8 = 0x77; P16 = 0x7777; B8[0] = 0x77; P32 = 0x77777777; M.img.p8 = 0x77; M.img.p16 = 0x7777; M.img.b0 = 0x77; M.img.p32 = 0x77777777; break;
    case E_START: if (!M.op) { M.op = 1; for (int ch = 0; ch < 3; ch++) if (M.pend[ch]) M.pend[ch] = 2; } nc_nmt(1, 0); break;
    case E_PREOP: M.op = 0; for (int ch = 0; ch < 3; ch++) if (M.pend[ch]) M.pend[ch] = 2; nc_nmt(128, 0); break;
    case E_STOP:  M.op = 0; for (int ch = 0; ch < 3; ch++) if (M.pend[ch]) M.pend[ch] = 2; nc_nmt(2, 0); break;
    case E_TICK: w_tick(&Node, 1); break;
    case E_SYNCWR: {         /* 1006h is 0: the producer cannot be started, the write is refused - and the SYNC identifier the RPDOs wait for stays 80h */
        CO_ERR er = CODictWrLong(&Node.Dict, CO_DEV(0x1005, 0), 0x40000081u);
        if (er == CO_ERR_NONE) mc_fail("rpdo-sync-id-write", "write of 40000081h to 1005h accepted although 1006h is 0");
        (void)CONodeGetErr(&Node);
        break; }
    default: break;
    }
    nc_poll();                   
    /* a frame buffered before an NMT change: applying it at a SYNC in OPERATIONAL or dropping it are both admissible */
    for (int ch = 0; ch < 3; ch++) if (M.pend[ch] == 2 && e == E_SYNC && M.op) {
        Img keep = M.img; apply(ch, M.pdata[ch]);
        if (!(P8 == M.img.p8 && P16 == M.img.p16 && B8[0] == M.img.b0 && B8[1] == M.img.b1 && P32 == M.img.p32)) M.img = keep;
        M.pend[ch] = 0;
    }
    if (P8 != M.img.p8 || P16 != M.img.p16 || B8[0] != M.img.b0 || B8[1] != M.img.b1 || P32 != M.img.p32) {
        mc_fail("rpdo-object-image", "after '%s' the mapped objects are P8=%02X P16=%04X B0=%02X B1=%02X P32=%08X, expected P8=%02X P16=%04X B0=%02X B1=%02X P32=%08X (OPERATIONAL=%d)",
                ev_name(e), P8, P16, B8[0], B8[1], P32, M.img.p8, M.img.p16, M.img.b0, M.img.b1, M.img.p32, M.op);
        return MC_OK; }
    if (A8 != 0x11 || A16 != 0x3344 || A32 != 0x778899AA || N32 != 0x01020304 || B8[2] != 0xC2 || B8[3] != 0xC3 || W16[0] != 0xD0D0) { mc_fail("rpdo-foreign-object", "an object that is not mapped changed on '%s'", ev_name(e)); return MC_OK; }
    if (OBS.ntx) { mc_fail("rpdo-transmission", "%d frame(s) sent on '%s'", OBS.ntx, ev_name(e)); return MC_OK; }
    for (int ch = 0; ch < 3; ch++) if (M.pend[ch] != 1) memset(M.pdata[ch], 0, 8);
    return MC_OK;
}

static const mc_harness H = { "C13", "c13", 128, cfg_name, build, ev_name, step, 4, 6 };
int main(int argc, char **argv) { return mc_main(argc, argv, &H); }
