/* c05_probe.h - recovery probes run in every discovered state (on a copy):
 * [client abort | NMT reset communication] ; clean transfer T  must behave exactly as on a fresh node. */
#ifndef C05_PROBE_H
#define C05_PROBE_H
#include <stdlib.h>
#include "sdo_client.h"

#define NPROBE 7
static uint64_t probe_ref[CO_SSDO_N][NPROBE]; static long probe_ref_frames[CO_SSDO_N][NPROBE];
static int PSRV;      /* server the clean transfers run on: every configured server has to recover */
static uint8_t *probe_snap; static long probe_runs;
static uint8_t  PAY[SDO_DS2 + 8];

static int probe_T(int p, char *why, size_t n)
{
    uint8_t buf[SDO_DS2 + 16]; uint32_t len = 0, ann = 0; int r;
    #define EXPECT_OK(call, what) do { r = (call); if (r != CL_OK) { snprintf(why, n, "%s: %s (abort %08X) %s", what, r == CL_ABORT ? "aborted" : "protocol error", cl_abort, r == CL_PROTOCOL ? cl_err : ""); return 1; } } while (0)
    #define EXPECT_DATA(i, what) do { if (len != OBJ[i].size || memcmp(buf, MV[i], len)) { snprintf(why, n, "%s: uploaded %u byte(s) differ from the object (%u bytes)", what, len, OBJ[i].size); return 1; } } while (0)
    switch (p) {
    case 0: EXPECT_OK(cl_exp_dl(PSRV, 0x2002, 0, PAY, 4, 1), "expedited download u32");
            EXPECT_OK(cl_upload(PSRV, 0x2002, 0, buf, sizeof buf, &len, &ann), "expedited upload u32"); EXPECT_DATA(O_U32, "u32"); break;
    case 1: EXPECT_OK(cl_upload(PSRV, 0x2010, 0, buf, sizeof buf, &len, &ann), "expedited upload 3-byte domain"); EXPECT_DATA(O_DOM3, "dom3");
            EXPECT_OK(cl_exp_dl(PSRV, 0x2010, 0, PAY, 3, 1), "expedited download 3-byte domain");
            EXPECT_OK(cl_upload(PSRV, 0x2010, 0, buf, sizeof buf, &len, &ann), "expedited upload 3-byte domain again"); EXPECT_DATA(O_DOM3, "dom3"); break;
    case 2: EXPECT_OK(cl_seg_dl(PSRV, 0x2011, 0, PAY, SDO_DS1, 1), "segmented download");
            EXPECT_OK(cl_upload(PSRV, 0x2011, 0, buf, sizeof buf, &len, &ann), "segmented upload"); EXPECT_DATA(O_DOMA, "domA"); break;
    case 3: EXPECT_OK(cl_seg_dl(PSRV, 0x2012, 0, PAY, SDO_DS2, 0), "segmented download without size");
            EXPECT_OK(cl_upload(PSRV, 0x2012, 0, buf, sizeof buf, &len, &ann), "segmented upload"); EXPECT_DATA(O_DOMB, "domB"); break;
    case 4: EXPECT_OK(cl_blk_dl(PSRV, 0x2012, 0, PAY, SDO_DS2, 1, 0, 0), "block download");
            EXPECT_OK(cl_blk_ul(PSRV, 0x2012, 0, 2, buf, sizeof buf, &len, &ann, 0, 0, 0, 0), "block upload"); EXPECT_DATA(O_DOMB, "domB"); break;
    case 5: { int lose[1] = { 1 }, db[1] = { 0 }, da[1] = { 1 }, dbs[1] = { 3 };
            EXPECT_OK(cl_blk_dl(PSRV, 0x2012, 0, PAY, SDO_DS2, 0, lose, 1), "block download with a lost segment");
            EXPECT_OK(cl_blk_ul(PSRV, 0x2012, 0, 3, buf, sizeof buf, &len, &ann, db, da, dbs, 1), "block upload with partial acknowledge"); EXPECT_DATA(O_DOMB, "domB"); break; }
    case 6: EXPECT_OK(cl_upload(PSRV, 0x2022, 0, buf, sizeof buf, &len, &ann), "segmented upload string"); EXPECT_DATA(O_STR12, "str12");
            EXPECT_OK(cl_upload(PSRV, 0x2020, 0, buf, sizeof buf, &len, &ann), "expedited upload string"); EXPECT_DATA(O_STR3, "str3");
            EXPECT_OK(cl_blk_ul(PSRV, 0x2021, 0, 127, buf, sizeof buf, &len, &ann, 0, 0, 0, 0), "block upload string"); EXPECT_DATA(O_STR5, "str5"); break;
    default: break;
    }
    return 0;
}

static void probe_prefix(int pre)
{
    /* the client of the probed server aborts; what another client left open on ANOTHER server stays as it is - it must not keep this one
     * from transferring any object */
    if (pre == 0) cl_client_abort(PSRV);
    else {
#if CO_SSDO_N > 1
        /* pre == 2: the server has been switched off in RAM (its COB-ID written with bit 31 set, not saved); the reset loads the stored parameters, so the server
         * is back on its stored identifiers afterwards - as on a node that starts from that NVM image */
        if (pre == 2) (void)CODictWrLong(&Node.Dict, CO_DEV(0x1200 + PSRV, 1), S1Id[0] | 0x80000000u);
#endif
        uint8_t d[2] = { 0x82, SDO_NODEID };
        w_rx(&Node, 0x000, 2, d);
        for (int s = 0; s < CO_SSDO_N; s++) { sdo_adopt(sdo_dirty_obj[s]); sdo_dirty_obj[s] = -1; sm_reset(&SM[s]); sdo_srv_off[s] = 0; }
    }
    if (!mc_opt("nopoll", 0)) (void)CONodeGetErr(&Node);
    sdo_content_force = 1; sdo_content_reset(); sdo_content_force = 0;
}

static void probe_init(void)
{
    char why[300];
    for (unsigned i = 0; i < sizeof PAY; i++) PAY[i] = (uint8_t)(0xC1 + 3 * i);
    if (!probe_snap) probe_snap = malloc(w_snap_size());
    w_save(probe_snap);
    for (PSRV = 0; PSRV < CO_SSDO_N; PSRV++) for (int p = 0; p < NPROBE; p++) {
        w_restore(probe_snap); w_obs_clear();
        cl_trace = 0; cl_frames = 0;
        if (probe_T(p, why, sizeof why)) { fprintf(stderr, "c05: probe %d fails on the fresh node: %s\n", p, why); mc_fail("c05-probe-fails-on-fresh-node", "probe %d on server %d: %s", p, PSRV, why); }
        probe_ref[PSRV][p] = cl_trace; probe_ref_frames[PSRV][p] = cl_frames;
    }
    PSRV = 0;
    w_restore(probe_snap); w_obs_clear();
}

static void probe_state(void)
{
    char why[300]; struct WObs keep = OBS;
    w_save(probe_snap);
    for (PSRV = 0; PSRV < CO_SSDO_N; PSRV++) for (int pre = 0; pre < (PSRV > 0 ? 3 : 2); pre++) for (int p = 0; p < NPROBE; p++) {
        w_restore(probe_snap); w_obs_clear();
        if (sdo_srv_off[PSRV] && pre == 0) continue;      /* a server that is switched off has no client to recover for; the reset prefixes load its stored (enabled) COB-IDs */
        probe_prefix(pre);
        w_obs_clear();
        cl_trace = 0; cl_frames = 0; probe_runs++;
        sdo_ctx = pre == 2 ? "[probe after the server was switched off in RAM and NMT reset communication] " : pre ? "[probe after NMT reset communication] " : "[probe after client abort] ";
        if (probe_T(p, why, sizeof why))
            mc_fail("c05-recovery-fails", "after %s, clean transfer #%d on server %d does not succeed: %s", pre == 2 ? "switching the server off in RAM and NMT reset communication" : pre ? "NMT reset communication" : "a client abort", p, PSRV, why);
        else if (cl_trace != probe_ref[PSRV][p] || cl_frames != probe_ref_frames[PSRV][p])
            mc_fail("c05-recovery-differs", "after %s, the frames of clean transfer #%d on server %d (%ld frames) differ from those of a freshly initialised node (%ld frames)",
                    pre ? "NMT reset communication" : "a client abort", p, PSRV, cl_frames, probe_ref_frames[PSRV][p]);
        sdo_ctx = "";
    }
    PSRV = 0;
    w_restore(probe_snap);
    OBS = keep;
}
#endif
