/* C14 (b) - every mapping a client can store through the CiA 301 procedure takes effect exactly as stored.
 * For every ordered composition of mapping entries - objects of 8, 16, 24 (of a 32-bit object) and 32 bit -
 * totalling <= 8 bytes, the client runs the procedure with expedited SDO writes (PDO invalid, count 0, entries 1..n, count n, PDO valid), in
 * PRE-OPERATIONAL followed by NMT start (cfg 0) or while OPERATIONAL (cfg 1).  Every write must be accepted and read back as written; afterwards a
 * trigger of the TPDO must give the little-endian concatenation of the mapped values (DLC = mapped bytes), a frame for the RPDO must put exactly its
 * fields into the mapped objects.  Every composition is also extended by one entry that takes it beyond 8 bytes: the count write must then be refused
 * with 0604 0042h, the stored count stays 0 and the activated PDO maps nothing. */
#include "node_common.h"

/* element codes: 1,2,3,4 = object of that width; 5,6,7 = dummy of width 1,2,4 (RPDO only) */
static const int WIDTH[] = { 0, 1, 2, 3, 4, 1, 2, 4 };
static const uint16_t DUMMY_IDX[3][2] = { { 0x0002, 0x0005 }, { 0x0003, 0x0006 }, { 0x0004, 0x0007 } };
static const uint8_t PAY[2][8] = { { 0x11, 0x22, 0x33, 0x44, 0x55, 0x66, 0x77, 0x88 }, { 0xFE, 0x01, 0x80, 0x7F, 0xAA, 0x55, 0xC3, 0x3C } };
static const uint32_t V32[2][2] = { { 0x04030201u, 0xA4A3A2A1u }, { 0xFFEEDDCCu, 0x7F00FF80u } };
static int OPER;

static void set_values(int pat)
{
    for (int i = 0; i < 8; i++) B8[i] = (uint8_t)(pat ? 0xF0 - 7 * i : 0x31 + i);
    for (int i = 0; i < 4; i++) W16[i] = (uint16_t)(pat ? 0xFE01 - 0x111 * i : 0x4241 + 0x202 * i);
    A32 = V32[pat][0]; P32 = V32[pat][1];
}

static int wr(uint16_t idx, uint8_t sub, uint32_t v, int len, uint32_t expect, const char *cs)
{
    uint32_t r, back = 0;
    w_obs_clear();
    r = nc_sdo_write(idx, sub, v, len); mc_steps++;
    if (r != expect) { mc_fail(expect ? "pdo-write-accepted" : "pdo-write-refused", "mapping %s: SDO write %04Xh:%d = %08X answered with %08X, expected %08X", cs, idx, sub, v, r, expect); return 1; }
    if (expect == 0) { w_obs_clear(); if (nc_sdo_read(idx, sub, &back) != 0 || back != v) { mc_fail("pdo-stored-value", "mapping %s: %04Xh:%d reads %08X after the accepted write of %08X", cs, idx, sub, back, v); return 1; } }
    return 0;
}

/* dir 0 TPDO, 1 RPDO; over: the last element takes the mapping beyond 8 bytes */
static void one(int dir, const int *comp, int n, int pat, int over)
{
    int i8 = 0, i16 = 0, i32 = 0, nd = 0, pos = 0, wl = 0; char cs[48], smp[160]; uint32_t map[8]; uint8_t want[8] = { 0 };
    uint16_t com = dir ? 0x1400 : 0x1800, mp = dir ? 0x1600 : 0x1A00; uint32_t cob = dir ? 0x201u : 0x40000181u;
    uint8_t want8[8]; uint16_t want16[4]; uint32_t want32[2];
    w_regions_clear();
    nc_defaults();
    NC.n_tpdo = 1; NC.tpdo[0].present = 1; NC.tpdo[0].cobid = 0x40000181u; NC.tpdo[0].type = 254; NC.tpdo[0].nmap = 1; NC.tpdo[0].map[0] = NC_MAP(0x2110, 0, 8);
    NC.n_rpdo = 1; NC.rpdo[0].present = 1; NC.rpdo[0].cobid = 0x201; NC.rpdo[0].type = 255; NC.rpdo[0].nmap = 1; NC.rpdo[0].map[0] = NC_MAP(0x2110, 0, 8);
    NC.operational = OPER;
    nc_build();
    snprintf(cs, sizeof cs, "%s ", dir ? "RPDO" : "TPDO");
    for (int k = 0; k < n; k++) {
        int c = comp[k], w = WIDTH[c]; snprintf(cs + strlen(cs), sizeof cs - strlen(cs), "%c", c <= 4 ? '0' + c : (c == 5 ? 'a' : c == 6 ? 'b' : 'd'));
        if (c >= 5) map[k] = NC_MAP(DUMMY_IDX[c - 5][nd++ & 1], 0, w * 8);
        else if (w == 1) map[k] = NC_MAP(0x2113, 1 + i8++ % 8, 8);
        else if (w == 2) map[k] = NC_MAP(0x2114, 1 + i16++ % 4, 16);
        else { map[k] = (i32 & 1) == 0 ? NC_MAP(0x2102, 0, w * 8) : NC_MAP(0x2112, 0, w * 8); i32++; }
    }
    /* the CiA 301 procedure */
    if (wr(com, 1, cob | 0x80000000u, 4, 0, cs) || wr(mp, 0, 0, 1, 0, cs)) goto out;
    for (int k = 0; k < n; k++) if (wr(mp, (uint8_t)(1 + k), map[k], 4, 0, cs)) goto out;
    if (wr(mp, 0, (uint32_t)n, 1, over ? 0x06040042u : 0, cs)) goto out;
    if (over) { uint32_t c0 = 99; w_obs_clear(); if (nc_sdo_read(mp, 0, &c0) != 0 || c0 != 0) { mc_fail("pdo-stored-value", "mapping %s: count reads %u after the refused write of %d", cs, c0, n); goto out; } }
    if (wr(com, 1, cob, 4, 0, cs)) goto out;
    if (!OPER) { w_obs_clear(); nc_nmt(1, 0); mc_steps++; }
    /* activated behaviour */
    if (!dir) {
        set_values(pat);
        i8 = i16 = i32 = 0;
        for (int k = 0; k < n && !over; k++) {
            int w = WIDTH[comp[k]]; uint32_t v = w == 1 ? B8[i8++] : w == 2 ? W16[i16++] : ((i32++ & 1) == 0 ? A32 : P32);
            for (int b = 0; b < w; b++) want[wl++] = (uint8_t)(v >> (8 * b));
        }
        if (Node.TPdo[0].ObjNum > 8) { mc_fail("pdo-activated-too-many", "mapping %s: activated TPDO has %d mapped objects", cs, Node.TPdo[0].ObjNum); goto out; }
        w_obs_clear();
        COTPdoTrigPdo(Node.TPdo, 0); mc_steps++;
        const WFrame *f = nc_find_tx(0x181, 0);
        if (!f || nc_count_tx(0x181) != 1 || OBS.ntx != 1) mc_fail("pdo-activation-differs", "mapping %s: %d frame(s), %d on 181h, for one trigger of the re-validated TPDO", cs, OBS.ntx, nc_count_tx(0x181));
        else if (f->dlc != wl || memcmp(f->d, want, (size_t)wl)) { char a[40]; w_fmt_frame(a, sizeof a, f); mc_fail("pdo-activation-differs", "mapping %s values %d: frame %s is not the stored mapping (%d bytes: %02X %02X %02X %02X %02X %02X %02X %02X)", cs, pat, a, wl, want[0], want[1], want[2], want[3], want[4], want[5], want[6], want[7]); }
        pos = wl;
    } else {
        set_values(pat ^ 1);
        for (int i = 0; i < 8; i++) want8[i] = B8[i];
        for (int i = 0; i < 4; i++) want16[i] = W16[i];
        want32[0] = A32; want32[1] = P32;
        i8 = i16 = i32 = 0;
        for (int k = 0; k < n && !over; k++) {
            int c = comp[k], w = WIDTH[c]; uint32_t v = 0;
            for (int b = 0; b < w; b++) v |= (uint32_t)PAY[pat][pos + b] << (8 * b);
            if (c <= 4) { if (w == 1) want8[i8++] = (uint8_t)v; else if (w == 2) want16[i16++] = (uint16_t)v; else want32[i32++ & 1] = v; }
            pos += w;
        }
        if (Node.RPdo[0].ObjNum > 8) { mc_fail("pdo-activated-too-many", "mapping %s: activated RPDO has %d mapped objects", cs, Node.RPdo[0].ObjNum); goto out; }
        w_obs_clear();
        w_rx(&Node, 0x201, 8, PAY[pat]); mc_steps++;
        for (int i = 0; i < 8; i++) if (B8[i] != want8[i]) { mc_fail("pdo-activation-differs", "mapping %s payload %d: 8-bit object #%d is %02X, the stored mapping says %02X", cs, pat, i, B8[i], want8[i]); break; }
        for (int i = 0; i < 4; i++) if (W16[i] != want16[i]) { mc_fail("pdo-activation-differs", "mapping %s payload %d: 16-bit object #%d is %04X, the stored mapping says %04X", cs, pat, i, W16[i], want16[i]); break; }
        if (A32 != want32[0] || P32 != want32[1]) mc_fail("pdo-activation-differs", "mapping %s payload %d: 32-bit objects are %08X %08X, the stored mapping says %08X %08X", cs, pat, A32, P32, want32[0], want32[1]);
        if (A8 != 0x11 || P8 != 0x22 || A16 != 0x3344 || P16 != 0x5566 || N32 != 0x01020304 || W32 != 0x0E0F1011) mc_fail("pdo-activation-differs", "mapping %s: an object that is not mapped changed", cs);
        if (OBS.ntx) mc_fail("pdo-activation-differs", "mapping %s: %d frame(s) sent on reception", cs, OBS.ntx);
    }
out:
    if (OBS.fatal) mc_fail("safety:fatal-error callback invoked", "mapping %s", cs);
    snprintf(smp, sizeof smp, "mapping %s%s (1-4 object widths, a/b/d dummies) %s, values %d -> %d bytes active", cs, over ? " (beyond 8 bytes: count refused)" : "", OPER ? "while OPERATIONAL" : "in PRE-OPERATIONAL + start", pat, pos);
    mc_case_end(((uint64_t)dir << 63) ^ ((uint64_t)over << 62) ^ ((uint64_t)n << 56) ^ ((uint64_t)pos << 48) ^ ((uint64_t)want[0] << 8) ^ want[wl ? wl - 1 : 0] ^ ((uint64_t)B8[0] << 24) ^ ((uint64_t)A32 << 16), 1, smp);
}

static void emit(int dir, const int *comp, int n, int over)
{
    for (int pat = 0; pat < 2; pat++) { int v[14]; v[0] = dir; v[1] = over; v[2] = n; v[3] = pat; for (int k = 0; k < n; k++) v[4 + k] = comp[k]; mc_case_v(v, n + 4); one(dir, comp, n, pat, over); }
}
static void rec(int dir, int *comp, int n, int sum)
{
    if (n > 0) emit(dir, comp, n, 0);
    if (n == 8) return;
    for (int c = 1; c <= 4; c++) {      /* dummy entries (codes 5..7) cannot be stored through SDO on this stack: 0002h..0007h are not dictionary entries, the write is refused as 'not mappable' - stricter than, but not against, the statement */
        comp[n] = c;
        if (sum + WIDTH[c] > 8) { emit(dir, comp, n + 1, 1); continue; }
        rec(dir, comp, n + 1, sum + WIDTH[c]);
    }
}
static void run_cfg(int cfg, int tier) { int comp[9]; (void)tier; OPER = cfg; for (int dir = 0; dir < 2; dir++) rec(dir, comp, 0, 0); }
static void run_case(const int *c, int n) { if (n < 6) return; OPER = c[0]; mc_case_v(c + 1, n - 1); one(c[1], c + 5, c[3], c[4], c[2]); }
static const char *cfg_name(int c) { return c ? "procedure while OPERATIONAL" : "procedure in PRE-OPERATIONAL, then NMT start"; }
static const mc_enum E = { "C14", "c14map", 2, cfg_name, run_cfg, run_case };
int main(int argc, char **argv) { return mc_enum_main(argc, argv, &E); }
