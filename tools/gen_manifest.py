#!/usr/bin/env python3
"""Generate MANIFEST.json from mc/jobs.py (claimed properties) + properties.jsonl (everything else -> not_applicable)."""
import json, os, sys
ROOT = os.path.dirname(os.path.dirname(os.path.abspath(__file__)))
sys.path.insert(0, os.path.join(ROOT, "mc"))
from jobs import PROPS
props = [json.loads(l) for l in open(os.path.join(ROOT, "properties.jsonl"))]
checks = []
for p in props:
    pid = p["id"]
    if pid not in PROPS or PROPS[pid].get("disabled"):
        continue
    s = PROPS[pid]
    checks.append({
        "property_id": pid,
        "quick_cmd": "./verif check %s --tier quick" % pid,
        "thorough_cmd": "./verif check %s --tier thorough" % pid,
        "evidence_file": "/verif/evidence/%s.json" % pid,
        "replay_cmd_template": "./verif replay {path}",
        "engine": "mc",
        "level_claimed": {"category": s["level"], "text": s["text"], "design_ref": "DESIGN.md section 2, " + pid},
        "level_note": s["note"],
        "technique": s["technique"],
    })
na = [{"property_id": p["id"], "reason": PROPS.get(p["id"], {}).get("na_reason", "check not built yet in this round; planned as described in DESIGN.md section 2")}
      for p in props if p["id"] not in PROPS or PROPS[p["id"]].get("disabled")]
m = {
    "version": 1,
    "setup_cmd": "./verif setup",
    "hooks": {
        "guard": "CO_VERIF",
        "enable": "checks compile /repo/src themselves with clang -DCO_VERIF [-DCO_VERIF_SDO_BUF_SEG=n ...]; no build-system change",
        "baseline_off_cmd": "/verif/tools/baseline.sh",
        "source_commits": json.load(open(os.path.join(ROOT, "hooks.json")))["source_commits"] if os.path.exists(os.path.join(ROOT, "hooks.json")) else [],
        "add_only": True,
    },
    "engines": [{"name": "mc", "path": "/verif/mc", "serves_properties": [c["property_id"] for c in checks],
                 "kind_free_text": "explicit-state BFS / deviation-bounded exhaustive enumeration over the real implementation (ASan+UBSan build), snapshot/restore of all mutable state, lockstep reference models in C"}],
    "checks": checks,
    "not_applicable": na,
    "notes": "All checks rebuild the stack from $VERIF_REPO (default /repo) working tree on every invocation (content-hash cache under /verif/build). known_findings.json lists fixed/open genuine defects.",
}
json.dump(m, open(os.path.join(ROOT, "MANIFEST.json"), "w"), indent=1)
print("MANIFEST.json: %d checks, %d not_applicable" % (len(checks), len(na)))
