#!/bin/bash
# usage: seedeval.sh <ID> <check> [more checks]  - compact evaluation of a delivered seeded change (see seedcheck.sh)
ID=$1; shift
out=$(tools/seedcheck.sh $ID "$@" 2>&1)
echo "## $ID: $(echo "$out" | grep -m1 'files\? changed' | sed 's/^ *//') | $(echo "$out" | grep -m1 '^baseline:' | cut -c1-40) | clean $(echo "$out" | grep -A1 'demo on clean' | grep -o '^exit=[0-9]*') changed $(echo "$out" | grep -A1 'demo on changed' | grep -o '^exit=[0-9]*')"
for c in "$@"; do
  blk=$(echo "$out" | sed -n "/== our check $c /,/^exit=/p")
  if echo "$blk" | grep -q "^VIOLATION property=$c"; then echo "   $c DETECTED: $(echo "$blk" | grep '  harness=' | sed 's/^ *//' | sort -u | head -3 | tr '\n' ';')"; else echo "   $c MISSED $(echo "$blk" | grep -m1 BROKEN)"; fi
done
