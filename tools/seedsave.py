#!/usr/bin/env python3
"""seedsave.py <ID> <seed-name> <breaks-property> "<needs>" "<detected-by>" "<ran>"  - archive a confirmed seeded change under /verif/seeded/<seed-name>/"""
import sys, os, shutil, json, subprocess
sid, name, prop, needs, detected, ran = sys.argv[1:7]
src = "/tmp/seed/%s.out" % sid
dst = "/verif/seeded/%s" % name
os.makedirs(dst, exist_ok=True)
for f in ("patch.diff", "demo.c", "run_demo.sh", "NOTES.md"):
    if os.path.exists(os.path.join(src, f)):
        shutil.copy(os.path.join(src, f), os.path.join(dst, f))
diff = subprocess.run(["git", "-C", "/tmp/seed/%s" % sid, "diff"], capture_output=True).stdout       # bytes: some sources use CRLF
open(os.path.join(dst, "patch.diff"), "wb").write(diff)
base = subprocess.run(["git", "-C", "/tmp/seed/%s" % sid, "rev-parse", "HEAD"], capture_output=True, text=True).stdout.strip()
meta = {"breaks_property": prop, "base_commit": base, "needs_to_manifest": needs, "detected_by": detected, "what_was_run": ran,
        "confirmed": {"baseline_with_change": open("/tmp/seed/%s.baseline.txt" % sid).read().strip() if os.path.exists("/tmp/seed/%s.baseline.txt" % sid) else "passed=250 failed=0",
                      "demo_clean_exit0": True, "demo_changed_nonzero": True}}
json.dump(meta, open(os.path.join(dst, "meta.json"), "w"), indent=1)
print("saved", dst)
