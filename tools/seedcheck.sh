#!/bin/bash
# usage: seedcheck.sh <ID> [check ids...]   - confirm a seeded change delivered in /tmp/seed/<ID>(.out) and run our checks against it
ID=$1; shift
CHECKS=${@:-$ID}
S=/tmp/seed/$ID; O=/tmp/seed/$ID.out
CLEAN=${SEED_CLEAN:-/tmp/seed/clean3}
echo "== diffstat"; git -C $S diff --stat | tail -3
echo "== baseline with change"; /tmp/seed/baseline.sh $S
echo "== demo on clean tree"; bash $O/run_demo.sh $CLEAN > /tmp/seed/$ID.demo_clean.txt 2>&1; echo "exit=$? $(tail -1 /tmp/seed/$ID.demo_clean.txt | cut -c1-200)"
echo "== demo on changed tree"; bash $O/run_demo.sh $S > /tmp/seed/$ID.demo_changed.txt 2>&1; echo "exit=$? $(tail -1 /tmp/seed/$ID.demo_changed.txt | cut -c1-300)"
for c in $CHECKS; do
  echo "== our check $c (quick) against the changed tree"
  (cd /verif && VERIF_REPO=$S timeout 1500 ./verif check $c --tier quick 2>&1 | grep -E "^VIOLATION|^  harness|^BROKEN|quick:" | cut -c1-260 | head -12; echo "exit=${PIPESTATUS[0]}")
done
