#!/bin/bash
# usage: ev10.sh "<ID> <checks...>" ...   (2 at a time)
cd /verif
run() { tools/seedeval2.sh "$@" 2>&1 | grep -v WARNING >> /tmp/seed/eval12.$1.log; }
export -f run
printf '%s\n' "$@" | xargs -P 3 -I{} bash -c 'run {}'
echo DONE >> /tmp/seed/eval12.done
