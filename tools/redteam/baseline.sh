#!/bin/sh
# usage: baseline.sh <repo_root>   - builds the repository's own tests in <repo_root>/_build and runs them.
# Expected on an unmodified tree: passed=250 failed=0 (84 further unit tests do not link in this pinned tree: "Not Run", normal).
REPO=$1
BDIR=$REPO/_build
[ -d "$BDIR" ] || cmake -G Ninja -S "$REPO" -B "$BDIR" >/dev/null 2>&1
cmake --build "$BDIR" -- -k 0 >/dev/null 2>&1
OUT=$(ctest --test-dir "$BDIR" -j8 --timeout 900 2>&1)
PASSED=$(printf '%s\n' "$OUT" | grep -c ' Passed ')
FAILED=$(printf '%s\n' "$OUT" | grep -c '\*\*\*Failed\|\*\*\*Exception\|\*\*\*Timeout')
echo "baseline: passed=$PASSED failed=$FAILED (expected passed=250 failed=0)"
[ "$PASSED" -eq 250 ] && [ "$FAILED" -eq 0 ]
