#!/bin/bash
# usage: seedregress.sh <seeded-dir-name> [check ids...]
# Applies /verif/seeded/<name>/patch.diff to a scratch worktree of /repo HEAD (outside /repo and /verif), runs the quick tier of
# the given checks (default: the property named in meta.json) against it and removes the worktree again.
# Prints one line per check: DETECTED / MISSED.  Nothing is ever applied to /repo itself.
N=$1; shift
D=/verif/seeded/$N
P=$(python3 -c "import json;print(json.load(open('$D/meta.json'))['breaks_property'])")
CHECKS=${@:-$P}
WT=/tmp/seedrun-$N
git -C /repo worktree remove --force $WT >/dev/null 2>&1
git -C /repo worktree add -q $WT HEAD || exit 2
if ! git -C $WT apply $D/patch.diff 2>/dev/null && ! git -C $WT apply -3 $D/patch.diff 2>/dev/null; then
  echo "$N: patch does not apply to HEAD any more"; git -C /repo worktree remove --force $WT; exit 2
fi
for c in $CHECKS; do
  out=$(cd /verif && VERIF_REPO=$WT timeout 3000 ./verif check $c --tier quick 2>&1)
  if echo "$out" | grep -q "^VIOLATION property=$c"; then echo "$N: $c DETECTED ($(echo "$out" | grep -m1 '  harness=' | sed 's/^ *//'))"; else echo "$N: $c MISSED"; fi
done
git -C /repo worktree remove --force $WT
rm -rf /verif/build/*@$(python3 -c "import hashlib,os;print(hashlib.sha256(os.path.realpath('$WT').encode()).hexdigest()[:10])") 2>/dev/null
