"""CRLF-preserving exact-string replacement: pyedit.rep(path, old, new)"""
def rep(path, old, new, count=1):
    raw = open(path, newline='').read()
    crlf = '\r\n' in raw
    if crlf:
        old = old.replace('\r\n', '\n').replace('\n', '\r\n')
        new = new.replace('\r\n', '\n').replace('\n', '\r\n')
    assert old in raw, "pattern not found in %s: %r" % (path, old[:60])
    raw = raw.replace(old, new, count)
    open(path, 'w', newline='').write(raw)
