#!/bin/bash
# usage: seedeval2.sh <ID> <check> [more checks]  - confirm a delivered change in /tmp/seed/<ID>(.out) (baseline with the change, demo on the
# clean and on the changed tree), then run our quick checks against the change applied to a scratch worktree of the CURRENT /repo HEAD
ID=$1; shift
S=/tmp/seed/$ID; O=/tmp/seed/$ID.out; CLEAN=${SEED_CLEAN:-/tmp/seed/clean3}
git -C $S diff > $O/patch.diff
bl=$(/tmp/seed/baseline.sh $S | cut -c1-40); echo "$bl" > /tmp/seed/$ID.baseline.txt
bash $O/run_demo.sh $CLEAN > /tmp/seed/$ID.demo_clean.txt 2>&1; dc=$?
bash $O/run_demo.sh $S > /tmp/seed/$ID.demo_changed.txt 2>&1; dx=$?
echo "## $ID: $(git -C $S diff --stat | tail -1 | sed 's/^ *//') | $bl | demo clean exit=$dc changed exit=$dx"
WT=/tmp/seedhead-$ID
git -C /repo worktree remove --force $WT >/dev/null 2>&1
git -C /repo worktree add -q --detach $WT HEAD || exit 2
git -C $WT apply $O/patch.diff 2>/dev/null || git -C $WT apply -3 $O/patch.diff 2>/dev/null || { echo "   patch does not apply to HEAD"; git -C /repo worktree remove --force $WT; exit 2; }
for c in "$@"; do
  out=$(cd /verif && VERIF_REPO=$WT timeout 3000 ./verif check $c --tier quick 2>&1)
  if echo "$out" | grep -q "^VIOLATION property=$c"; then echo "   $c DETECTED: $(echo "$out" | grep '  harness=' | sed 's/^ *//' | sort | uniq -c | sort -rn | head -3 | tr '\n' ';')"; else echo "   $c MISSED $(echo "$out" | grep -m1 BROKEN)"; fi
done
git -C /repo worktree remove --force $WT
rm -rf /verif/build/*@$(python3 -c "import hashlib,os;print(hashlib.sha256(os.path.realpath('$WT').encode()).hexdigest()[:10])") 2>/dev/null
