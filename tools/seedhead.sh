#!/bin/bash
# usage: seedhead.sh <ID> <check> [more]  - like seedeval.sh, but the delivered patch is applied to a scratch worktree of the CURRENT /repo HEAD
ID=$1; shift
WT=/tmp/seedhead-$ID
git -C /repo worktree remove --force $WT >/dev/null 2>&1
git -C /repo worktree add -q $WT HEAD || exit 2
git -C $WT apply /tmp/seed/$ID.out/patch.diff 2>/dev/null || git -C $WT apply -3 /tmp/seed/$ID.out/patch.diff 2>/dev/null || { echo "$ID: patch does not apply to HEAD"; git -C /repo worktree remove --force $WT; exit 2; }
for c in "$@"; do
  out=$(cd /verif && VERIF_REPO=$WT timeout 3000 ./verif check $c --tier quick 2>&1)
  if echo "$out" | grep -q "^VIOLATION property=$c"; then echo "$ID@HEAD: $c DETECTED: $(echo "$out" | grep '  harness=' | sed 's/^ *//' | sort -u | head -3 | tr '\n' ';')"; else echo "$ID@HEAD: $c MISSED"; fi
done
git -C /repo worktree remove --force $WT
