#!/bin/sh
# Rebuild the repository's own test suite WITHOUT the CO_VERIF guard and run the 250-test baseline.
# The pinned tree has 84 unit tests that do not link ("Not Run"); that is the recorded baseline.
REPO=${VERIF_REPO:-/repo}
BDIR=${VERIF_BASELINE_BUILD:-$REPO/_build}
[ -d "$BDIR" ] || cmake -G Ninja -S "$REPO" -B "$BDIR" >/dev/null 2>&1
cmake --build "$BDIR" -- -k 0 >/dev/null 2>&1
OUT=$(ctest --test-dir "$BDIR" -j8 --timeout 900 2>&1)
PASSED=$(printf '%s\n' "$OUT" | grep -c ' Passed ')
FAILED=$(printf '%s\n' "$OUT" | grep -c '\*\*\*Failed\|\*\*\*Exception\|\*\*\*Timeout')
echo "baseline: passed=$PASSED failed=$FAILED (expected passed=250 failed=0)"
[ "$PASSED" -eq 250 ] && [ "$FAILED" -eq 0 ]
